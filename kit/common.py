"""Shared machinery of /verif/check: paths, PRNG, harness runner, Coq build /
case evaluation, audit, evidence.  See DESIGN.md section 3."""
import fcntl, hashlib, json, os, random, re, subprocess, sys, time, glob, shutil
from concurrent.futures import ThreadPoolExecutor

VERIF = os.path.dirname(os.path.dirname(os.path.abspath(__file__)))
REPO = os.path.abspath(os.environ.get("VERIF_REPO") or "/repo")
ALT = REPO != "/repo"
# Registered checks always run against /repo.  VERIF_REPO=<worktree> runs the
# same machinery against a scratch copy of the repository (mutation self-tests)
# in a private work area, so it never touches /verif/coq, evidence/ or replays/.
if ALT:
    _h = hashlib.sha256(REPO.encode()).hexdigest()[:10]
    WORK = os.path.join(VERIF, ".work", "alt-" + _h)
    COQ = os.path.join(WORK, "coq")
    HARNESS_DIR = os.path.join(WORK, "harness")
    OUTDIR = WORK
else:
    WORK = os.path.join(VERIF, ".work")
    COQ = os.path.join(VERIF, "coq")
    HARNESS_DIR = os.path.join(VERIF, "harness")
    OUTDIR = VERIF
TH = os.path.join(COQ, "theories")
TARGET = os.path.join(WORK, "target")
HARNESS_BIN = os.path.join(TARGET, "debug", "rvharness")
NCPU = min(16, os.cpu_count() or 4)

os.makedirs(WORK, exist_ok=True)


def prepare_alt():
    """Mirror coq/ and harness/ into the private work area of an alternate repo."""
    if not ALT:
        return
    r = subprocess.run(["rsync", "-a", "--delete", os.path.join(VERIF, "coq") + "/", COQ + "/"])
    if r.returncode not in (0, 24):     # 24 = a file vanished while copying (a concurrent build): harmless
        raise RuntimeError("rsync of coq/ failed: %d" % r.returncode)
    os.makedirs(os.path.join(COQ, "theories", "Gen"), exist_ok=True)
    subprocess.run(["rsync", "-a", "--delete", "--exclude", "target", os.path.join(VERIF, "harness") + "/", HARNESS_DIR + "/"], check=True)
    ct = os.path.join(HARNESS_DIR, "Cargo.toml")
    t = open(ct).read().replace('path = "/repo/rsass"', f'path = "{REPO}/rsass"')
    open(ct, "w").write(t)


def log(*a):
    print(*a, file=sys.stderr, flush=True)


class Lock:
    def __init__(self, name):
        self.path = os.path.join(WORK, name + ".lock")

    def __enter__(self):
        self.f = open(self.path, "w")
        fcntl.flock(self.f, fcntl.LOCK_EX)
        return self

    def __exit__(self, *a):
        fcntl.flock(self.f, fcntl.LOCK_UN)
        self.f.close()


def rng_for(prop, seed):
    h = hashlib.sha256(f"{prop}:{seed}".encode()).digest()
    return random.Random(int.from_bytes(h[:8], "big"))


# ---------------------------------------------------------------------------
# implementation side

def build_harness():
    """(Re)build the harness against /repo's current working tree."""
    with Lock("cargo"):
        lock_src = os.path.join(REPO, "Cargo.lock")
        env = dict(os.environ, CARGO_TARGET_DIR=TARGET, CARGO_NET_OFFLINE="true")
        t0 = time.time()
        p = subprocess.run(["cargo", "build", "--offline", "--quiet"],
                           cwd=HARNESS_DIR, env=env,
                           capture_output=True, text=True)
        if p.returncode != 0:
            # retry once with a fresh lock file copied from the repo
            shutil.copy(lock_src, os.path.join(HARNESS_DIR, "Cargo.lock"))
            p = subprocess.run(["cargo", "build", "--offline", "--quiet"],
                               cwd=HARNESS_DIR, env=env,
                               capture_output=True, text=True)
        if p.returncode != 0:
            return False, p.stderr[-4000:]
        return True, f"harness built in {time.time()-t0:.1f}s"


def build_cli():
    """Build the rsass binary from /repo/rsass-cli; returns path or None."""
    with Lock("cargo"):
        tdir = os.path.join(WORK, "target-cli")
        env = dict(os.environ, CARGO_TARGET_DIR=tdir, CARGO_NET_OFFLINE="true")
        p = subprocess.run(["cargo", "build", "--offline", "--quiet", "-p", "rsass-cli"],
                           cwd=REPO, env=env, capture_output=True, text=True)
        if p.returncode != 0:
            return None, p.stderr[-4000:]
        return os.path.join(tdir, "debug", "rsass"), ""


def _hex(b):
    if isinstance(b, str):
        b = b.encode("utf-8")
    return b.hex()


def _run_chunk(reqs, timeout_per_case=20.0):
    """Run requests sequentially in one harness process, restarting it after a
    crash or a per-request timeout.  Returns list of (tag, [bytes fields]);
    tag `crash` = the process died (abort / stack overflow), `timeout` = no
    answer within timeout_per_case seconds (the process is killed)."""
    import queue, threading
    out = []
    i = 0
    n = len(reqs)
    while i < n:
        p = subprocess.Popen([HARNESS_BIN], stdin=subprocess.PIPE, stdout=subprocess.PIPE,
                             stderr=subprocess.DEVNULL, cwd=WORK)
        q = queue.Queue()

        def reader(proc=p, q=q):
            for line in proc.stdout:
                q.put(line)
            q.put(None)

        def writer(proc=p, start=i):
            try:
                for r in reqs[start:]:
                    proc.stdin.write((r[0] + "".join("\t" + _hex(x) for x in r[1:]) + "\n").encode())
                proc.stdin.close()
            except (BrokenPipeError, OSError, ValueError):
                pass

        threading.Thread(target=reader, daemon=True).start()
        threading.Thread(target=writer, daemon=True).start()
        while i < n:
            try:
                line = q.get(timeout=timeout_per_case)
            except queue.Empty:
                p.kill()
                out.append(("timeout", [b"no answer within %ds" % int(timeout_per_case)]))
                i += 1
                break
            if line is None:
                rc = p.wait()
                out.append(("crash", [str(rc).encode()]))
                i += 1
                break
            f = line.decode("ascii", "replace").rstrip("\n").split("\t")
            out.append((f[0], [bytes.fromhex(x) for x in f[1:]]))
            i += 1
        try:
            p.kill()
        except OSError:
            pass
        p.wait()
    return out[:n]


def run_impl(reqs, jobs=NCPU, timeout_per_case=20.0):
    """reqs: list of tuples (cmd, arg, arg, ...) -> list of (tag, fields)."""
    if not reqs:
        return []
    k = max(1, min(jobs, (len(reqs) + 7) // 8))
    size = (len(reqs) + k - 1) // k
    chunks = [reqs[i:i + size] for i in range(0, len(reqs), size)]
    with ThreadPoolExecutor(max_workers=k) as ex:
        res = list(ex.map(lambda c: _run_chunk(c, timeout_per_case), chunks))
    out = []
    for r in res:
        out.extend(r)
    assert len(out) == len(reqs), (len(out), len(reqs))
    return out


# ---------------------------------------------------------------------------
# Coq side

FORBIDDEN = re.compile(
    r"\b(Admitted|admit|Axiom|Axioms|Parameter|Parameters|Conjecture|Conjectures|"
    r"Unset\s+Guard|bypass_check|Admit\s+Obligations|type-in-type|impredicative-set|"
    r"Unset\s+Positivity|Unset\s+Universe)\b")

# axioms declared by Coq's standard library that this development may rely on
# (DESIGN.md section 2); anything else reported by Print Assumptions fails the audit
AXIOM_ALLOW = {
    "ClassicalDedekindReals.sig_forall_dec",
    "ClassicalDedekindReals.sig_not_dec",
    "FunctionalExtensionality.functional_extensionality_dep",
    "functional_extensionality_dep",
    "Classical_Prop.classic",
    "classic",
    "sig_forall_dec",
    "sig_not_dec",
    "Eqdep.Eq_rect_eq.eq_rect_eq",
    "JMeq.JMeq_eq",
    "ProofIrrelevance.proof_irrelevance",
    "proof_irrelevance",
}


def coq_files():
    fs = []
    for root, _, names in os.walk(TH):
        for n in names:
            if n.endswith(".v"):
                fs.append(os.path.relpath(os.path.join(root, n), COQ))
    return sorted(fs)


def coq_project():
    """Regenerate _CoqProject/Makefile when the set of .v files changed."""
    files = coq_files()
    proj = "-Q theories RV\n-arg -w -arg -notation-overridden,-deprecated-hint-without-locality,-deprecated-instance-without-locality\n" + "\n".join(files) + "\n"
    pp = os.path.join(COQ, "_CoqProject")
    old = open(pp).read() if os.path.exists(pp) else ""
    if old != proj or not os.path.exists(os.path.join(COQ, "Makefile")):
        open(pp, "w").write(proj)
        subprocess.run(["coq_makefile", "-f", "_CoqProject", "-o", "Makefile"],
                       cwd=COQ, check=True, capture_output=True)


def coq_make(targets, timeout=1800, force=()):
    """make the given .vo targets (paths relative to coq/).  `force` targets
    are removed first so their output (Print Assumptions) is produced again.
    Returns (ok, log)."""
    with Lock("coq"):
        coq_project()
        for t in force:
            for ext in (".vo", ".glob", ".vos", ".vok"):
                p = os.path.join(COQ, t[:-3] + ext) if t.endswith(".vo") else None
                if p and os.path.exists(p):
                    os.remove(p)
        try:
            p = subprocess.run(["make", "-j%d" % NCPU, "-k"] + list(targets), cwd=COQ,
                               capture_output=True, text=True, timeout=timeout)
            return p.returncode == 0, p.stdout + "\n" + p.stderr
        except subprocess.TimeoutExpired as e:
            return False, "TIMEOUT in make\n" + str(e.stdout)[-2000:]


def parse_assumptions(makelog):
    """Extract axiom names printed by `Print Assumptions` in a make log."""
    axioms = set()
    closed = 0
    lines = makelog.split("\n")
    i = 0
    while i < len(lines):
        l = lines[i]
        if l.startswith("Closed under the global context"):
            closed += 1
        if l.startswith("Axioms:"):
            i += 1
            while i < len(lines) and lines[i] and not lines[i].startswith(("COQC", "make", "Closed", "Axioms:", "File ")):
                m = re.match(r"^([A-Za-z_][\w.']*)\s*(:|$)", lines[i])
                if m and not lines[i].startswith(" "):
                    axioms.add(m.group(1))
                i += 1
            continue
        i += 1
    return axioms, closed


def audit_sources():
    """grep the development for forbidden vernacular."""
    bad = []
    for f in coq_files():
        txt = open(os.path.join(COQ, f)).read()
        for n, line in enumerate(txt.split("\n"), 1):
            if FORBIDDEN.search(line):
                bad.append(f"{f}:{n}: {line.strip()[:120]}")
    return bad


def first_coq_error(makelog):
    """Return (file, line, message) of the first Coq error in a make log."""
    m = re.search(r'File "([^"]+)", line (\d+), characters [\d-]+:\s*\n(Error:[^\n]*(?:\n[^\n]+){0,6})', makelog)
    if m:
        return m.group(1), int(m.group(2)), m.group(3)
    m = re.search(r"(Error:[^\n]*(?:\n[^\n]+){0,4})", makelog)
    if m:
        return None, 0, m.group(1)
    return None, 0, makelog[-800:]


def enclosing_statement(vfile, line):
    """Name of the Theorem/Lemma/Definition enclosing `line` of a .v file."""
    try:
        path = vfile if os.path.isabs(vfile) else os.path.join(COQ, vfile.lstrip("./"))
        ls = open(path).read().split("\n")
    except OSError:
        return None
    for i in range(min(line, len(ls)) - 1, -1, -1):
        m = re.match(r"\s*(Theorem|Lemma|Corollary|Example|Definition|Fixpoint|Fact|Remark|Instance|Check)\s+([\w']+)", ls[i])
        if m:
            return m.group(2)
    return None


# -- terms -------------------------------------------------------------------

def cz(n):
    return f"({int(n)})%Z"


def cn(n):
    return f"{int(n)}%N"


def cbool(b):
    return "true" if b else "false"


def clist(xs):
    return "[" + "; ".join(xs) + "]"


def cbytes(b):
    """bytes / str -> Coq `list N` of bytes (utf-8)."""
    if isinstance(b, str):
        b = b.encode("utf-8")
    return "[" + ";".join(str(x) for x in b) + "]%N"


def ccps(s):
    """str -> Coq `list N` of code points."""
    return "[" + ";".join(str(ord(c)) for c in s) + "]%N"


def cstring(s):
    """python str (ASCII printable) -> Coq string literal."""
    assert all(32 <= ord(c) < 127 for c in s), s
    return '"' + s.replace('"', '""') + '"%string'


def copt(x):
    return "None" if x is None else f"(Some {x})"


_TOK = re.compile(r"\[|\]|;|-?\d+|\(|\)|%[A-Za-z]+|,|true|false")


def parse_coq_value(txt):
    """Parse the value printed by `Eval vm_compute` for nested lists / tuples of
    numbers and booleans into python lists/ints/bools."""
    toks = [t for t in _TOK.findall(txt) if not t.startswith("%")]
    pos = 0

    def val():
        nonlocal pos
        t = toks[pos]
        if t == "[":
            pos += 1
            items = []
            while toks[pos] != "]":
                items.append(val())
                if toks[pos] == ";":
                    pos += 1
            pos += 1
            return items
        if t == "(":
            pos += 1
            items = [val()]
            while toks[pos] == ",":
                pos += 1
                items.append(val())
            assert toks[pos] == ")", toks[pos:pos + 5]
            pos += 1
            return items[0] if len(items) == 1 else tuple(items)
        pos += 1
        if t == "true":
            return True
        if t == "false":
            return False
        return int(t)

    return val()


def coq_eval(prop, header, terms, run_expr, shard=400, timeout=1200):
    """Evaluate `run_expr` (a Coq function) on every term with vm_compute,
    sharded over parallel coqc processes.  Returns (ok, results|log)."""
    cdir = os.path.join(WORK, "cases", prop)
    shutil.rmtree(cdir, ignore_errors=True)
    os.makedirs(cdir)
    shards = [terms[i:i + shard] for i in range(0, len(terms), shard)]
    # keep all cores busy
    if len(shards) < NCPU and len(terms) >= 2 * NCPU:
        size = (len(terms) + NCPU - 1) // NCPU
        shards = [terms[i:i + size] for i in range(0, len(terms), size)]
    files = []
    for k, sh in enumerate(shards):
        fn = os.path.join(cdir, f"cases_{k}.v")
        with open(fn, "w") as f:
            f.write(header + "\n")
            f.write("Definition cases := \n  " + clist(["\n   " + t for t in sh]) + ".\n")
            f.write(f"Eval vm_compute in (List.map ({run_expr}) cases).\n")
        files.append(fn)

    def one(fn):
        try:
            p = subprocess.run(["coqc", "-noglob", "-w", "-notation-overridden,-deprecated-hint-without-locality", "-Q", TH, "RV", fn],
                               capture_output=True, text=True, timeout=timeout, cwd=cdir)
            return p.returncode, p.stdout, p.stderr
        except subprocess.TimeoutExpired:
            return 124, "", "TIMEOUT"

    with ThreadPoolExecutor(max_workers=NCPU) as ex:
        rs = list(ex.map(one, files))
    results = []
    for (rc, so, se), sh, fn in zip(rs, shards, files):
        if rc != 0:
            return False, f"coqc failed on {fn}:\n{se[-3000:]}"
        m = re.search(r"=\s*(\[.*\])\s*:\s", so, re.S)
        if not m:
            return False, f"cannot parse coqc output of {fn}: {so[:500]}"
        vals = parse_coq_value(m.group(1))
        if len(vals) != len(sh):
            return False, f"result count mismatch in {fn}: {len(vals)} vs {len(sh)}"
        results.extend(vals)
    return True, results


def nbytes(lst):
    """list of ints -> bytes"""
    return bytes(lst)


# ---------------------------------------------------------------------------
# evidence / findings

def load_known():
    """Known findings are committed under known_findings/<property>.json
    ({"open": [...], "fixed": [...]}); never written at run time."""
    res = {"open": [], "fixed": []}
    for p in sorted(glob.glob(os.path.join(VERIF, "known_findings", "*.json"))):
        d = json.load(open(p))
        res["open"].extend(d.get("open", []))
        res["fixed"].extend(d.get("fixed", []))
    return res


def write_evidence(prop, tier, seed, coverage, wall, violations, assumptions, extra=None):
    os.makedirs(os.path.join(OUTDIR, "evidence"), exist_ok=True)
    ev = {
        "property_id": prop, "tier": tier, "seed": int(seed), "level": "proof",
        "coverage": coverage, "assumptions": assumptions,
        "wall_s": round(wall, 2), "violations": violations,
    }
    if extra:
        ev.update(extra)
    with open(os.path.join(OUTDIR, "evidence", prop + ".json"), "w") as f:
        json.dump(ev, f, indent=1, ensure_ascii=True, default=str)


def write_replay(prop, obj):
    os.makedirs(os.path.join(OUTDIR, "replays"), exist_ok=True)
    blob = json.dumps(obj, sort_keys=True, default=str)
    h = hashlib.sha256(blob.encode()).hexdigest()[:12]
    path = os.path.join("replays", f"{prop}-{h}.json")
    if ALT:
        path = os.path.join(OUTDIR, path)
    with open(os.path.join(VERIF, path), "w") as f:
        json.dump(obj, f, indent=1, default=str)
    return path
