"""The check driver (DESIGN.md 1.5): regenerate, prove, audit, build the
implementation, run cases on both sides, decide, write evidence."""
import importlib, json, os, sys, time, traceback
from common import *

sys.path.insert(0, os.path.join(VERIF, "gen"))
sys.path.insert(0, os.path.join(VERIF, "props"))


class Ctx:
    """What a property module gets to work with."""
    def __init__(self, prop, tier, seed):
        self.prop, self.tier, self.seed = prop, tier, seed
        self.rng = rng_for(prop, seed)
        self.notes = []


def evaluate_cases(mod, cases):
    """Run implementation and model on the cases; returns list of verdict dicts
    or raises RuntimeError(kind, message)."""
    reqs, spans = [], []
    for c in cases:
        rs = mod.impl_requests(c)
        spans.append((len(reqs), len(rs)))
        reqs.extend(rs)
    outs = run_impl(reqs, timeout_per_case=getattr(mod, "TIMEOUT_PER_CASE", 20.0))
    per_case = [outs[s:s + n] for s, n in spans]
    terms, idx = [], []
    for i, (c, io) in enumerate(zip(cases, per_case)):
        t = mod.coq_term(c, io)
        if t is not None:
            terms.append(t)
            idx.append(i)
    results = [None] * len(cases)
    if terms:
        ok, res = coq_eval(mod.ID, mod.COQ_HEADER, terms, mod.RUN_EXPR,
                           shard=getattr(mod, "SHARD", 400))
        if not ok:
            raise RuntimeError("model-eval", res)
        for i, r in zip(idx, res):
            results[i] = r
    verdicts = []
    for c, io, r in zip(cases, per_case, results):
        v = mod.judge(c, io, r)
        v["case"] = c
        v["impl"] = [(t, [f.decode("utf-8", "replace") for f in fs]) for t, fs in io]
        v["model"] = r
        verdicts.append(v)
    return verdicts


def shrink_case(mod, case, still_bad):
    """Greedy shrinking with the property's own `shrink` candidates."""
    if not hasattr(mod, "shrink"):
        return case
    cur = case
    for _ in range(30):
        cands = list(mod.shrink(cur))[:40]
        if not cands:
            break
        try:
            vs = evaluate_cases(mod, cands)
        except RuntimeError:
            break
        nxt = None
        for v in vs:
            if still_bad(v):
                nxt = v["case"]
                break
        if nxt is None:
            break
        cur = nxt
    return cur


def main(argv):
    prop = argv[1]
    mode = argv[2] if len(argv) > 2 else "quick"
    replay_file = None
    if mode == "--replay":
        replay_file = argv[3]
        tier = "quick"
    else:
        tier = mode if mode in ("quick", "thorough") else os.environ.get("VERIF_TIER", "quick")
    seed = int(os.environ.get("VERIF_SEED", "1") or 1)
    t0 = time.time()
    mod = importlib.import_module(prop)
    ctx = Ctx(prop, tier, seed)
    known = load_known()
    open_known = {k["class"]: k for k in known.get("open", []) if k["property"] == prop}

    phases = {}
    def mark(name, _t=[time.time()]):
        now = time.time(); phases[name] = round(now - _t[0], 1); _t[0] = now
    out_lines = []          # VIOLATION / KNOWN-FINDING lines
    broken = []             # (kind, name, message)
    import rs2v
    prepare_alt()
    rs2v.set_out(COQ)

    # 1. regenerate the T1 tables from /repo
    gen_errs = rs2v.generate(getattr(mod, "GEN", []))
    for n, e in gen_errs:
        broken.append(("broken-translation", f"Gen/{n}.v", e))

    mark('translate')
    # 2. prove (Run first: it only needs Model+Spec; then the property theorems)
    run_vo = f"theories/Run/{prop}.vo"
    props_vo = f"theories/Props/{prop}.vo"
    extra = [f"theories/{x}" for x in getattr(mod, "EXTRA_VO", [])]
    run_ok, run_log = coq_make([run_vo] + extra)
    if not run_ok:
        f, ln, msg = first_coq_error(run_log)
        broken.append(("broken-model", f"{f}:{ln}", msg))
    props_ok, props_log = coq_make([props_vo], force=[props_vo],
                                   timeout=getattr(mod, "PROOF_TIMEOUT", 1800))
    theorems = list(mod.THEOREMS)
    discharged = 0
    try:
        ptxt = open(os.path.join(COQ, f"theories/Props/{prop}.v")).read()
    except OSError:
        ptxt = ""
    for th in theorems:
        if not re.search(r"\b(Theorem|Lemma)\s+%s\b" % re.escape(th), ptxt) or \
           not re.search(r"Print Assumptions\s+%s\s*\." % re.escape(th), ptxt):
            broken.append(("broken-proof", th, f"theorem {th} or its Print Assumptions is missing from Props/{prop}.v"))
    axioms, closed = parse_assumptions(props_log)
    if props_ok:
        discharged = len(theorems)
    else:
        f, ln, msg = first_coq_error(props_log)
        name = enclosing_statement(f, ln) if f else None
        broken.append(("broken-proof", name or (f or "?"), f"{f}:{ln}: {msg}"))
        discharged = min(len(theorems), closed + (1 if axioms else 0))
        if discharged >= len(theorems):
            discharged = len(theorems) - 1

    mark('prove')
    # 3. audit
    bad = audit_sources()
    for b in bad:
        broken.append(("audit", "forbidden vernacular", b))
    notallowed = sorted(a for a in axioms if a not in AXIOM_ALLOW)
    for a in notallowed:
        broken.append(("audit", "axiom not on the allow-list", a))
    coqchk_note = None
    if tier == "thorough" and props_ok and getattr(mod, "COQCHK", True):
        try:
            p = subprocess.run(["coqchk", "-silent", "-o", "-Q", "theories", "RV", f"RV.Props.{prop}"],
                               cwd=COQ, capture_output=True, text=True, timeout=3000)
            coqchk_note = (p.stdout + p.stderr)[-1500:]
            if p.returncode != 0:
                broken.append(("audit", "coqchk", coqchk_note))
        except subprocess.TimeoutExpired:
            coqchk_note = "coqchk timed out (not counted)"

    mark('audit')
    # 4. implementation
    ok, msg = build_harness()
    if not ok:
        print(f"BUILD-FAILED: the harness does not build against /repo:\n{msg}")
        path = write_replay(prop, {"property": prop, "kind": "build-failed", "message": msg})
        print(f"VIOLATION property={prop} replay={path} no-failing-input-found")
        return 1
    if hasattr(mod, "prepare"):
        mod.prepare(ctx)

    mark('build-harness')
    # 5. cases
    if replay_file:
        rp = json.load(open(replay_file))
        cases = [rp["input"]] if "input" in rp and rp["input"] is not None else []
    else:
        cases = mod.gen_cases(ctx, tier)
        if broken and not replay_file and tier == "quick" and hasattr(mod, "search_cases"):
            cases = cases + mod.search_cases(ctx, broken)
    verdicts = []
    if run_ok and cases:
        try:
            verdicts = evaluate_cases(mod, cases)
        except RuntimeError as e:
            broken.append(("broken-model-eval", "Run." + prop, str(e.args[-1])[:3000]))
    elif not run_ok:
        pass

    mark('cases')
    # 6. decide
    failing = []      # property violated on the implementation, not a known class
    knownhits = {}
    corr_bad = []
    nontrivial = set()
    dist = {}
    for v in verdicts:
        key = v.get("key") or json.dumps(v["case"], sort_keys=True, default=str)
        if v.get("nontrivial", True):
            nontrivial.add(key)
        for tag in v.get("tags", []):
            dist[tag] = dist.get(tag, 0) + 1
        if v.get("corr") is False:
            corr_bad.append(v)
        for (clause, okc, kclass) in v.get("clauses", []):
            if okc:
                continue
            if kclass and kclass in open_known:
                knownhits.setdefault(kclass, v)
            else:
                failing.append((clause, v))
    try:
        with open(os.path.join(WORK, f"last_{prop}.json"), "w") as f:
            json.dump({"failing": [(cl, v.get("show") or v["case"], v["impl"], v["model"]) for cl, v in failing[:200]],
                       "corr_bad": [(v.get("show") or v["case"], v["impl"], v["model"]) for v in corr_bad[:200]]},
                      f, indent=1, default=str)
    except OSError:
        pass
    violations = 0
    reported = set()
    for clause, v in failing:
        if clause in reported:
            continue
        reported.add(clause)
        small = shrink_case(mod, v["case"],
                            lambda w: any((cl == clause and not okc and not (k and k in open_known))
                                          for cl, okc, k in w.get("clauses", [])))
        path = write_replay(prop, {
            "property": prop, "kind": "failing-input", "clause": clause, "input": small,
            "original_input": v["case"], "impl_output": v["impl"], "model_output": v["model"],
            "detail": v.get("detail"), "seed": seed,
            "broken": [list(b) for b in broken]})
        out_lines.append(f"VIOLATION property={prop} replay={path}")
        violations += 1
    if not failing:
        if corr_bad:
            v = corr_bad[0]
            small = shrink_case(mod, v["case"], lambda w: w.get("corr") is False)
            path = write_replay(prop, {
                "property": prop, "kind": "broken-correspondence", "input": small,
                "theorem_or_correspondence": f"correspondence Run.{prop}.run vs rsass",
                "impl_output": v["impl"], "model_output": v["model"], "detail": v.get("detail"),
                "disagreements": len(corr_bad), "seed": seed})
            out_lines.append(f"VIOLATION property={prop} replay={path} no-failing-input-found")
            violations += 1
        elif broken:
            kind, name, msg = broken[0]
            path = write_replay(prop, {
                "property": prop, "kind": kind, "theorem_or_correspondence": name,
                "message": msg, "all_broken": [list(b) for b in broken], "input": None, "seed": seed,
                "searched_cases": len(verdicts)})
            out_lines.append(f"VIOLATION property={prop} replay={path} no-failing-input-found")
            violations += 1
    for kclass, v in sorted(knownhits.items()):
        out_lines.append(f"KNOWN-FINDING: property={prop} {open_known[kclass]['what_fails']} "
                         f"[class {kclass}; e.g. {v.get('show') or v['case']}]")

    mark('decide')
    # 7. evidence
    samples = []
    for v in verdicts[:3] + verdicts[-2:]:
        samples.append({"input": v["case"], "impl": v["impl"], "model": v["model"],
                        "clauses": v.get("clauses")})
    tb = [
        "Coq 8.16.1 kernel + vm_compute (no native_compute)",
        "axioms reported by Print Assumptions: " + (", ".join(sorted(axioms)) if axioms else "none (closed under the global context)"),
        "translator gen/rs2v.py (tables: %s)" % ", ".join(getattr(mod, "GEN", []) or ["none"]),
        "correspondence harness /verif/harness (rsass public API) + kit/ case transport",
    ] + list(getattr(mod, "TRUSTED", []))
    coverage = {
        "obligations": len(theorems) + len(getattr(mod, "GEN", [])),
        "discharged": (discharged + len(getattr(mod, "GEN", [])) - len(gen_errs)) if True else 0,
        "checker_cmd": f"make -C coq {props_vo}  (coqc 8.16.1; rebuilt with Print Assumptions on this run)"
                       + ("; coqchk -o -silent RV.Props." + prop if coqchk_note else ""),
        "trusted_base": tb,
        "theorems": theorems,
        "evaluations": len(verdicts),
        "distinct_nontrivial": len(nontrivial),
        "rule": getattr(mod, "RULE", ""),
        "samples": samples or [{"note": "no cases ran", "broken": [list(b) for b in broken]}],
        "traces_validated_against_impl": sum(1 for v in verdicts if v.get("corr") is True),
        "correspondence_disagreements": len(corr_bad),
        "outside_model": sum(1 for v in verdicts if v.get("corr") is None),
        "distribution": dist,
        "known_findings_seen": sorted(knownhits),
        "broken": [list(b) for b in broken],
        "phase_seconds": phases,
        "exhaustive": bool(getattr(mod, "EXHAUSTIVE", {}).get(tier, False)),
    }
    if coqchk_note:
        coverage["coqchk"] = coqchk_note
    if not replay_file:
      write_evidence(prop, tier, seed, coverage, time.time() - t0, violations,
                     list(getattr(mod, "ASSUMPTIONS", [])) + ctx.notes)
    for l in out_lines:
        print(l)
    print(f"{prop} {tier}: theorems {discharged}/{len(theorems)} cases {len(verdicts)} "
          f"corr-disagree {len(corr_bad)} failing {len(failing)} known {sorted(knownhits)} "
          f"broken {[b[0] + ':' + str(b[1]) for b in broken]} wall {time.time()-t0:.1f}s")
    return 1 if violations else 0


if __name__ == "__main__":
    try:
        sys.exit(main(sys.argv))
    except SystemExit:
        raise
    except Exception:
        traceback.print_exc()
        sys.exit(2)
