"""Inputs embedded in the spec tests of /repo (rsass/tests/spec/**/*.rs):
the first string argument of `runner().ok(...)` / `.err(...)` calls.  Cached
per repo state under .work; shared by several property checks."""
import glob, hashlib, json, os, sys
sys.path.insert(0, os.path.join(os.path.dirname(os.path.abspath(__file__)), "..", "gen"))
from common import REPO, WORK
import rslex


def _extract(path):
    try:
        toks = rslex.tokenize(open(path, encoding="utf-8").read())
    except Exception:
        return []
    out = []
    n = len(toks)
    for i in range(n - 3):
        if toks[i].text == "." and toks[i + 1].text in ("ok", "err") and toks[i + 2].text == "(" and toks[i + 3].kind == "str":
            try:
                out.append((toks[i + 1].text, rslex.str_value(toks[i + 3])))
            except Exception:
                pass
    return out


def spec_inputs(standalone_only=True):
    """List of (kind, scss_text); kind is 'ok' or 'err' (what the spec expects
    of dart-sass, not necessarily what rsass does).  With standalone_only the
    inputs that load other files (@use of non-sass: urls, @import, @forward,
    load-css) are dropped."""
    files = sorted(glob.glob(os.path.join(REPO, "rsass/tests/spec/**/*.rs"), recursive=True))
    h = hashlib.sha256()
    for f in files:
        st = os.stat(f)
        h.update(f"{f}:{st.st_size}:{int(st.st_mtime)}".encode())
    cache = os.path.join(WORK, "corpus-" + h.hexdigest()[:12] + ".json")
    if os.path.exists(cache):
        items = json.load(open(cache))
    else:
        items = []
        for f in files:
            items.extend(_extract(f))
        seen = set()
        uniq = []
        for k, s in items:
            if s not in seen:
                seen.add(s)
                uniq.append((k, s))
        items = uniq
        json.dump(items, open(cache, "w"))
    if standalone_only:
        def loads(s):
            import re
            if re.search(r"@import|@forward|load-css", s):
                return True
            for m in re.finditer(r"@use\s+[\"']([^\"']*)[\"']", s):
                if not m.group(1).startswith("sass:"):
                    return True
            return False
        items = [(k, s) for k, s in items if not loads(s)]
    return [(k, s) for k, s in items]


if __name__ == "__main__":
    it = spec_inputs()
    print(len(it), "standalone inputs;", len(spec_inputs(False)), "total")
    print(it[0])
