#!/bin/sh
# usage: tools/seedconfirm.sh <patch.diff>  -- confirm that a seeded change compiles and passes the existing suite
patch=$(realpath "$1")
wt=/tmp/seedc_$$
git -C /repo worktree add -q --detach "$wt" HEAD || exit 2
( cd "$wt" && git apply "$patch" ) || { echo "PATCH DOES NOT APPLY"; git -C /repo worktree remove --force "$wt"; exit 2; }
( cd "$wt" && CARGO_TARGET_DIR=/tmp/seedc_target cargo test --workspace --no-fail-fast --offline 2>&1 | grep -E "^test result|FAILED|error(\[|:)" | sort | uniq -c | head -20 )
( cd "$wt" && CARGO_TARGET_DIR=/tmp/seedc_target cargo build --offline -q -p rsass-cli 2>&1 | tail -2; echo "cli: /tmp/seedc_target/debug/rsass (worktree $wt kept for the demo; remove with: git -C /repo worktree remove --force $wt)" )
