#!/usr/bin/env python3
"""Regenerate MANIFEST.json from the property modules in props/."""
import importlib, json, os, sys
V = os.path.dirname(os.path.dirname(os.path.abspath(__file__)))
sys.path.insert(0, os.path.join(V, "kit")); sys.path.insert(0, os.path.join(V, "props")); sys.path.insert(0, os.path.join(V, "gen"))
ids = [json.loads(l)["id"] for l in open(os.path.join(V, "properties.jsonl"))]
checks, na = [], []
NA_REASON = {}
nap = os.path.join(V, "tools", "not_applicable.json")
if os.path.exists(nap):
    NA_REASON = json.load(open(nap))
READY = set(open(os.path.join(V, "tools", "ready.txt")).read().split())
for pid in ids:
    if not os.path.exists(os.path.join(V, "props", pid + ".py")) or pid in NA_REASON or pid not in READY:
        na.append({"property_id": pid, "reason": NA_REASON.get(pid, "not claimed: the Coq model and check for this property have not been built yet in the time available (see DESIGN.md section 5 for the planned theorem)")})
        continue
    m = importlib.import_module(pid)
    checks.append({
        "property_id": pid,
        "quick_cmd": f"./check {pid} quick",
        "thorough_cmd": f"./check {pid} thorough",
        "evidence_file": f"evidence/{pid}.json",
        "replay_cmd_template": f"./check {pid} --replay {{path}}",
        "engine": "coq-proof+correspondence",
        "level_claimed": {"category": "proof", "text": m.LEVEL_TEXT, "design_ref": f"DESIGN.md#{pid}"},
        "level_note": m.LEVEL_NOTE,
        "technique": m.TECHNIQUE,
    })
man = {
    "version": 1,
    "setup_cmd": "./setup.sh",
    "hooks": {"guard": "kaj_rsass_verif", "enable": "none needed: every observation uses rsass's public API (RUSTFLAGS=\"--cfg kaj_rsass_verif\" is reserved)",
              "baseline_off_cmd": "cd /repo && cargo test --workspace --no-fail-fast --offline",
              "source_commits": [], "add_only": True},
    "engines": [{"name": "coq-proof+correspondence", "path": "check",
                 "serves_properties": [c["property_id"] for c in checks],
                 "kind_free_text": "Rocq/Coq 8.16 theorems about a Gallina model (coq/theories), tied to /repo on every run by a table translator (gen/rs2v.py) and a differential correspondence check (harness/ + kit/)"}],
    "checks": checks,
    "not_applicable": na,
    "notes": "Every check regenerates Gen/*.v from /repo, rebuilds the property's theorems with Print Assumptions, audits axioms, rebuilds the harness against /repo's working tree, and runs implementation and model on the same cases. See DESIGN.md.",
}
json.dump(man, open(os.path.join(V, "MANIFEST.json"), "w"), indent=1)
print(len(checks), "checks;", len(na), "not claimed")
