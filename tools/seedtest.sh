#!/bin/sh
# usage: tools/seedtest.sh <prop> <patch.diff> [tier]   -- run the property's check against a scratch worktree with the patch applied
# (never touches /repo's working tree; removes the worktree and its build output afterwards)
prop=$1; patch=$(realpath "$2"); tier=${3:-quick}
wt=/tmp/seed_${prop}_$$
git -C /repo worktree add -q --detach "$wt" HEAD || exit 2
( cd "$wt" && git apply "$patch" ) || { echo "PATCH DOES NOT APPLY"; git -C /repo worktree remove --force "$wt"; exit 2; }
cd "$(dirname "$0")/.."
VERIF_REPO="$wt" timeout 3000 ./check "$prop" "$tier" 2>&1 | grep -v '^KNOWN-FINDING' | cut -c1-400 | tail -8
rc=$?
h=$(python3 -c "import hashlib;print(hashlib.sha256('$wt'.encode()).hexdigest()[:10])")
rm -rf ".work/alt-$h"
git -C /repo worktree remove --force "$wt"
