#!/bin/sh
# usage: tools/integrate.sh C17 C22 ...  (after ./check passed): validate evidence, add to ready.txt, regenerate MANIFEST
cd "$(dirname "$0")/.." || exit 2
for p in "$@"; do
  python3-vt -c "
import json,jsonschema,sys
e=json.load(open('evidence/$p.json'))
jsonschema.validate(e, json.load(open('/root/.vp/EVIDENCE.schema.json')))
assert e['violations']==0, 'violations in evidence'
c=e['coverage']; assert c['obligations']==c['discharged'], (c['obligations'],c['discharged'])
print('$p evidence ok:', c['obligations'],'obligations', c['evaluations'],'cases', e['wall_s'],'s')
" || exit 1
  grep -qw "$p" tools/ready.txt || printf ' %s' "$p" >> tools/ready.txt
done
python3 tools/mkmanifest.py
python3-vt -c "
import json,jsonschema
jsonschema.validate(json.load(open('MANIFEST.json')), json.load(open('/root/.vp/MANIFEST.schema.json'))); print('manifest ok')"
