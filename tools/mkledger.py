#!/usr/bin/env python3
"""Write coq/theories/Model/PanicLedger.v: the classification of every panic
site of the PINNED tree (run once by hand after reviewing new sites; the check
never runs this).  Overrides in tools/ledger_overrides.json."""
import json, os, re, sys
V = os.path.dirname(os.path.dirname(os.path.abspath(__file__)))
src = open(os.path.join(V, "coq/theories/Gen/PanicSites.v")).read()
rows = re.findall(r'\("((?:[^"]|"")*)", "((?:[^"]|"")*)", "((?:[^"]|"")*)", "((?:[^"]|"")*)", (\d+)%N\)', src)
ov = json.load(open(os.path.join(V, "tools/ledger_overrides.json")))
def cls(r):
    for o in ov:
        if o["file"] == r[0] and o["fn"] == r[1] and o["kind"] == r[2] and o.get("contains", "") in r[3]:
            return o["class"], o["ref"]
    return "Unmodelled", ""
out = ["(* The panic-site ledger of the pinned tree: every potential panic site of Gen/PanicSites.v",
       "   (as generated from the pinned commit) with its classification.  Written by tools/mkledger.py,",
       "   reviewed by hand; a site of the CURRENT tree that is not listed here breaks C01_ledger_complete. *)",
       "From Coq Require Import String List NArith.", "Import ListNotations.", "Local Open Scope string_scope.", "",
       "Inductive site_class : Type :=",
       "| Proved (lemma : string)        (* the panicking branch is unreachable: lemma in Proofs/C01.v or Proofs/C01Sites.v *)",
       "| Reachable (finding : string)   (* a panic reachable within the property's bounds: known finding *)",
       "| Unmodelled.                    (* not modelled: covered by exploration only *)", "",
       "Definition ledger : list ((string * string * string * string * N) * site_class) :=", "  ["]
items = []
for r in rows:
    c, ref = cls(r)
    cterm = "Unmodelled" if c == "Unmodelled" else f'({c} "{ref}")'
    items.append(f'(("{r[0]}", "{r[1]}", "{r[2]}", "{r[3]}", {r[4]}%N), {cterm})')
out.append(";\n   ".join(items))
out.append("].")
open(os.path.join(V, "coq/theories/Model/PanicLedger.v"), "w").write("\n".join(out) + "\n")
print(len(rows), "sites;", sum(1 for r in rows if cls(r)[0] != "Unmodelled"), "classified beyond Unmodelled")
