#!/usr/bin/env python3
"""Print the brief for an independent sub-agent that seeds property-breaking changes (gets only the property text)."""
import json, sys
pid = sys.argv[1]
n = int(sys.argv[2]) if len(sys.argv) > 2 else 2
extra = sys.argv[3] if len(sys.argv) > 3 else ""
p = next(json.loads(l) for l in open('/verif/properties.jsonl') if json.loads(l)['id'] == pid)
print(f"""You are helping test a verification framework by producing realistic BUGGY variants of a Rust project. Work ONLY in the scratch git worktree /tmp/mut_{pid} (a checkout of the Sass compiler kaj/rsass; crates: rsass, rsass-cli, rsass-macros, spectest). Do NOT read or touch /verif or /repo. No network is available; build offline with a private target dir: `cd /tmp/mut_{pid} && CARGO_TARGET_DIR=/tmp/mut_{pid}_target cargo test --workspace --no-fail-fast --offline` (first build takes several minutes; the suite has 6809 passing tests and must stay green).

The property under test ("{p['title']}"):
"{p['statement']}"
It is quantified over: {p['quantifier']['text']}
Relevant code: {', '.join(p['anchors']['files'])}.
{extra}
rsass is an incomplete Sass implementation, so the unmodified code may already deviate from the property in places; that is fine - your changes must introduce NEW deviations that the unmodified code does not have.

Task: produce {n} different, independent changes to the rsass source, each of which (a) still compiles, (b) still passes the whole existing test suite (run it with the change applied!), and (c) breaks the property above in a way that needs something specific to manifest - a particular input shape, a boundary value, an unusual combination, a multi-step sequence, two cooperating sites that each look fine alone - NOT something ordinary use would expose at once and not something the existing tests catch. Make them look like plausible programmer mistakes, refactorings or "optimisations" (off-by-one, swapped operands in a rarely used branch, a lost case, a wrong constant, a dropped error propagation), not sabotage; no comments pointing at the bug.
For each change i in 1..{n} create /tmp/mut_{pid}_out/i/ containing: patch.diff (output of `git diff` for that change alone, applying cleanly to the pristine checkout with `git apply`), a demonstration (demo.scss plus expected_without.txt and observed_with.txt captured from the built CLI `CARGO_TARGET_DIR=/tmp/mut_{pid}_target cargo run -q -p rsass-cli -- demo.scss`, or a small script) that gives different results with and without the change, and meta.json {{"property":"{pid}","needs":"what specific input/condition is needed to manifest","what_you_ran":"commands"}}. Reset the worktree (`git checkout -- .`) between changes so each patch is independent. Confirm for each that the full test suite passes WITH the change applied. When finished remove /tmp/mut_{pid}_target (it is large) and list the changes in one paragraph each.""")
