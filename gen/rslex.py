"""A small Rust tokenizer and structural helpers for the translator (T1).
Comments and string contents never confuse brace matching because the source
is tokenized first; no regex is run over raw text."""
import re

TOKEN_RE = re.compile(r"""
    (?P<ws>\s+)
  | (?P<lcomment>//[^\n]*)
  | (?P<rawstr>b?r(?P<hashes>\#*)"(?:.|\n)*?"(?P=hashes))
  | (?P<str>b?"(?:[^"\\]|\\.|\\\n)*")
  | (?P<lifetime>'[A-Za-z_][A-Za-z0-9_]*(?!'))
  | (?P<char>b?'(?:[^'\\\n]|\\x[0-9a-fA-F]{2}|\\u\{[0-9a-fA-F_]+\}|\\.)')
  | (?P<float>\d[\d_]*\.\d[\d_]*(?:[eE][+-]?\d+)?(?:f32|f64)?|\d[\d_]*\.(?![\.A-Za-z_])|\d[\d_]*[eE][+-]?\d+(?:f32|f64)?|\d[\d_]*(?:f32|f64))
  | (?P<int>0x[0-9a-fA-F_]+|0b[01_]+|0o[0-7_]+|\d[\d_]*)(?P<isuf>[iu](?:8|16|32|64|128|size))?
  | (?P<ident>r\#[A-Za-z_][A-Za-z0-9_]*|[A-Za-z_][A-Za-z0-9_]*)
  | (?P<op>::|->|=>|==|!=|<=|>=|&&|\|\||\.\.=|\.\.\.|\.\.|<<=|>>=|\+=|-=|\*=|/=|%=|\^=|&=|\|=|<<|>>|[{}()\[\];,.:<>=+\-*/%!&|^~@#?$])
""", re.X)


class Tok:
    __slots__ = ("kind", "text", "line", "pos")

    def __init__(self, kind, text, line, pos):
        self.kind, self.text, self.line, self.pos = kind, text, line, pos

    def __repr__(self):
        return f"{self.kind}:{self.text!r}@{self.line}"


def tokenize(src):
    toks = []
    i = 0
    line = 1
    n = len(src)
    while i < n:
        if src.startswith("/*", i):
            depth = 1
            j = i + 2
            while j < n and depth:
                if src.startswith("/*", j):
                    depth += 1
                    j += 2
                elif src.startswith("*/", j):
                    depth -= 1
                    j += 2
                else:
                    j += 1
            line += src.count("\n", i, j)
            i = j
            continue
        m = TOKEN_RE.match(src, i)
        if not m:
            raise ValueError(f"cannot tokenize at line {line}: {src[i:i+30]!r}")
        kind = m.lastgroup
        text = m.group(0)
        if kind == "hashes" or kind == "isuf":
            kind = "rawstr" if m.group("rawstr") else "int"
        if m.group("int") is not None and m.group("float") is None and m.group("ident") is None:
            kind = "int"
        if kind not in ("ws", "lcomment"):
            toks.append(Tok(kind, text, line, len(toks)))
        line += text.count("\n")
        i = m.end()
    return toks


OPEN = {"{": "}", "(": ")", "[": "]"}


def match_close(toks, i):
    """toks[i] is an opener; return index of the matching closer."""
    depth = 0
    o = toks[i].text
    c = OPEN[o]
    for j in range(i, len(toks)):
        t = toks[j]
        if t.kind == "op":
            if t.text == o:
                depth += 1
            elif t.text == c:
                depth -= 1
                if depth == 0:
                    return j
    raise ValueError(f"unbalanced {o} at line {toks[i].line}")


def find_seq(toks, texts, start=0, end=None):
    """Index of the first occurrence of the token-text sequence."""
    end = len(toks) if end is None else end
    k = len(texts)
    for i in range(start, end - k + 1):
        if all(toks[i + j].text == texts[j] for j in range(k)):
            return i
    return -1


def find_all_seq(toks, texts, start=0, end=None):
    res = []
    i = start
    while True:
        i = find_seq(toks, texts, i, end)
        if i < 0:
            return res
        res.append(i)
        i += 1


def block_after(toks, i):
    """First `{` at or after i (not nested in parens): (open, close)."""
    j = i
    while j < len(toks):
        t = toks[j]
        if t.kind == "op" and t.text in "([":
            j = match_close(toks, j) + 1
            continue
        if t.kind == "op" and t.text == "{":
            return j, match_close(toks, j)
        if t.kind == "op" and t.text == ";":
            return None
        j += 1
    return None


def split_top(toks, lo, hi, sep=","):
    """Split toks[lo:hi] at top-level separators; returns list of (lo, hi)."""
    parts = []
    start = lo
    j = lo
    while j < hi:
        t = toks[j]
        if t.kind == "op" and t.text in OPEN:
            j = match_close(toks, j) + 1
            continue
        if t.kind == "op" and t.text == sep:
            parts.append((start, j))
            start = j + 1
        j += 1
    if start < hi:
        parts.append((start, hi))
    return parts


def match_arms(toks, lo, hi):
    """toks[lo:hi] is the inside of a match block.  Returns list of
    ((plo, phi), (blo, bhi)) pattern / body token ranges."""
    arms = []
    j = lo
    while j < hi:
        # pattern up to top-level =>
        ps = j
        while j < hi and not (toks[j].kind == "op" and toks[j].text == "=>"):
            if toks[j].kind == "op" and toks[j].text in OPEN:
                j = match_close(toks, j) + 1
            else:
                j += 1
        if j >= hi:
            break
        pe = j
        j += 1
        bs = j
        if toks[j].kind == "op" and toks[j].text == "{":
            be = match_close(toks, j) + 1
            j = be
            if j < hi and toks[j].text == ",":
                j += 1
        else:
            while j < hi and not (toks[j].kind == "op" and toks[j].text == ","):
                if toks[j].kind == "op" and toks[j].text in OPEN:
                    j = match_close(toks, j) + 1
                else:
                    j += 1
            be = j
            j += 1
        arms.append(((ps, pe), (bs, be)))
    return arms


def fn_body(toks, name, start=0, end=None):
    """(open, close) of the body of the first `fn name` in range."""
    i = find_seq(toks, ["fn", name], start, end)
    if i < 0:
        return None
    return block_after(toks, i)


def text_of(toks, lo, hi):
    return " ".join(t.text for t in toks[lo:hi])


def str_value(tok):
    """Value of a (non-raw) string literal token."""
    s = tok.text
    if s.startswith("b"):
        s = s[1:]
    if s.startswith("r"):
        h = len(s) - len(s.lstrip("r#")) - 1
        s2 = s[1:]
        hashes = len(s2) - len(s2.lstrip("#"))
        return s2[hashes + 1: len(s2) - hashes - 1]
    body = s[1:-1]
    out = []
    i = 0
    while i < len(body):
        c = body[i]
        if c == "\\":
            d = body[i + 1]
            if d == "n":
                out.append("\n"); i += 2
            elif d == "t":
                out.append("\t"); i += 2
            elif d == "r":
                out.append("\r"); i += 2
            elif d == "0":
                out.append("\0"); i += 2
            elif d == "x":
                out.append(chr(int(body[i + 2:i + 4], 16))); i += 4
            elif d == "u":
                j = body.index("}", i)
                out.append(chr(int(body[i + 3:j].replace("_", ""), 16))); i = j + 1
            elif d == "\n":
                i += 2
                while i < len(body) and body[i] in " \t\n\r":
                    i += 1
            else:
                out.append(d); i += 2
        else:
            out.append(c)
            i += 1
    return "".join(out)
