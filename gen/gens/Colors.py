"""Gen/Colors.v: the named-colour table of value/colors/rgba.rs (in source order,
which decides which of several names a value is printed as) and the
constants that the colour code compares against."""
from rs2v import *


def generate():
    src = "rsass/src/value/colors/rgba.rs"
    toks = toks_of(src)
    i = find_seq(toks, ["Lookup", "::", "from_slice", "("])
    need(i >= 0, "Lookup::from_slice(...) not found")
    j = i + 3
    close = match_close(toks, j)
    # &[ (name, value), ... ]
    k = j + 1
    while k < close and toks[k].text != "[":
        k += 1
    need(k < close, "colour slice not found")
    kend = match_close(toks, k)
    table = []
    for (a, b) in split_top(toks, k + 1, kend, ","):
        if b - a < 3 or toks[a].text != "(":
            continue
        inner_close = match_close(toks, a)
        parts = split_top(toks, a + 1, inner_close, ",")
        need(len(parts) == 2, f"unexpected table entry at line {toks[a].line}")
        n = toks[parts[0][0]]
        v = toks[parts[1][0]]
        need(n.kind == "str" and v.kind == "int", f"unexpected table entry at line {toks[a].line}")
        vt = v.text.replace("_", "")
        for suf in ("u32", "u64", "i32"):
            if vt.endswith(suf):
                vt = vt[: -len(suf)]
        table.append((str_value(n), int(vt, 16) if vt.startswith("0x") else int(vt)))
    need(len(table) >= 100, f"colour table too small ({len(table)})")
    # the v2n map keeps the FIRST name per value: anchor `or_insert`
    fs = find_seq(toks, ["v2n", ".", "entry", "(", "v", ")", ".", "or_insert", "(", "n", ")"])
    n2v = find_seq(toks, ["n2v", ".", "insert", "(", "n", ",", "v", ")"])
    first_wins = fs >= 0 and n2v >= 0
    # tolerance constants of try_bytes / cmp_chan / near_integer
    tb = fn_body(toks, "try_bytes")
    need(tb, "fn try_bytes not found")
    tol = [t.text for t in toks[tb[0]:tb[1]] if t.kind == "float"]
    cc = fn_body(toks, "cmp_chan")
    need(cc, "fn cmp_chan not found")
    tol2 = [t.text for t in toks[cc[0]:cc[1]] if t.kind == "float"]
    need(tol and tol2, "tolerance literals not found")
    body = "From Coq Require Import String List ZArith.\nImport ListNotations.\nLocal Open Scope string_scope.\n\n"
    body += "(* (name, 0xRRGGBB) in source order *)\nDefinition color_table : list (string * Z) :=\n  [" + ";\n   ".join(
        f"({qs(n)}, {v}%Z)" for n, v in table) + "].\n\n"
    body += "(* name -> value keeps the last insert, value -> name the first (`or_insert`) *)\n"
    body += f"Definition lookup_first_name_wins : bool := {'true' if first_wins else 'false'}.\n\n"
    body += f"(* f64 bit patterns of the tolerance literal in try_bytes ({tol[0]}) and cmp_chan ({tol2[0]}) *)\n"
    body += f"Definition try_bytes_tol_bits : Z := {f64_bits(tol[0])}%Z.\nDefinition cmp_chan_tol_bits : Z := {f64_bits(tol2[0])}%Z.\n"
    return emit("Colors", src, body)
