"""Gen/PanicSites.v: inventory of potential panic sites in non-test code of
rsass/src: .unwrap() / .expect( / panic-family macros / asserts / index and
slice expressions / integer arithmetic next to usize,i64,i8,u8 conversions.
Key = (file, enclosing fn, kind, normalised statement text, ordinal)."""
import glob, os
from rs2v import *

MACROS = {"panic", "unreachable", "todo", "unimplemented", "assert", "assert_eq", "assert_ne"}
ALL_ARITH = {"rsass/src/value/range.rs", "rsass/src/output/format.rs", "rsass/src/css/comment.rs",
             "rsass/src/sass/functions/string.rs", "rsass/src/output/cssbuf.rs",
             "rsass/src/input/sourcepos.rs", "rsass/src/parser/span.rs", "rsass/src/error.rs",
             "rsass/src/parser/error.rs", "rsass/src/sass/functions/list.rs"}
INTWORDS = {"usize", "i64", "i8", "u8", "isize", "u32", "i32", "u64", "len", "unsigned_abs", "count"}


def skip_tests(toks):
    """Return a boolean mask: True for tokens inside test-only items."""
    n = len(toks)
    mask = [False] * n
    i = 0
    while i < n:
        if toks[i].text == "#" and i + 1 < n and toks[i + 1].text == "[":
            j = match_close(toks, i + 1)
            inner = [t.text for t in toks[i + 2:j]]
            is_test = ("test" in inner and ("cfg" in inner or inner == ["test"])) and "not" not in inner
            if is_test:
                # skip following attributes, then the item
                k = j + 1
                while k < n and toks[k].text == "#":
                    k = match_close(toks, k + 1) + 1
                # item ends at matching brace of first top-level `{` or at `;`
                m = k
                while m < n:
                    if toks[m].text in ("(", "["):
                        m = match_close(toks, m) + 1
                        continue
                    if toks[m].text == "{":
                        m = match_close(toks, m)
                        break
                    if toks[m].text == ";":
                        break
                    m += 1
                for x in range(i, min(m + 1, n)):
                    mask[x] = True
                i = m + 1
                continue
            i = j + 1
            continue
        i += 1
    return mask


def sites_of_file(rel):
    toks = toks_of(rel)
    mask = skip_tests(toks)
    n = len(toks)
    # enclosing fn for each token
    fn_of = [""] * n
    i = 0
    stack = []
    while i < n:
        if toks[i].text == "fn" and i + 1 < n and toks[i + 1].kind == "ident":
            b = block_after(toks, i)
            if b:
                for x in range(b[0], b[1] + 1):
                    fn_of[x] = toks[i + 1].text
        i += 1
    # statement text per source line (normalised)
    by_line = {}
    for t in toks:
        by_line.setdefault(t.line, []).append(t.text)
    sites = []
    for i, t in enumerate(toks):
        if mask[i] or not fn_of[i]:
            continue
        kind = None
        if t.text == "." and i + 2 < n and toks[i + 1].text in ("unwrap", "expect") and toks[i + 2].text == "(":
            kind = toks[i + 1].text
        elif t.kind == "ident" and t.text in MACROS and i + 1 < n and toks[i + 1].text == "!":
            kind = "macro_" + t.text
        elif t.text == "[" and i > 0 and (toks[i - 1].kind == "ident" or toks[i - 1].text in (")", "]")) \
                and toks[i - 1].text not in ("mut", "in", "return", "let", "as", "vec", "matches", "if", "else", "match", "ref", "dyn", "impl", "for"):
            # skip macro brackets `vec![`, attribute brackets and types `&[T]`
            if not (i > 1 and toks[i - 1].text == "!"):
                kind = "index"
        elif t.kind == "op" and t.text in ("+", "-", "*", "+=", "-=", "*=") :
            line_words = set(by_line.get(t.line, []))
            if (rel in ALL_ARITH) or (line_words & INTWORDS and not (line_words & {"f64", "f32"})):
                # binary use only (previous token is an operand)
                if i > 0 and (toks[i - 1].kind in ("ident", "int") or toks[i - 1].text in (")", "]")):
                    kind = "intarith"
        if kind:
            sites.append((rel, fn_of[i], kind, " ".join(by_line[t.line])[:160]))
    return sites


def generate():
    files = sorted(glob.glob(os.path.join(REPO, "rsass/src/**/*.rs"), recursive=True))
    need(len(files) > 50, "rsass/src not found")
    allsites = []
    for f in files:
        rel = os.path.relpath(f, REPO)
        if rel.endswith("testutil.rs"):
            continue
        allsites.extend(sites_of_file(rel))
    counts = {}
    rows = []
    for s in allsites:
        counts[s] = counts.get(s, 0) + 1
        rows.append(s + (counts[s],))
    def q(s):
        return qs("".join(c if 32 <= ord(c) < 127 else "?" for c in s))
    body = "From Coq Require Import String List NArith.\nImport ListNotations.\nLocal Open Scope string_scope.\n\n"
    body += "(* (file, enclosing fn, kind, normalised line, ordinal) *)\n"
    body += "Definition panic_sites : list (string * string * string * string * N) :=\n  ["
    body += ";\n   ".join(f"({q(a)}, {q(b)}, {q(c)}, {q(d)}, {k}%N)" for a, b, c, d, k in rows)
    body += "].\n\n"
    # Format::get_indent: the static INDENT string and the shape of the slice
    ft = toks_of("rsass/src/output/format.rs")
    b = fn_body(ft, "get_indent")
    need(b, "fn get_indent not found")
    strs = [t for t in ft[b[0]:b[1]] if t.kind == "str"]
    need(strs, "INDENT literal not found")
    indent = str_value(strs[0])
    shape = text_of(ft, b[0], b[1] + 1)
    k = shape.find("if self . is_compressed ( )")
    need(k >= 0, "get_indent: compressed test not found")
    shape_ok = shape[k:] == 'if self . is_compressed ( ) { "" } else { & INDENT [ ..= len . min ( INDENT . len ( ) - 1 ) ] } }'
    body += "(* Format::get_indent: byte length of the static INDENT string, whether it is newline + spaces,\n   and whether the body still is `if compressed {\"\"} else {&INDENT[..=len]}` *)\n"
    body += f"Definition indent_static_len : N := {len(indent.encode())}%N.\n"
    body += f"Definition indent_is_nl_spaces : bool := {'true' if indent[:1] == chr(10) and set(indent[1:]) <= {' '} else 'false'}.\n"
    body += f"Definition get_indent_shape_ok : bool := {'true' if shape_ok else 'false'}.\n"
    return emit("PanicSites", "rsass/src/**/*.rs (non-test code)", body)
