"""Gen/Entry.v: the bodies of the library entry points (rsass/src/lib.rs: compile_value, compile_scss,
compile_scss_path; input/context.rs: FsContext::for_path, push_path) and of the command line tool
(rsass-cli/src/main.rs: main, Args::run, From<StyleArg> for Style, clap defaults) as small call-tree terms.
A construct outside the tiny expression/statement grammar below is a GenError."""
from rs2v import *


class P:
    """recursive descent over a token range"""

    def __init__(self, toks, lo, hi, what):
        self.t, self.i, self.hi, self.what = toks, lo, hi, what

    def peek(self, k=0):
        return self.t[self.i + k].text if self.i + k < self.hi else None

    def kind(self, k=0):
        return self.t[self.i + k].kind if self.i + k < self.hi else None

    def eat(self, text):
        need(self.peek() == text, f"{self.what}: expected `{text}` at line {self.t[min(self.i, self.hi - 1)].line}, found `{self.peek()}`")
        self.i += 1

    def fail(self, msg):
        raise GenError(f"{self.what}: {msg} at line {self.t[min(self.i, self.hi - 1)].line} (`{self.peek()}`)")

    # ---- expressions -> Coq text
    def args(self):
        self.eat("(")
        out = []
        while self.peek() != ")":
            out.append(self.expr())
            if self.peek() == ",":
                self.i += 1
        self.eat(")")
        return "[" + "; ".join(out) + "]"

    def path(self):
        need(self.kind() == "ident", f"{self.what}: identifier expected at line {self.t[self.i].line}")
        segs = [self.peek()]
        self.i += 1
        while self.peek() == "::" and self.kind(1) == "ident":
            segs.append(self.peek(1))
            self.i += 2
        return segs

    def primary(self):
        if self.kind() == "str":
            s = str_value(self.t[self.i])
            self.i += 1
            return f"(RStr {qs(s)})"
        if self.peek() == "(":
            if self.peek(1) == ")":
                self.i += 2
                return "RUnit"
            self.i += 1
            items = [self.expr()]
            while self.peek() == ",":
                self.i += 1
                if self.peek() == ")":
                    break
                items.append(self.expr())
            self.eat(")")
            return items[0] if len(items) == 1 else "(RTuple [" + "; ".join(items) + "])"
        if self.kind() == "ident":
            segs = self.path()
            name = "::".join(segs[-2:]) if len(segs) > 1 else segs[0]
            if self.peek() == "!":          # macro call
                self.i += 1
                return f"(RCall {qs(name + '!')} {self.args()})"
            if self.peek() == "(":
                return f"(RCall {qs(name)} {self.args()})"
            if self.peek() == "{" and segs[-1][0].isupper() and self.kind(1) == "ident" and self.peek(2) == ":":
                self.i += 1
                fields = []
                while self.peek() != "}":
                    fname = self.peek()
                    self.i += 1
                    self.eat(":")
                    fields.append(f"({qs(fname)}, {self.expr()})")
                    if self.peek() == ",":
                        self.i += 1
                self.eat("}")
                return f"(RStruct {qs(name)} [" + "; ".join(fields) + "])"
            if len(segs) > 1:
                return f"(RConst {qs(name)})"
            return f"(RVar {qs(name)})"
        self.fail("unsupported expression")

    def expr(self):
        if self.peek() == "&":
            self.i += 1
            if self.peek() == "mut":
                self.i += 1
            return f"(RRef {self.expr()})"
        e = self.primary()
        while True:
            if self.peek() == "?":
                self.i += 1
                e = f"(RTry {e})"
            elif self.peek() == "." and self.kind(1) == "ident":
                m = self.peek(1)
                self.i += 2
                if self.peek() == "(":
                    e = f"(RMeth {e} {qs(m)} {self.args()})"
                else:
                    e = f"(RField {e} {qs(m)})"
            else:
                return e

    # ---- statements
    def pattern(self):
        if self.peek() == "(":
            self.i += 1
            names = []
            while self.peek() != ")":
                if self.peek() == "mut":
                    self.i += 1
                need(self.kind() == "ident", f"{self.what}: unsupported pattern")
                names.append(self.peek())
                self.i += 1
                if self.peek() == ",":
                    self.i += 1
            self.eat(")")
            return names
        if self.peek() == "mut":
            self.i += 1
        need(self.kind() == "ident", f"{self.what}: unsupported pattern")
        n = self.peek()
        self.i += 1
        return [n]

    def block(self):
        """{ stmt* [expr] } -> (stmts text, tail text)"""
        self.eat("{")
        stmts = []
        tail = "None"
        while self.peek() != "}":
            if self.peek() == "let":
                self.i += 1
                pat = self.pattern()
                if self.peek() == ":":
                    self.fail("type annotations are not supported")
                self.eat("=")
                e = self.expr()
                self.eat(";")
                stmts.append(f"SLet [{'; '.join(qs(x) for x in pat)}] {e}")
            elif self.peek() == "for":
                self.i += 1
                x = self.peek()
                self.i += 1
                self.eat("in")
                it = self.expr()
                b, t = self.block()
                need(t == "None", f"{self.what}: loop body with a value")
                stmts.append(f"SFor {qs(x)} {it} {b}")
            elif self.peek() == "if":
                need(self.peek(1) == "let" and self.peek(2) == "Some" and self.peek(3) == "(" and self.peek(5) == ")" and self.peek(6) == "=",
                     f"{self.what}: only `if let Some(x) = e` is supported")
                x = self.peek(4)
                self.i += 7
                e = self.expr()
                b, t = self.block()
                need(t == "None" and self.peek() != "else", f"{self.what}: unsupported if-let form")
                stmts.append(f"SIfLetSome {qs(x)} {e} {b}")
            else:
                e = self.expr()
                if self.peek() == ";":
                    self.i += 1
                    stmts.append(f"SExpr {e}")
                else:
                    need(self.peek() == "}", f"{self.what}: unsupported statement at line {self.t[self.i].line}")
                    tail = f"(Some {e})"
        self.eat("}")
        return "[" + "; ".join("(" + s + ")" if not s.startswith("(") else s for s in stmts) + "]", tail


def _fn(toks, name, what, start=0, end=None):
    i = find_seq(toks, ["fn", name, "("], start, end)
    need(i >= 0, f"fn {name} not found in {what}")
    pclose = match_close(toks, i + 2)
    params = []
    for (lo, hi) in split_top(toks, i + 3, pclose, ","):
        j = lo
        while toks[j].text in ("&", "mut"):
            j += 1
        params.append(toks[j].text)
    selfmut = text_of(toks, i + 3, i + 6) == "& mut self"
    b = block_after(toks, pclose)
    need(b, f"fn {name} has no body")
    return params, b, selfmut


def _body(toks, name, what, start=0, end=None):
    params, b, _ = _fn(toks, name, what, start, end)
    p = P(toks, b[0], b[1] + 1, f"{what}::{name}")
    stmts, tail = p.block()
    return params, f"({stmts}, {tail})"


def generate():
    lib = "rsass/src/lib.rs"
    lt = toks_of(lib)
    ctxf = "rsass/src/input/context.rs"
    ct = toks_of(ctxf)
    cli = "rsass-cli/src/main.rs"
    mt = toks_of(cli)
    defs = []
    for name in ("compile_value", "compile_scss", "compile_scss_path"):
        params, body = _body(lt, name, lib)
        defs.append((name, params, body))
    # impl FsContext { for_cwd, for_path, push_path }
    i = find_seq(ct, ["impl", "FsContext", "{"])
    need(i >= 0, "impl FsContext not found")
    iend = match_close(ct, i + 2)
    params, body = _body(ct, "for_path", ctxf, i, iend)
    defs.append(("fscontext_for_path", params, body))
    _, _, pp_mut = _fn(ct, "push_path", ctxf, i, iend)
    params, body = _body(ct, "push_path", ctxf, i, iend)
    defs.append(("fscontext_push_path", params, body))
    # cli
    i = find_seq(mt, ["impl", "Args", "{"])
    need(i >= 0, "impl Args not found in the cli")
    iend = match_close(mt, i + 2)
    params, body = _body(mt, "run", cli, i, iend)
    defs.append(("cli_run", params, body))
    # main: match SCRUT { PAT => BODY, .. }
    _, mb, _ = _fn(mt, "main", cli)
    need(mt[mb[0] + 1].text == "match", "cli main is not a single match")
    blk = block_after(mt, mb[0] + 2)
    need(blk and blk[1] + 1 == mb[1], "cli main is not a single match")
    scrut = P(mt, mb[0] + 2, blk[0], cli + "::main").expr()
    arms = []
    for (plo, phi), (blo, bhi) in match_arms(mt, blk[0] + 1, blk[1]):
        pat = text_of(mt, plo, phi)
        if mt[blo].text == "{":
            st, tl = P(mt, blo, bhi, cli + "::main").block()
        else:
            st, tl = "[]", f"(Some {P(mt, blo, bhi, cli + '::main').expr()})"
        arms.append(f"({qs(pat)}, ({st}, {tl}))")
    # From<StyleArg> for Style
    i = find_seq(mt, ["impl", "From", "<", "StyleArg", ">", "for", "Style"])
    need(i >= 0, "From<StyleArg> for Style not found")
    sblk = block_after(mt, i)
    style_map = []
    for names, (blo, bhi) in simple_match_table(mt, "from", sblk[0], sblk[1]):
        ids = [t.text for t in mt[blo:bhi] if t.kind == "ident"]
        need(len(ids) == 2 and ids[0] == "Style", "unexpected arm in From<StyleArg>")
        for n in names:
            style_map.append((n, ids[1]))
    # clap attributes of the Args fields: #[arg(..)] precision / style / load_path / input
    si = find_seq(mt, ["struct", "Args", "{"])
    need(si >= 0, "struct Args not found")
    send = match_close(mt, si + 2)
    fields = []
    j = si + 3
    attrs = []
    while j < send:
        if mt[j].text == "#":
            c = match_close(mt, j + 1)
            attrs.append(text_of(mt, j + 2, c))
            j = c + 1
            continue
        if mt[j].kind == "ident" and mt[j + 1].text == ":":
            k = j + 2
            depth = 0
            while k < send and not (mt[k].text == "," and depth == 0):
                if mt[k].text == "<":
                    depth += 1
                elif mt[k].text == ">":
                    depth -= 1
                elif mt[k].text == ">>":
                    depth -= 2
                k += 1
            ty = text_of(mt, j + 2, k)
            cfg = any(a.startswith("cfg (") for a in attrs)
            arg = " ".join(a for a in attrs if a.startswith("arg ("))
            if not cfg:
                fields.append((mt[j].text, ty, arg))
            attrs = []
            j = k + 1
            continue
        j += 1

    body = "From Coq Require Import String List.\nImport ListNotations.\nLocal Open Scope string_scope.\n\n"
    body += ("Inductive rexpr : Type :=\n| RVar (x : string) | RConst (path : string) | RStr (s : string) | RUnit\n"
             "| RField (e : rexpr) (f : string)\n| RCall (f : string) (args : list rexpr)\n"
             "| RMeth (recv : rexpr) (m : string) (args : list rexpr)\n| RTry (e : rexpr) | RRef (e : rexpr)\n"
             "| RTuple (l : list rexpr)\n| RStruct (name : string) (fields : list (string * rexpr)).\n\n"
             "Inductive rstmt : Type :=\n| SLet (pat : list string) (e : rexpr)\n| SExpr (e : rexpr)\n"
             "| SFor (x : string) (iter : rexpr) (body : list rstmt)\n| SIfLetSome (x : string) (e : rexpr) (body : list rstmt).\n\n"
             "Definition rbody : Type := (list rstmt * option rexpr)%type.\n\n")
    for name, params, b in defs:
        body += f"Definition {name}_params : list string := [{'; '.join(qs(p) for p in params)}].\n"
        body += f"Definition {name}_body : rbody :=\n  {b}.\n\n"
    body += f"Definition push_path_takes_mut_self : bool := {'true' if pp_mut else 'false'}.\n\n"
    body += f"Definition cli_main_scrutinee : rexpr := {scrut}.\n"
    body += "Definition cli_main_arms : list (string * rbody) :=\n  [" + ";\n   ".join(arms) + "].\n\n"
    body += "Definition cli_style_map : list (string * string) := [" + "; ".join(f"({qs(a)}, {qs(b)})" for a, b in style_map) + "].\n\n"
    body += "(* fields of the clap `struct Args` that are compiled in by default: (name, type, #[arg(..)] text) *)\n"
    body += "Definition cli_args : list (string * (string * string)) :=\n  [" + \
            ";\n   ".join(f"({qs(n)}, ({qs(t)}, {qs(a)}))" for n, t, a in fields) + "].\n"
    return emit("Entry", ", ".join([lib, ctxf, cli]), body)
