"""Gen/SiteShapes.v: the normalised token text of the functions / def! closures whose panic sites are
modelled in coq/theories/Model/PanicSitesModels.v.  The model file carries the text it was written
against; Proofs/C01Sites.v proves the two equal, so any edit of such a function re-opens its site lemmas."""
from rs2v import *

# (key, file, "fn" name | ("def", closure name))
TARGETS = [
    ("list::index_of", "rsass/src/sass/functions/list.rs", "index_of"),
    ("list::index", "rsass/src/sass/functions/list.rs", ("def", "index")),
    ("list::nth", "rsass/src/sass/functions/list.rs", ("def", "nth")),
    ("list::set_nth", "rsass/src/sass/functions/list.rs", ("def", "set_nth")),
    ("list::zip", "rsass/src/sass/functions/list.rs", ("def", "zip")),
    ("string::index", "rsass/src/sass/functions/string.rs", ("def", "index")),
    ("string::insert", "rsass/src/sass/functions/string.rs", ("def", "insert")),
    ("string::slice", "rsass/src/sass/functions/string.rs", ("def", "slice")),
    ("map::do_deep_remove", "rsass/src/sass/functions/map.rs", "do_deep_remove"),
    ("selectorset::is_root", "rsass/src/css/selectors/selectorset.rs", "is_root"),
    ("color::relative_color", "rsass/src/sass/functions/color/mod.rs", "relative_color"),
    ("scope::define_multi", "rsass/src/variablescope.rs", "define_multi"),
    ("sass_string::single_raw", "rsass/src/sass/string.rs", "single_raw"),
    ("channels::conv", "rsass/src/sass/functions/color/channels.rs", "conv"),
    ("cssbuf::do_indent_no_nl", "rsass/src/output/cssbuf.rs", "do_indent_no_nl"),
    ("css_call_args::len", "rsass/src/css/call_args.rs", "len"),
    ("sourcepos::opt_back", "rsass/src/input/sourcepos.rs", "opt_back"),
]


def _def_text(toks, fname, src):
    for i in find_all_seq(toks, ["!", "("]):
        if toks[i - 1].text not in ("def", "def_va"):
            continue
        close = match_close(toks, i + 1)
        parts = split_top(toks, i + 2, close, ",")
        if len(parts) >= 3 and toks[parts[1][0]].text == fname and toks[parts[1][0] + 1].text == "(":
            return text_of(toks, parts[1][0], close)
    raise GenError(f"{src}: def!(.., {fname}(..), ..) not found")


def texts():
    out = []
    for key, rel, what in TARGETS:
        toks = toks_of(rel)
        if isinstance(what, tuple):
            out.append((key, _def_text(toks, what[1], rel)))
        else:
            i = find_seq(toks, ["fn", what, "("])
            need(i >= 0, f"fn {what} not found in {rel}")
            b = block_after(toks, match_close(toks, i + 2))
            need(b, f"fn {what} in {rel} has no body")
            out.append((key, text_of(toks, i, b[1] + 1)))
    return out


def generate():
    body = "From Coq Require Import String List.\nImport ListNotations.\nLocal Open Scope string_scope.\n\n"
    body += "Definition site_fn_text : list (string * string) :=\n  [" + \
            ";\n   ".join(f"({qs(k)},\n    {qs(t)})" for k, t in texts()) + "].\n"
    return emit("SiteShapes", ", ".join(sorted({r for _, r, _ in TARGETS})), body)
