"""Gen/Consts.v: the constants and shapes of `unique-id()` (string.rs) and
`random()` (math.rs, check::positive_int, Number::into_integer) that the C06
model is parameterised by."""
from rs2v import *
import re


def _def_closure(toks, fname, src):
    """token range (lo, hi) of the closure body of `def!(f, fname(..), |..| BODY)`."""
    for i in find_all_seq(toks, ["def", "!", "("]):
        close = match_close(toks, i + 2)
        parts = split_top(toks, i + 3, close, ",")
        if len(parts) >= 3 and toks[parts[1][0]].text == fname and toks[parts[1][0] + 1].text == "(":
            # formal args
            a_close = match_close(toks, parts[1][0] + 1)
            formals = text_of(toks, parts[1][0] + 2, a_close)
            lo = parts[2][0]
            need(toks[lo].text == "|", f"{src}: def!({fname}) body is not a closure")
            j = lo + 1
            while toks[j].text != "|":
                j += 1
            return formals, j + 1, close
    raise GenError(f"{src}: def!(.., {fname}(..), ..) not found")


def generate():
    s_src = "rsass/src/sass/functions/string.rs"
    toks = toks_of(s_src)
    formals, lo, hi = _def_closure(toks, "unique_id", s_src)
    need(formals == "", "unique_id takes arguments now")
    # static CALL_ID: LazyLock<Mutex<uNN>> = LazyLock::new(|| { Mutex::new(uNN::from(std::process::id()) * MULT) });
    i = find_seq(toks, ["static", "CALL_ID", ":", "LazyLock", "<", "Mutex", "<"], lo, hi)
    need(i >= 0, "static CALL_ID: LazyLock<Mutex<..>> not found in unique_id")
    cty = toks[i + 7].text
    m = re.fullmatch(r"u(8|16|32|64|128)", cty)
    need(m, f"CALL_ID counter type {cty} is not an unsigned integer type")
    bits = int(m.group(1))
    semi = i
    while toks[semi].text != ";":
        if toks[semi].text in OPEN:
            semi = match_close(toks, semi)
        semi += 1
    eq = i
    while toks[eq].text != "=":
        eq += 1
    init = text_of(toks, eq + 1, semi)
    m = re.fullmatch(r"LazyLock :: new \( \|\| \{ Mutex :: new \( %s :: from \( std :: process :: id \( \) \) \* (\S+) \) \} \)" % cty, init)
    need(m, f"unexpected CALL_ID initialiser: {init}")
    mult = int(m.group(1).replace("_", ""), 0)
    rest = text_of(toks, semi + 1, hi)
    m = re.fullmatch(r"let v = \{ let mut v = CALL_ID \. lock \( \) \. unwrap \( \) ; \* v \+= (\S+) ; \* v \} ; "
                     r"Ok \( format ! \( (\"[^\"]*\") \) \. into \( \) \) \}", rest)
    crit_ok = m is not None
    need(crit_ok, f"unexpected unique_id critical section / result: {rest}")
    incr = int(m.group(1).replace("_", ""), 0)
    fmt = m.group(2)[1:-1]
    fm = re.fullmatch(r"([^{}]*)\{v:([a-zA-Z#0-9]*)\}([^{}]*)", fmt)
    need(fm, f"unexpected unique_id format string {fmt!r}")
    prefix, spec, suffix = fm.groups()
    need(spec in ("x", "X", "o", "b", ""), f"unique_id number format {spec!r} is not modelled")
    radix = {"x": 16, "X": 16, "o": 8, "b": 2, "": 10}[spec]
    upper = spec == "X"

    # random()
    m_src = "rsass/src/sass/functions/math.rs"
    mt = toks_of(m_src)
    formals, lo, hi = _def_closure(mt, "random", m_src)
    body = text_of(mt, lo, hi)
    m = re.fullmatch(r"\{ match s \. get_opt_map \( name ! \( limit \) , check :: (\w+) \) \? \{ "
                     r"None => Ok \( Value :: scalar \( fastrand :: f64 \( \) \) \) , "
                     r"Some \( bound \) => Ok \( Value :: scalar \( fastrand :: i64 \( (-?\d+) (\.\.=?) bound \) \+ (\d+) \) \) , \} \}", body)
    need(m, f"unexpected body of random(): {body}")
    checker, rlo, rdots, roff = m.group(1), int(m.group(2)), m.group(3), int(m.group(4))
    need(formals == 'limit = b"null"', f"unexpected formals of random(): {formals}")

    f_src = "rsass/src/sass/functions/mod.rs"
    ft = toks_of(f_src)
    b = fn_body(ft, checker)
    need(b, f"check::{checker} not found")
    ptxt = text_of(ft, b[0], b[1] + 1)
    m = re.fullmatch(r"\{ let v = int \( v \) \? ; if v (>=?) (-?\d+) \{ Ok \( v \) \} else \{ Err \( format ! \( \"[^\"]*\" \) \) \} \}", ptxt)
    need(m, f"unexpected body of check::{checker}: {ptxt}")
    pcmp, pconst = m.group(1), int(m.group(2))
    b = fn_body(ft, "int")
    need(b, "check::int not found")
    int_ok = text_of(ft, b[0], b[1] + 1) == ('{ Numeric :: try_from ( v ) ? . value . into_integer ( ) '
                                             '. map_err ( | v | is_not ( & v , "an int" ) ) }')
    n_src = "rsass/src/value/number.rs"
    nt = toks_of(n_src)
    b = fn_body(nt, "into_integer")
    need(b, "Number::into_integer not found")
    into_ok = text_of(nt, b[0], b[1] + 1) == ("{ let int = self . value . round ( ) as i64 ; "
                                              "if ( ( int as f64 ) - self . value ) . abs ( ) <= f32 :: EPSILON . into ( ) "
                                              "{ Ok ( int ) } else { Err ( self ) } }")

    def bl(x):
        return "true" if x else "false"

    body = "From Coq Require Import String List ZArith NArith.\nImport ListNotations.\nLocal Open Scope string_scope.\n\n"
    body += "(* unique_id: static CALL_ID: LazyLock<Mutex<uNN>> = pid * MULT; { lock; *v += INCR; *v }; format!(\"PREFIX{v:SPEC}\") *)\n"
    body += f"Definition uid_counter_bits : N := {bits}%N.\n"
    body += f"Definition uid_mult : N := {mult}%N.\n"
    body += f"Definition uid_incr : N := {incr}%N.\n"
    body += f"Definition uid_prefix : string := {qs(prefix)}.\n"
    body += f"Definition uid_suffix : string := {qs(suffix)}.\n"
    body += f"Definition uid_spec : string := {qs(spec)}.\n"
    body += f"Definition uid_radix : N := {radix}%N.\n"
    body += f"Definition uid_upper : bool := {bl(upper)}.\n"
    body += f"Definition uid_critical_section_ok : bool := {bl(crit_ok)}.\n\n"
    body += "(* random(limit = null): None => fastrand::f64(); Some(bound) => fastrand::i64(LO ..[=] bound) + OFF *)\n"
    body += f"Definition rnd_checker : string := {qs(checker)}.\n"
    body += f"Definition rnd_lo : Z := ({rlo})%Z.\n"
    body += f"Definition rnd_inclusive : bool := {bl(rdots == '..=')}.\n"
    body += f"Definition rnd_offset : Z := ({roff})%Z.\n"
    body += "(* check::positive_int: int(v)?; if v CMP CONST { Ok(v) } else Err *)\n"
    body += f"Definition pos_strict : bool := {bl(pcmp == '>')}.\n"
    body += f"Definition pos_const : Z := ({pconst})%Z.\n"
    body += f"Definition check_int_shape_ok : bool := {bl(int_ok)}.\n"
    body += f"Definition into_integer_shape_ok : bool := {bl(into_ok)}.\n"
    return emit("Consts", ", ".join([s_src, m_src, f_src, n_src]), body)
