"""Gen/LoaderSites.v: inventory of every call site through which a loader failure
travels (Loader::find_file, Context::find_file / do_find_file, SourceFile::read,
SourceFile::parse, CssData::load_module) in the input/, output/ and sass/ sources, with how
the Result is treated at the call site:
  PQuestion  the call (possibly followed by .map/.map_err/.ok_or_else adaptors) is followed by `?`
  PTail      the call is the tail expression of its block (the Result is the block's value)
  PBound v   `let v = <call>;` and `v?` (or `v.map_err(..)?`) appears later in the same function
  POther     anything else (the error could be dropped)"""
from rs2v import *

FILES = ["rsass/src/input/context.rs", "rsass/src/input/fsloader.rs", "rsass/src/input/cargoloader.rs",
         "rsass/src/input/sourcefile.rs", "rsass/src/output/transform.rs", "rsass/src/output/cssdata.rs",
         "rsass/src/sass/mixin.rs", "rsass/src/lib.rs"]

ADAPTORS = {"map", "map_err", "ok_or_else", "ok_or", "and_then"}


def enclosing_fn(toks, i):
    """name of the fn whose body contains token i (innermost)"""
    best = None
    j = 0
    while j < len(toks):
        if toks[j].text == "fn" and j + 1 < len(toks) and toks[j + 1].kind == "ident":
            b = block_after(toks, j)
            if b and b[0] < i < b[1]:
                best = (toks[j + 1].text, b)
        j += 1
    return best


def classify(toks, call_open, fnblock):
    """call_open: index of `(` of the call"""
    j = match_close(toks, call_open) + 1
    # adaptor chain
    while j + 2 < len(toks) and toks[j].text == "." and toks[j + 1].kind == "ident" and toks[j + 1].text in ADAPTORS \
            and toks[j + 2].text == "(":
        j = match_close(toks, j + 2) + 1
    if toks[j].text == "?":
        return "PQuestion"
    if toks[j].text == "}":
        return "PTail"
    if toks[j].text == "," :
        # value of a match arm: `pat => call(..),`
        k = call_open - 1
        while k > fnblock[0] and (toks[k].kind == "ident" or toks[k].text in (".", "::")):
            k -= 1
        if toks[k].text == "=>":
            return "PTail"
    if toks[j].text == ";":
        # find the start of the statement: `let v = ...`
        k = call_open - 1
        depth = 0
        while k > fnblock[0]:
            t = toks[k].text
            if t in (")", "]", "}"):
                depth += 1
            elif t in ("(", "[", "{"):
                if depth == 0:
                    break
                depth -= 1
            elif t == ";" and depth == 0:
                break
            k -= 1
        if toks[k + 1].text == "let" and toks[k + 2].kind == "ident" and toks[k + 3].text == "=":
            v = toks[k + 2].text
            # `v?` or `v.map_err(..)?` later in the same function
            for m in range(j, fnblock[1]):
                if toks[m].text == v and toks[m].kind == "ident" and toks[m - 1].text != ".":
                    e = m + 1
                    while e + 2 < len(toks) and toks[e].text == "." and toks[e + 1].kind == "ident" \
                            and toks[e + 1].text in ADAPTORS and toks[e + 2].text == "(":
                        e = match_close(toks, e + 2) + 1
                    if toks[e].text == "?":
                        return f"PBound {qs(v)}"
    return "POther"


def generate():
    sites = []
    for rel in FILES:
        toks = toks_of(rel)
        n = len(toks)
        for i in range(n - 1):
            t = toks[i]
            callee = None
            if t.kind == "ident" and toks[i + 1].text == "(" and i > 0:
                prev = toks[i - 1].text
                if t.text in ("find_file", "do_find_file", "load_module", "read_to_end") and prev == ".":
                    callee = t.text
                elif t.text in ("handle_parsed", "handle_body", "handle_item") and prev != "fn":
                    callee = t.text
                elif t.text == "read" and prev == "::" and toks[i - 2].text == "SourceFile":
                    callee = "SourceFile::read"
                elif t.text == "parse" and prev == "." and toks[i + 2].text == ")" \
                        and toks[i - 2].kind == "ident" and toks[i - 2].text in ("file", "sourcefile", "source"):
                    callee = "SourceFile::parse"
            if not callee:
                continue
            fn = enclosing_fn(toks, i)
            if fn is None:
                continue      # doc comment examples are not tokens; a call outside any fn does not exist
            recv = toks[i - 2].text if toks[i - 1].text == "." else ""
            name = callee
            if callee == "find_file":
                name = "Loader::find_file" if recv == "loader" else "Context::find_file"
            sites.append((rel, t.line, fn[0], name, classify(toks, i + 1, fn[1])))
    need(sites, "no loader call sites found")
    for must in ("Loader::find_file", "Context::find_file", "do_find_file", "SourceFile::read", "SourceFile::parse", "load_module", "read_to_end"):
        need(any(s[3] == must for s in sites), f"no call site of {must} found")
    body = "From Coq Require Import String List.\nImport ListNotations.\nLocal Open Scope string_scope.\n\n"
    body += "Inductive propagation : Type := PQuestion | PTail | PBound (v : string) | POther.\n\n"
    body += "(* (file, line, enclosing fn, callee, treatment of the Result) *)\n"
    body += "Definition loader_sites : list (string * nat * string * string * propagation) :=\n  [" + ";\n   ".join(
        f"({qs(f)}, {ln}, {qs(fn)}, {qs(c)}, {p})" for f, ln, fn, c, p in sites) + "].\n"
    return emit("LoaderSites", ", ".join(FILES), body)
