"""Gen/Candidates.v: the candidate file-name rules of Context::find_file (two
closure arrays, order preserved), the direct-suffix test and base/name split of
do_find_file, the shape of relative() and FsLoader::find_file, and the
plain-CSS-@import condition of output/transform.rs (Item::Import)."""
from rs2v import *

CTX = "rsass/src/input/context.rs"
FSL = "rsass/src/input/fsloader.rs"
TRF = "rsass/src/output/transform.rs"


def pieces_of_format(fmt, line):
    """'{base}_{name}.scss' -> ['PBase', 'PLit "_"', 'PName', 'PLit ".scss"']"""
    out = []
    i = 0
    lit = ""
    while i < len(fmt):
        c = fmt[i]
        if c == "{":
            if fmt.startswith("{{", i):
                lit += "{"
                i += 2
                continue
            j = fmt.index("}", i)
            arg = fmt[i + 1:j]
            need(arg in ("base", "name"), f"unexpected format argument {{{arg}}} at line {line}")
            if lit:
                out.append(f"PLit {qs(lit)}")
                lit = ""
            out.append("PBase" if arg == "base" else "PName")
            i = j + 1
        elif c == "}":
            need(fmt.startswith("}}", i), f"stray }} in format string at line {line}")
            lit += "}"
            i += 2
        else:
            lit += c
            i += 1
    if lit:
        out.append(f"PLit {qs(lit)}")
    return out


def closure_array(toks, lo, hi):
    """toks[lo] == '[' ... toks[hi] == ']' : elements `& | base , name | format ! ( "..." )`"""
    res = []
    a = lo + 1
    while a < hi:
        txt = [t.text for t in toks[a:a + 11]]
        need(a + 11 <= hi and txt[:6] == ["&", "|", "base", ",", "name", "|"] and txt[6:9] == ["format", "!", "("]
             and txt[10] == ")" and toks[a + 9].kind == "str",
             f"unexpected candidate closure at line {toks[a].line}: {' '.join(txt)}")
        res.append(pieces_of_format(str_value(toks[a + 9]), toks[a].line))
        a += 11
        if a < hi:
            need(toks[a].text == ",", f"expected `,` between candidate closures at line {toks[a].line}")
            a += 1
    return res


def generate():
    toks = toks_of(CTX)
    ff = find_seq(toks, ["pub", "fn", "find_file"])
    need(ff >= 0, "Context::find_file not found")
    body = block_after(toks, ff)
    need(body, "Context::find_file has no body")
    lo, hi = body
    i = find_seq(toks, ["let", "names", ":", "&", "[", "Combine", "]", "=", "if", "from", ".", "is_import", "(", ")", "{", "&", "["], lo, hi)
    need(i >= 0, "`let names: &[Combine] = if from.is_import() { &[` not found in find_file")
    a1 = i + 16
    e1 = match_close(toks, a1)
    imp = closure_array(toks, a1, e1)
    need([t.text for t in toks[e1 + 1:e1 + 6]] == ["}", "else", "{", "&", "["], "else-branch of the candidate arrays not found")
    a2 = e1 + 5
    e2 = match_close(toks, a2)
    use = closure_array(toks, a2, e2)
    need(imp and use, "empty candidate array")
    # the rest of find_file, as an anchored shape
    rest = text_of(toks, e2 + 3, hi)
    expected_rest = ("let url = normalize ( url ) ; let rel_url = normalize ( & relative ( & from , & url ) ) ; "
                     "let found = match self . do_find_file ( & rel_url , names ) ? "
                     "{ None if rel_url != url => self . do_find_file ( & url , names ) ? , found => found , } ; "
                     "if let Some ( ( path , mut file ) ) = found "
                     "{ let is_module = ! from . is_import ( ) ; let source = from . url ( & path ) ; "
                     "let file = SourceFile :: read ( & mut file , source ) ? ; self . lock_loading ( & file , is_module ) ? ; "
                     "Ok ( Some ( file ) ) } else { Ok ( None ) }")
    find_shape = rest == expected_rest

    # do_find_file
    df = fn_body(toks, "do_find_file")
    need(df, "fn do_find_file not found")
    j = find_seq(toks, ["if", "url", ".", "ends_with"], df[0], df[1])
    need(j >= 0, "suffix test of do_find_file not found")
    blk = block_after(toks, j)
    sufs = []
    for (a, b) in split_top(toks, j + 1, blk[0], "||"):
        txt = [t.text for t in toks[a:b]]
        need(txt[:4] == ["url", ".", "ends_with", "("] and toks[a + 4].kind == "str" and txt[-1] == ")" and len(txt) == 6,
             f"unexpected disjunct in do_find_file suffix test: {' '.join(txt)}")
        sufs.append(str_value(toks[a + 4]))
    direct = text_of(toks, blk[0], blk[1] + 1)
    direct_ok = direct == "{ self . loader . find_file ( url ) . map ( | file | file . map ( | file | ( url . into ( ) , file ) ) ) }"
    need(toks[blk[1] + 1].text == "else", "do_find_file: else branch missing")
    eb = block_after(toks, blk[1] + 1)
    loop = text_of(toks, eb[0], eb[1] + 1)
    loop_ok = loop == ("{ let ( base , name ) = url . rfind ( '/' ) . map_or ( ( \"\" , url ) , | p | url . split_at ( p + 1 ) ) ; "
                       "for name in names . iter ( ) . map ( | f | f ( base , name ) ) { "
                       "if let Some ( result ) = self . loader . find_file ( & name ) ? { return Ok ( Some ( ( name , result ) ) ) ; } } "
                       "Ok ( None ) }")

    # relative()
    rb = fn_body(toks, "relative")
    need(rb, "fn relative not found")
    rel = text_of(toks, rb[0], rb[1] + 1)
    rel_ok = rel == ("{ base . next ( ) . map ( SourcePos :: file_url ) . and_then ( | base | { base . rfind ( '/' ) "
                     ". map ( | p | base . split_at ( p + 1 ) . 0 ) . map ( | base | format ! ( \"{base}{url}\" ) . into ( ) ) } ) "
                     ". unwrap_or_else ( || url . into ( ) ) }")

    # normalize()
    nb = fn_body(toks, "normalize")
    need(nb, "fn normalize not found")
    norm_ok = text_of(toks, nb[0], nb[1] + 1) == (
        "{ let mut parts = Vec :: new ( ) ; for part in url . split ( '/' ) { match part { \"\" | \".\" => ( ) , "
        "\"..\" if parts . last ( ) . is_some_and ( | p | * p != \"..\" ) => { parts . pop ( ) ; } part => parts . push ( part ) , } } "
        "let root = if url . starts_with ( '/' ) { \"/\" } else { \"\" } ; format ! ( \"{root}{}\" , parts . join ( \"/\" ) ) }")

    # load-css: the file stays locked until the MixinCall arm has handled the body
    mt = toks_of("rsass/src/sass/mixin.rs")
    li = find_seq(mt, ["Self", "::", "LoadCss", "=>"])
    need(li >= 0, "MixinDecl::LoadCss arm not found")
    lb = block_after(mt, li)
    ltxt = text_of(mt, lb[0], lb[1] + 1)
    loadcss_ok = ("unlock_loading" not in ltxt
                  and ltxt.endswith("Ok ( Mixin { scope , body : source . parse ( ) ? , loading : Some ( source ) , } ) }")
                  and ". find_file ( url . value ( ) , SourceKind :: load_css ( call_pos ) ) ?" in ltxt)
    tt2 = toks_of(TRF)
    mi = find_seq(tt2, ["Item", "::", "MixinCall"])
    need(mi >= 0, "Item::MixinCall arm not found")
    mb = block_after(tt2, mi)
    mtxt = text_of(tt2, mb[0], mb[1] + 1)
    mixincall_ok = ("let result = handle_parsed ( mixin . body , dest , mixin . scope , file_context , ) ; "
                    "if let Some ( source ) = & mixin . loading { file_context . unlock_loading ( source ) ; } "
                    "result . map_err (") in mtxt

    # lock / unlock
    lb = fn_body(toks, "lock_loading")
    need(lb, "fn lock_loading not found")
    lock = text_of(toks, lb[0], lb[1] + 1)
    lock_ok = lock.startswith("{ let name = file . source ( ) . name ( ) ; let pos = & file . source ( ) . imported ; "
                              "if let Some ( old ) = self . loading . insert ( name . into ( ) , pos . clone ( ) ) { Err ( Error :: ImportLoop (") \
        and lock.endswith("} else { Ok ( ( ) ) } }")
    ub = fn_body(toks, "unlock_loading")
    need(ub, "fn unlock_loading not found")
    unlock_ok = text_of(toks, ub[0], ub[1] + 1) == "{ self . loading . remove ( file . path ( ) ) ; }"

    # FsLoader::find_file
    ft = toks_of(FSL)
    il = find_seq(ft, ["impl", "Loader", "for", "FsLoader"])
    need(il >= 0, "impl Loader for FsLoader not found")
    ib = block_after(ft, il)
    fb = fn_body(ft, "find_file", ib[0], ib[1])
    need(fb, "FsLoader::find_file not found")
    ftxt = text_of(ft, fb[0], fb[1] + 1)
    fs_ok = (ftxt.startswith("{ if ! url . is_empty ( ) { for base in & self . path { let full = base . join ( url ) ; if full . is_file ( ) {")
             and "return Self :: File :: open ( & full )" in ftxt and ftxt.endswith("} } Ok ( None ) }"))
    pp = fn_body(ft, "push_path")
    need(pp, "FsLoader::push_path not found")
    push_ok = text_of(ft, pp[0], pp[1] + 1) == "{ self . path . push ( path . into ( ) ) ; }"

    # plain css import condition
    tt = toks_of(TRF)
    k = find_seq(tt, ["if", "!", "(", "x", ".", "starts_with"])
    need(k >= 0, "plain-css @import condition not found in transform.rs")
    close = match_close(tt, k + 2)
    atoms = []
    for (a, b) in split_top(tt, k + 3, close, "||"):
        txt = [t.text for t in tt[a:b]]
        if txt[:2] == ["x", "."] and txt[2] in ("starts_with", "ends_with") and txt[3] == "(" and tt[a + 4].kind == "str" and len(txt) == 6:
            atoms.append(("CStarts" if txt[2] == "starts_with" else "CEnds") + " " + qs(str_value(tt[a + 4])))
        elif txt == ["name", ".", "is_css_url", "(", ")"]:
            atoms.append("CIsCssUrl")
        else:
            raise GenError(f"unexpected disjunct in the plain-css condition: {' '.join(txt)}")
    cb = block_after(tt, close + 1)
    need(cb and cb[0] == close + 1, "plain-css condition: block missing")
    ctxt = text_of(tt, cb[0], cb[1] + 1)
    css_err_ok = ctxt.startswith("{ return Err ( Error :: BadCall ( \"Can't find stylesheet to import.\"")
    # after the `if args.is_null() { ... }` block the import is pushed
    after = text_of(tt, cb[1] + 1, cb[1] + 30)
    css_push_ok = after.startswith("} let args = args . evaluate ( scope . clone ( ) ) ? ; dest . push_import ( Import :: new ( name , args ) )")

    def plist(ps):
        return "[" + "; ".join(ps) + "]"

    def b(x):
        return "true" if x else "false"

    body = "From Coq Require Import String List.\nImport ListNotations.\nLocal Open Scope string_scope.\n\n"
    body += "(* one piece of a `format!(\"{base}..{name}..\")` candidate rule *)\nInductive piece : Type := PBase | PName | PLit (s : string).\n"
    body += "Inductive css_atom : Type := CStarts (s : string) | CEnds (s : string) | CIsCssUrl.\n\n"
    body += "(* Context::find_file, `from.is_import()` branch, in source order *)\nDefinition import_candidates : list (list piece) :=\n  [" + ";\n   ".join(plist(p) for p in imp) + "].\n\n"
    body += "(* Context::find_file, other branch (@use, @forward, load-css), in source order *)\nDefinition use_candidates : list (list piece) :=\n  [" + ";\n   ".join(plist(p) for p in use) + "].\n\n"
    body += "(* do_find_file: a url with one of these suffixes is looked up as it is *)\nDefinition direct_suffixes : list string := [" + "; ".join(qs(s) for s in sufs) + "].\n\n"
    body += "(* Item::Import: a missing file is an error unless one of these holds of the url *)\nDefinition plain_css_atoms : list css_atom := [" + "; ".join(atoms) + "].\n\n"
    body += "(* anchored shapes: the rest of the code still reads as the model assumes *)\n"
    body += f"Definition find_file_shape_ok : bool := {b(find_shape)}.\n"
    body += f"Definition do_find_direct_shape_ok : bool := {b(direct_ok)}.\n"
    body += f"Definition do_find_loop_shape_ok : bool := {b(loop_ok)}.\n"
    body += f"Definition relative_shape_ok : bool := {b(rel_ok)}.\n"
    body += f"Definition normalize_shape_ok : bool := {b(norm_ok)}.\n"
    body += f"Definition loadcss_lock_shape_ok : bool := {b(loadcss_ok and mixincall_ok)}.\n"
    body += f"Definition lock_shape_ok : bool := {b(lock_ok)}.\n"
    body += f"Definition unlock_shape_ok : bool := {b(unlock_ok)}.\n"
    body += f"Definition fsloader_shape_ok : bool := {b(fs_ok and push_ok)}.\n"
    body += f"Definition plain_css_shape_ok : bool := {b(css_err_ok and css_push_ok)}.\n"
    return emit("Candidates", f"{CTX}, {FSL}, {TRF}", body)
