"""Gen/Statics.v: inventory of everything in rsass/src that outlives one compilation or reads ambient state:
`static` items (with their type and whether the initialiser reads ambient state), `thread_local!`, `dep_warn!`
(expands to a `static WARN: Once`), uses of fastrand, of the process id / environment / clock, and
lazy_static / once_cell style macros.  (file, name, kind, detail), sorted by file then position."""
from rs2v import *
import os

AMBIENT = [(["process", "::", "id"], "process::id"), (["env", "::", "var"], "env::var"), (["env", "::", "vars"], "env::vars"),
           (["env", "::", "var_os"], "env::var_os"),
           (["env", "::", "set_var"], "env::set_var"), (["env", "::", "current_dir"], "env::current_dir"),
           (["env", "::", "set_current_dir"], "env::set_current_dir"), (["SystemTime", "::", "now"], "SystemTime::now"),
           (["Instant", "::", "now"], "Instant::now"), (["RandomState", "::", "new"], "RandomState::new")]
FORBIDDEN_MACROS = ["lazy_static", "thread_local"]


def _files():
    root = os.path.join(REPO, "rsass", "src")
    need(os.path.isdir(root), "rsass/src missing")
    out = []
    for d, _, names in os.walk(root):
        for n in names:
            if n.endswith(".rs"):
                out.append(os.path.relpath(os.path.join(d, n), REPO))
    return sorted(out)


def _ambient_in(toks, lo, hi):
    found = []
    for pat, name in AMBIENT:
        if find_seq(toks, pat, lo, hi) >= 0:
            found.append(name)
    if find_seq(toks, ["fastrand", "::"], lo, hi) >= 0:
        found.append("fastrand")
    return found


def extract():
    items = []
    for rel in _files():
        toks = toks_of(rel)
        short = rel[len("rsass/src/"):]
        n = len(toks)
        for i, t in enumerate(toks):
            if t.kind != "ident":
                continue
            if t.text == "static" and i + 1 < n:
                j = i + 1
                mut = False
                if toks[j].text == "mut":
                    mut = True
                    j += 1
                # `&'static` is tokenized as a lifetime; `static` followed by ident and `:` is an item
                if toks[j].kind == "ident" and j + 1 < n and toks[j + 1].text == ":":
                    name = toks[j].text
                    k = j + 2
                    depth = 0
                    while k < n and not (toks[k].text in ("=", ";") and depth == 0):
                        if toks[k].text == "<":
                            depth += 1
                        elif toks[k].text == ">":
                            depth -= 1
                        elif toks[k].text == ">>":
                            depth -= 2
                        k += 1
                    ty = text_of(toks, j + 2, k).replace(" ", "")
                    end = k
                    while end < n and toks[end].text != ";":
                        if toks[end].text in OPEN:
                            end = match_close(toks, end)
                        end += 1
                    amb = _ambient_in(toks, k, end)
                    if mut:
                        kind = "static-mut"
                    elif "Mutex" in ty or "RwLock" in ty or "Atomic" in ty or "Cell" in ty:
                        kind = "interior-mutable"
                    elif ty.startswith("LazyLock") or ty.startswith("OnceLock") or ty.startswith("Lazy<"):
                        kind = "lazy"
                    elif ty == "Once":
                        kind = "once"
                    else:
                        kind = "const"
                    items.append((short, name, kind, ty + (" init-reads:" + "+".join(amb) if amb else "")))
            elif t.text in FORBIDDEN_MACROS and i + 1 < n and toks[i + 1].text == "!":
                items.append((short, t.text + "!", "thread-local" if t.text == "thread_local" else "lazy-macro", ""))
            elif t.text == "dep_warn" and i + 1 < n and toks[i + 1].text == "!" and toks[i + 2].text in ("(", "{", "["):
                if not (i >= 1 and toks[i - 1].text == "macro_rules"):
                    items.append((short, "dep_warn!", "once-stderr", "line-order #%d" % (1 + sum(1 for x in items if x[0] == short and x[1] == "dep_warn!"))))
            elif t.text == "fastrand" and i + 2 < n and toks[i + 1].text == "::" and toks[i + 2].kind == "ident":
                items.append((short, "fastrand::" + toks[i + 2].text, "rng", ""))
        for pat, name in AMBIENT:
            for i in find_all_seq(toks, pat):
                items.append((short, name, "ambient", ""))
    # stable order: file, then as found; drop exact duplicates of ambient uses inside static initialisers? keep all
    return items


MUT_PATTERNS = [([".", "insert", "("], "insert"), ([".", "remove", "("], "remove"), (["get_or_insert_with"], "get_or_insert_with"),
                ([".", "store", "("], "store"), ([".", "clear", "("], "clear"), ([".", "extend", "("], "extend"),
                ([".", "push", "("], "push"), ([".", "swap", "("], "swap"), ([".", "get_mut", "("], "get_mut"),
                ([".", "entry", "("], "entry"), ([".", "append", "("], "append"), ([".", "retain", "("], "retain")]


def scope_mutators():
    """methods of `impl Scope` (variablescope.rs) that write to one of the scope's interior-mutable fields."""
    rel = "rsass/src/variablescope.rs"
    toks = toks_of(rel)
    s = find_seq(toks, ["pub", "struct", "Scope", "{"])
    need(s >= 0, "struct Scope not found")
    send = match_close(toks, s + 3)
    fields = []
    for (lo, hi) in split_top(toks, s + 4, send, ","):
        j = lo
        while j < hi and toks[j].text == "#":
            j = match_close(toks, j + 1) + 1
        if j < hi and toks[j].text == "pub":
            j += 1
        if j + 1 < hi and toks[j].kind == "ident" and toks[j + 1].text == ":":
            ty = text_of(toks, j + 2, hi).replace(" ", "")
            fields.append((toks[j].text, ty, any(w in ty for w in ("Mutex", "RwLock", "Cell", "ArcSwap", "Atomic"))))
    i = find_seq(toks, ["impl", "Scope", "{"])
    need(i >= 0, "impl Scope not found")
    iend = match_close(toks, i + 2)
    out = []
    j = i + 3
    while j < iend:
        if toks[j].text == "fn" and toks[j + 1].kind == "ident":
            name = toks[j + 1].text
            b = block_after(toks, j + 2)
            need(b, f"Scope::{name} has no body")
            kinds = []
            for pat, nm in MUT_PATTERNS:
                if find_seq(toks, pat, b[0], b[1]) >= 0:
                    kinds.append(nm)
            if find_seq(toks, ["let", "mut"], b[0], b[1]) >= 0 and find_seq(toks, ["lock", "(", ")"], b[0], b[1]) >= 0 \
                    and any(toks[k].text == "=" and toks[k - 1].text == "]" for k in range(b[0], b[1])):
                kinds.append("index-assign")
            if any(toks[k].text == "*" and toks[k + 1].kind == "ident" and toks[k + 2].text in ("=", "+=", "-=")
                   and toks[k - 1].text in (";", "{", "}") for k in range(b[0] + 1, b[1] - 2)):
                kinds.append("deref-assign")
            guard = find_seq(toks, ["ModifiedBuiltin"], b[0], b[1]) >= 0
            touches = sorted({toks[k + 2].text for k in range(b[0], b[1] - 2)
                              if toks[k].text == "self" and toks[k + 1].text == "." and toks[k + 2].text in [f[0] for f in fields if f[2]]}
                             | {toks[k + 2].text for k in range(b[0], b[1] - 2)
                                if toks[k].kind == "ident" and toks[k + 1].text == "." and toks[k + 2].text in [f[0] for f in fields if f[2]]})
            if kinds and touches:
                out.append((name, "+".join(kinds), ",".join(touches), guard))
            j = b[1] + 1
            continue
        j += 1
    return fields, out


# methods of Scope / ScopeRef that (transitively) write to a scope
MUTATING_METHODS = ["define_module", "set_variable", "define_global", "restore_local_values", "define_mixin", "define_function",
                    "forward", "define_content", "define", "define_multi", "do_use", "expose_star"]


def _test_mask(toks):
    n = len(toks)
    mask = [False] * n
    i = 0
    while i < n:
        if toks[i].text == "#" and i + 1 < n and toks[i + 1].text == "[":
            j = match_close(toks, i + 1)
            inner = [x.text for x in toks[i + 2:j]]
            if "test" in inner and "not" not in inner:
                k = j + 1
                while k < n and toks[k].text == "#":
                    k = match_close(toks, k + 1) + 1
                m = k
                while m < n:
                    if toks[m].text in ("(", "["):
                        m = match_close(toks, m) + 1
                        continue
                    if toks[m].text == "{":
                        m = match_close(toks, m)
                        break
                    if toks[m].text == ";":
                        break
                    m += 1
                for x in range(i, min(m + 1, n)):
                    mask[x] = True
                i = m + 1
                continue
            i = j + 1
            continue
        i += 1
    return mask


def _receiver(toks, dot):
    """text of the receiver expression ending just before toks[dot] == '.'"""
    j = dot - 1
    while j >= 0:
        tk = toks[j]
        if tk.text in (")", "]"):
            depth = 0
            while j >= 0:
                if toks[j].text in (")", "]"):
                    depth += 1
                elif toks[j].text in ("(", "["):
                    depth -= 1
                    if depth == 0:
                        break
                j -= 1
            j -= 1
            continue
        if tk.kind == "ident" or tk.text in (".", "::", "?"):
            j -= 1
            continue
        break
    return text_of(toks, j + 1, dot)


def call_sites():
    """every call `.m(` of a mutating Scope method, every `get_global_module(` call and every construction of
    ScopeRef::Builtin in non-test code: (file, enclosing fn, what, receiver / context)"""
    out = []
    for rel in _files():
        if rel.endswith("testutil.rs"):
            continue
        toks = toks_of(rel)
        mask = _test_mask(toks)
        n = len(toks)
        fn_of = [""] * n
        for i in range(n):
            if toks[i].text == "fn" and i + 1 < n and toks[i + 1].kind == "ident":
                b = block_after(toks, i)
                if b:
                    for x in range(b[0], b[1] + 1):
                        fn_of[x] = toks[i + 1].text
        short = rel[len("rsass/src/"):]
        for i in range(n):
            if mask[i]:
                continue
            tk = toks[i]
            if tk.text == "." and i + 2 < n and toks[i + 1].text in MUTATING_METHODS and toks[i + 2].text == "(":
                out.append((short, fn_of[i], toks[i + 1].text, _receiver(toks, i)))
            elif tk.text == "get_global_module" and i + 1 < n and toks[i + 1].text == "(" and toks[i - 1].text != "fn":
                out.append((short, fn_of[i], "get_global_module", ""))
            elif tk.text == "Builtin" and i >= 2 and toks[i - 1].text == "::" and toks[i - 2].text in ("ScopeRef", "Self") \
                    and short == "variablescope.rs" or (tk.text == "Builtin" and i >= 2 and toks[i - 1].text == "::" and toks[i - 2].text == "ScopeRef"):
                ctx = "pattern" if (i + 1 < n and toks[i + 1].text == "(" and toks[match_close(toks, i + 1) + 1].text in ("=>", ",", ")")) else "value"
                out.append((short, fn_of[i], "ScopeRef::Builtin", ctx))
    # closure: a Scope / ScopeRef method that calls a mutating method on self must itself be listed
    vt = toks_of("rsass/src/variablescope.rs")
    for i in range(len(vt)):
        if vt[i].text == "fn" and vt[i + 1].kind == "ident":
            b = block_after(vt, i)
            if not b:
                continue
            name = vt[i + 1].text
            for k in range(b[0], b[1] - 3):
                if vt[k].text == "self" and vt[k + 1].text == "." and vt[k + 2].text in MUTATING_METHODS and vt[k + 3].text == "(":
                    need(name in MUTATING_METHODS or name in ("with_forwarded", "expose", "eval_body", "builtin_module", "do_evaluate", "do_evaluate_or_error"),
                         f"Scope method {name} calls self.{vt[k + 2].text}() but is not in the list of mutating methods")
    return out


def generate():
    items = extract()
    need(items, "no process-global state found at all (scanner broken?)")
    body = "From Coq Require Import String List.\nImport ListNotations.\nLocal Open Scope string_scope.\n\n"
    body += "(* (file, name, kind, detail) *)\nDefinition statics : list (string * (string * (string * string))) :=\n  [" + \
            ";\n   ".join(f"({qs(f)}, ({qs(n)}, ({qs(k)}, {qs(d)})))" for f, n, k, d in items) + "].\n"
    fields, muts = scope_mutators()
    body += "\n(* fields of `struct Scope`: (name, type, interior mutable) *)\nDefinition scope_fields : list (string * (string * bool)) :=\n  [" + \
            ";\n   ".join(f"({qs(n)}, ({qs(ty)}, {'true' if m else 'false'}))" for n, ty, m in fields) + "].\n"
    body += ("\n(* methods of `impl Scope` that write to an interior-mutable field: (method, how, fields, mentions ModifiedBuiltin) *)\n"
             "Definition scope_mutators : list (string * (string * (string * bool))) :=\n  [" +
             ";\n   ".join(f"({qs(n)}, ({qs(k)}, ({qs(tch)}, {'true' if g else 'false'})))" for n, k, tch, g in muts) + "].\n")
    cs = call_sites()
    counts = {}
    rows = []
    for c in cs:
        counts[c] = counts.get(c, 0) + 1
        rows.append(c + (counts[c],))
    body += ("\n(* every call of a (transitively) mutating Scope method, every get_global_module call and every mention of\n"
             "   ScopeRef::Builtin in non-test code: (file, enclosing fn, method, receiver text / context, ordinal) *)\n"
             "Definition scope_call_sites : list (string * (string * (string * (string * nat)))) :=\n  [" +
             ";\n   ".join(f"({qs(a)}, ({qs(b)}, ({qs(c)}, ({qs(d)}, {k}))))" for a, b, c, d, k in rows) + "].\n")
    return emit("Statics", "rsass/src/**/*.rs", body)
