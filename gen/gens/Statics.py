"""Gen/Statics.v: inventory of everything in rsass/src that outlives one compilation or reads ambient state:
`static` items (with their type and whether the initialiser reads ambient state), `thread_local!`, `dep_warn!`
(expands to a `static WARN: Once`), uses of fastrand, of the process id / environment / clock, and
lazy_static / once_cell style macros.  (file, name, kind, detail), sorted by file then position."""
from rs2v import *
import os

AMBIENT = [(["process", "::", "id"], "process::id"), (["env", "::", "var"], "env::var"), (["env", "::", "vars"], "env::vars"),
           (["env", "::", "var_os"], "env::var_os"),
           (["env", "::", "set_var"], "env::set_var"), (["env", "::", "current_dir"], "env::current_dir"),
           (["env", "::", "set_current_dir"], "env::set_current_dir"), (["SystemTime", "::", "now"], "SystemTime::now"),
           (["Instant", "::", "now"], "Instant::now"), (["RandomState", "::", "new"], "RandomState::new")]
FORBIDDEN_MACROS = ["lazy_static", "thread_local"]


def _files():
    root = os.path.join(REPO, "rsass", "src")
    need(os.path.isdir(root), "rsass/src missing")
    out = []
    for d, _, names in os.walk(root):
        for n in names:
            if n.endswith(".rs"):
                out.append(os.path.relpath(os.path.join(d, n), REPO))
    return sorted(out)


def _ambient_in(toks, lo, hi):
    found = []
    for pat, name in AMBIENT:
        if find_seq(toks, pat, lo, hi) >= 0:
            found.append(name)
    if find_seq(toks, ["fastrand", "::"], lo, hi) >= 0:
        found.append("fastrand")
    return found


def extract():
    items = []
    for rel in _files():
        toks = toks_of(rel)
        short = rel[len("rsass/src/"):]
        n = len(toks)
        for i, t in enumerate(toks):
            if t.kind != "ident":
                continue
            if t.text == "static" and i + 1 < n:
                j = i + 1
                mut = False
                if toks[j].text == "mut":
                    mut = True
                    j += 1
                # `&'static` is tokenized as a lifetime; `static` followed by ident and `:` is an item
                if toks[j].kind == "ident" and j + 1 < n and toks[j + 1].text == ":":
                    name = toks[j].text
                    k = j + 2
                    depth = 0
                    while k < n and not (toks[k].text in ("=", ";") and depth == 0):
                        if toks[k].text == "<":
                            depth += 1
                        elif toks[k].text == ">":
                            depth -= 1
                        elif toks[k].text == ">>":
                            depth -= 2
                        k += 1
                    ty = text_of(toks, j + 2, k).replace(" ", "")
                    end = k
                    while end < n and toks[end].text != ";":
                        if toks[end].text in OPEN:
                            end = match_close(toks, end)
                        end += 1
                    amb = _ambient_in(toks, k, end)
                    if mut:
                        kind = "static-mut"
                    elif "Mutex" in ty or "RwLock" in ty or "Atomic" in ty or "Cell" in ty:
                        kind = "interior-mutable"
                    elif ty.startswith("LazyLock") or ty.startswith("OnceLock") or ty.startswith("Lazy<"):
                        kind = "lazy"
                    elif ty == "Once":
                        kind = "once"
                    else:
                        kind = "const"
                    items.append((short, name, kind, ty + (" init-reads:" + "+".join(amb) if amb else "")))
            elif t.text in FORBIDDEN_MACROS and i + 1 < n and toks[i + 1].text == "!":
                items.append((short, t.text + "!", "thread-local" if t.text == "thread_local" else "lazy-macro", ""))
            elif t.text == "dep_warn" and i + 1 < n and toks[i + 1].text == "!" and toks[i + 2].text in ("(", "{", "["):
                if not (i >= 1 and toks[i - 1].text == "macro_rules"):
                    items.append((short, "dep_warn!", "once-stderr", "line-order #%d" % (1 + sum(1 for x in items if x[0] == short and x[1] == "dep_warn!"))))
            elif t.text == "fastrand" and i + 2 < n and toks[i + 1].text == "::" and toks[i + 2].kind == "ident":
                items.append((short, "fastrand::" + toks[i + 2].text, "rng", ""))
        for pat, name in AMBIENT:
            for i in find_all_seq(toks, pat):
                items.append((short, name, "ambient", ""))
    # stable order: file, then as found; drop exact duplicates of ambient uses inside static initialisers? keep all
    return items


MUT_PATTERNS = [([".", "insert", "("], "insert"), ([".", "remove", "("], "remove"), (["get_or_insert_with"], "get_or_insert_with"),
                ([".", "store", "("], "store"), ([".", "clear", "("], "clear"), ([".", "extend", "("], "extend"),
                ([".", "push", "("], "push"), ([".", "swap", "("], "swap"), ([".", "get_mut", "("], "get_mut"),
                ([".", "entry", "("], "entry"), ([".", "append", "("], "append"), ([".", "retain", "("], "retain")]


def scope_mutators():
    """methods of `impl Scope` (variablescope.rs) that write to one of the scope's interior-mutable fields."""
    rel = "rsass/src/variablescope.rs"
    toks = toks_of(rel)
    s = find_seq(toks, ["pub", "struct", "Scope", "{"])
    need(s >= 0, "struct Scope not found")
    send = match_close(toks, s + 3)
    fields = []
    for (lo, hi) in split_top(toks, s + 4, send, ","):
        j = lo
        while j < hi and toks[j].text == "#":
            j = match_close(toks, j + 1) + 1
        if j < hi and toks[j].text == "pub":
            j += 1
        if j + 1 < hi and toks[j].kind == "ident" and toks[j + 1].text == ":":
            ty = text_of(toks, j + 2, hi).replace(" ", "")
            fields.append((toks[j].text, ty, any(w in ty for w in ("Mutex", "RwLock", "Cell", "ArcSwap", "Atomic"))))
    i = find_seq(toks, ["impl", "Scope", "{"])
    need(i >= 0, "impl Scope not found")
    iend = match_close(toks, i + 2)
    out = []
    j = i + 3
    while j < iend:
        if toks[j].text == "fn" and toks[j + 1].kind == "ident":
            name = toks[j + 1].text
            b = block_after(toks, j + 2)
            need(b, f"Scope::{name} has no body")
            kinds = []
            for pat, nm in MUT_PATTERNS:
                if find_seq(toks, pat, b[0], b[1]) >= 0:
                    kinds.append(nm)
            if find_seq(toks, ["let", "mut"], b[0], b[1]) >= 0 and find_seq(toks, ["lock", "(", ")"], b[0], b[1]) >= 0 \
                    and any(toks[k].text == "=" and toks[k - 1].text == "]" for k in range(b[0], b[1])):
                kinds.append("index-assign")
            if any(toks[k].text == "*" and toks[k + 1].kind == "ident" and toks[k + 2].text in ("=", "+=", "-=")
                   and toks[k - 1].text in (";", "{", "}") for k in range(b[0] + 1, b[1] - 2)):
                kinds.append("deref-assign")
            guard = find_seq(toks, ["ModifiedBuiltin"], b[0], b[1]) >= 0
            touches = sorted({toks[k + 2].text for k in range(b[0], b[1] - 2)
                              if toks[k].text == "self" and toks[k + 1].text == "." and toks[k + 2].text in [f[0] for f in fields if f[2]]}
                             | {toks[k + 2].text for k in range(b[0], b[1] - 2)
                                if toks[k].kind == "ident" and toks[k + 1].text == "." and toks[k + 2].text in [f[0] for f in fields if f[2]]})
            if kinds and touches:
                out.append((name, "+".join(kinds), ",".join(touches), guard))
            j = b[1] + 1
            continue
        j += 1
    return fields, out


def generate():
    items = extract()
    need(items, "no process-global state found at all (scanner broken?)")
    body = "From Coq Require Import String List.\nImport ListNotations.\nLocal Open Scope string_scope.\n\n"
    body += "(* (file, name, kind, detail) *)\nDefinition statics : list (string * (string * (string * string))) :=\n  [" + \
            ";\n   ".join(f"({qs(f)}, ({qs(n)}, ({qs(k)}, {qs(d)})))" for f, n, k, d in items) + "].\n"
    fields, muts = scope_mutators()
    body += "\n(* fields of `struct Scope`: (name, type, interior mutable) *)\nDefinition scope_fields : list (string * (string * bool)) :=\n  [" + \
            ";\n   ".join(f"({qs(n)}, ({qs(ty)}, {'true' if m else 'false'}))" for n, ty, m in fields) + "].\n"
    body += ("\n(* methods of `impl Scope` that write to an interior-mutable field: (method, how, fields, mentions ModifiedBuiltin) *)\n"
             "Definition scope_mutators : list (string * (string * (string * bool))) :=\n  [" +
             ";\n   ".join(f"({qs(n)}, ({qs(k)}, ({qs(tch)}, {'true' if g else 'false'})))" for n, k, tch, g in muts) + "].\n")
    return emit("Statics", "rsass/src/**/*.rs", body)
