"""Gen/Operators.v: `enum Operator` (value/operator.rs) in declaration order (the
derived Ord that css/binop.rs uses to decide parentheses), its Display strings,
`is_cmp`, and which operator tags each layer of parser/value.rs accepts."""
from rs2v import *


def op_tags(toks, lo, hi):
    """all `value(Operator::X, ... "tag" ...)` inside toks[lo:hi] -> [(X, tag)]"""
    out = []
    for i in find_all_seq(toks, ["value", "(", "Operator", "::"], lo, hi):
        close = match_close(toks, i + 1)
        name = toks[i + 4].text
        strs = [t for t in toks[i + 5:close] if t.kind == "str"]
        need(strs, f"no tag string for Operator::{name} at line {toks[i].line}")
        out.append((name, str_value(strs[0])))
    return out


def generate():
    src = "rsass/src/value/operator.rs"
    toks = toks_of(src)
    variants = enum_variants(toks, "Operator")
    need(len(variants) >= 10, "enum Operator not found or too small")
    disp = find_seq(toks, ["impl", "fmt", "::", "Display", "for", "Operator"])
    need(disp >= 0, "Display for Operator not found")
    dblk = block_after(toks, disp)
    disp_tab = []
    for names, (blo, bhi) in simple_match_table(toks, "fmt", dblk[0], dblk[1]):
        strs = [t for t in toks[blo:bhi] if t.kind == "str"]
        need(strs, "Display arm without a string")
        for n in names:
            disp_tab.append((n, str_value(strs[0])))
    # is_cmp: matches!(self, Self::A | Self::B ...)
    b = fn_body(toks, "is_cmp")
    need(b, "fn is_cmp not found")
    m = find_seq(toks, ["matches", "!", "("], b[0], b[1])
    need(m >= 0, "matches! not found in is_cmp")
    close = match_close(toks, m + 2)
    parts = split_top(toks, m + 3, close, ",")
    need(len(parts) == 2, "unexpected matches! shape in is_cmp")
    cmp_names = variants_of_pattern(toks, parts[1][0], parts[1][1])

    psrc = "rsass/src/parser/value.rs"
    ptoks = toks_of(psrc)
    layers = []
    for fname in ("single_expression", "relational_operator", "any_additive_expr", "any_product", "unary_op"):
        fb = fn_body(ptoks, fname)
        need(fb, f"fn {fname} not found in parser/value.rs")
        tags = op_tags(ptoks, fb[0], fb[1])
        need(tags, f"no operator tags in fn {fname}")
        layers.append((fname, tags))
    # the layering itself: who calls whom
    def calls(fname, callee):
        fb = fn_body(ptoks, fname)
        return any(t.kind == "ident" and t.text == callee for t in ptoks[fb[0]:fb[1]])
    chain_ok = (calls("single_expression", "logic_expression") and calls("single_expression", "single_expression")
                and calls("logic_expression", "relational_operator") and calls("logic_expression", "sum_expression")
                and not calls("logic_expression", "logic_expression")
                and calls("sum_expression", "any_additive_expr") and calls("sum_expression", "term_value")
                and calls("term_value", "any_product") and calls("term_value", "single_value")
                and calls("any_additive_expr", "fold_many0") and calls("any_product", "fold_many0")
                and calls("logic_expression", "fold_many0"))

    def pairs(tab):
        return "[" + "; ".join(f"({qs(a)}, {qs(b)})" for a, b in tab) + "]"

    body = "From Coq Require Import String List.\nImport ListNotations.\nLocal Open Scope string_scope.\n\n"
    body += "(* variants of `enum Operator` in declaration order = the derived Ord *)\n"
    body += "Definition operator_variants : list string :=\n  [" + "; ".join(qs(n) for n, _ in variants) + "].\n\n"
    body += "(* Display for Operator *)\nDefinition operator_display : list (string * string) :=\n  " + pairs(disp_tab) + ".\n\n"
    body += "(* Operator::is_cmp *)\nDefinition operator_is_cmp : list string :=\n  [" + "; ".join(qs(n) for n in cmp_names) + "].\n\n"
    body += "(* parser/value.rs: operator tags accepted by each layer, in `alt` order *)\n"
    body += "Definition parser_layers : list (string * list (string * string)) :=\n  [" + ";\n   ".join(
        f"({qs(f)}, {pairs(t)})" for f, t in layers) + "].\n\n"
    body += "(* single_expression -> logic_expression -> sum_expression -> term_value -> single_value, folds where expected *)\n"
    body += f"Definition parser_layering_ok : bool := {'true' if chain_ok else 'false'}.\n"
    return emit("Operators", src + ", " + psrc, body)
