"""Gen/AtNames.v: the at-rule name tables the evaluator consults:
CSS_AT_RULES (output/transform.rs, used by check_body) and the names tested by
is_flat_rule (output/cssdest.rs).  Names as byte lists."""
from rs2v import *


def nb(s):
    return "[" + ";".join(str(b) for b in s.encode()) + "]"


def generate():
    src = "rsass/src/output/transform.rs"
    toks = toks_of(src)
    i = find_seq(toks, ["const", "CSS_AT_RULES"])
    need(i >= 0, "const CSS_AT_RULES not found in transform.rs")
    eq = find_seq(toks, ["="], i)
    need(eq >= 0 and toks[eq + 1].text == "[", "CSS_AT_RULES initialiser not found")
    close = match_close(toks, eq + 1)
    names = [str_value(t) for t in toks[eq + 2:close] if t.kind == "str"]
    need(len(names) >= 1, "CSS_AT_RULES is empty")
    others = [t for t in toks[eq + 2:close] if t.kind not in ("str",) and t.text != ","]
    need(not others, "CSS_AT_RULES has non-literal entries")
    # name_in: the vendor-prefix rule must still be there
    b = fn_body(toks, "name_in")
    need(b, "fn name_in not found")
    txt = text_of(toks, b[0], b[1])
    need("starts_with" in txt and "strip_suffix" in txt and "ends_with" in txt and "contains" in txt,
         "fn name_in no longer has the shape `-prefix-known | known`")
    src2 = "rsass/src/output/cssdest.rs"
    t2 = toks_of(src2)
    b2 = fn_body(t2, "is_flat_rule")
    need(b2, "fn is_flat_rule not found")
    flat = [str_value(t) for t in t2[b2[0]:b2[1]] if t.kind == "str"]
    ops = [t.text for t in t2[b2[0] + 1:b2[1]] if t.kind == "op"]
    need(flat and all(o in ("==", "||") for o in ops), "is_flat_rule is no longer a disjunction of name tests")
    body = "From Coq Require Import List NArith.\nImport ListNotations.\nLocal Open Scope N_scope.\n\n"
    body += "(* CSS_AT_RULES of output/transform.rs *)\nDefinition css_at_rules : list (list N) :=\n  [" + ";\n   ".join(nb(n) for n in names) + "].\n\n"
    body += "(* the names is_flat_rule (output/cssdest.rs) accepts *)\nDefinition flat_rules : list (list N) :=\n  [" + "; ".join(nb(n) for n in flat) + "].\n"
    return emit("AtNames", src + ", " + src2, body)
