"""Gen/Builtins.v: the built-in function tables of rsass/src/sass/functions/**.rs:
* module_defs   - every def!/def_va!/def_adj! executed while a `sass:` module scope is built
                  (create_module / register), in definition order;
* local_defs    - definitions into a scratch scope inside an `expose` function;
* global_events - the sequence of insertions into the global FUNCTIONS map, in execution order
                  (clone of a module function, clone of a scratch-scope function, direct definition).
Anything touching `global` / a scope in a way the scanner does not know is a GenError."""
from rs2v import *
import os

BASE = "rsass/src/sass/functions"


def sname(n):
    return n.replace("_", "-")


def _file_of(mod_ident, cur_rel):
    """resolve `ident::` used in file cur_rel to a source file (relative to BASE)."""
    d = os.path.dirname(cur_rel)
    stem = os.path.basename(cur_rel)[:-3]
    cands = []
    if stem == "mod":
        cands += [os.path.join(d, mod_ident + ".rs"), os.path.join(d, mod_ident, "mod.rs")]
    else:
        cands += [os.path.join(d, stem, mod_ident + ".rs"), os.path.join(d, stem, mod_ident, "mod.rs")]
    for c in cands:
        if os.path.exists(os.path.join(REPO, BASE, c)):
            return c
    raise GenError(f"cannot resolve module `{mod_ident}` used in {cur_rel}")


_cache = {}


def _toks(rel):
    if rel not in _cache:
        _cache[rel] = toks_of(os.path.join(BASE, rel))
    return _cache[rel]


def _macro_def(toks, i):
    """toks[i] in (def, def_va, def_adj), toks[i+1] == '!', toks[i+2] == '(' ->
    (target, name, formals[(name, has_default)], va, close_index)."""
    close = match_close(toks, i + 2)
    parts = split_top(toks, i + 3, close, ",")
    need(len(parts) >= 3, f"malformed {toks[i].text}! at line {toks[i].line}")
    target = text_of(toks, parts[0][0], parts[0][1])
    a = parts[1][0]
    need(toks[a].kind == "ident" and toks[a + 1].text == "(", f"malformed {toks[i].text}! signature at line {toks[i].line}")
    name = toks[a].text
    aclose = match_close(toks, a + 1)
    need(aclose + 1 == parts[1][1], f"unexpected tokens after the signature at line {toks[a].line}")
    formals = []
    for (lo, hi) in split_top(toks, a + 2, aclose, ","):
        need(toks[lo].kind == "ident", f"formal argument is not an identifier at line {toks[lo].line}")
        formals.append((toks[lo].text, hi - lo > 1))
    return target, name, formals, toks[i].text == "def_va", close


def _scan_fn(rel, fname, ctx, out):
    """Scan `fn fname` of file rel.  ctx: dict(kind='module'|'expose', url=.., scope_var=..).
    out: dict(module_defs=[], local_defs=[], events=[])"""
    toks = _toks(rel)
    b = fn_body(toks, fname)
    need(b, f"fn {fname} not found in {rel}")
    lo, hi = b
    place = f"{rel}:{fname}"
    aux = {}                  # auxiliary scopes of a module constructor: var -> [definitions]
    local_scope = None        # (var, place) of a scratch `Scope::builtin_module(..)` inside an expose fn
    module_var = None
    accounted_global = 0
    i = lo + 1
    while i < hi:
        t = toks[i]
        # let mut f = Scope::builtin_module("sass:x");
        if t.text == "let" and toks[i + 1].text == "mut" and text_of(toks, i + 3, i + 8) == "= Scope :: builtin_module (":
            var = toks[i + 2].text
            url = str_value(toks[i + 8])
            if ctx["kind"] == "module":
                need(url == ctx["url"], f"{place}: builds scope {url} while creating {ctx['url']}")
                module_var = var
            else:
                local_scope = (var, place)
            i = match_close(toks, i + 7) + 1
            continue
        if t.kind == "ident" and t.text in ("def", "def_va", "def_adj") and toks[i + 1].text == "!" and toks[i + 2].text == "(":
            target, name, formals, va, close = _macro_def(toks, i)
            rec = (sname(name), [(sname(n), d) for n, d in formals], va)
            if ctx["kind"] == "module" and target in aux:
                aux[target].append(rec)
            elif ctx["kind"] == "module":
                need(target == (module_var or ctx.get("param")), f"{place}: definition into `{target}` while building a module")
                out["module_defs"].append((ctx["url"], rec))
            else:
                if target == "global":
                    accounted_global += 1
                    out["events"].append(("def", f"global:{place}", rec))
                elif local_scope and target == local_scope[0]:
                    out["local_defs"].append((f"local:{local_scope[1]}", rec))
                else:
                    raise GenError(f"{place}: definition into unknown target `{target}`")
            i = close + 1
            continue
        # let mut g = Scope::new_global(..);  ...  f.expose_star(&g);   (functions defined in an anonymous scope, then copied)
        if ctx["kind"] == "module" and t.text == "let" and toks[i + 1].text == "mut" \
                and text_of(toks, i + 3, i + 8) == "= Scope :: new_global (":
            aux[toks[i + 2].text] = []
            i = match_close(toks, i + 7) + 1
            continue
        if ctx["kind"] == "module" and t.text == (module_var or ctx.get("param")) and text_of(toks, i + 1, i + 4) == ". expose_star (":
            need(toks[i + 4].text == "&" and toks[i + 5].text in aux and toks[i + 6].text == ")", f"{place}: unexpected expose_star")
            for rec in aux.pop(toks[i + 5].text):
                out["module_defs"].append((ctx["url"], rec))
            i += 7
            continue
        # for (gname, lname) in &[ (name!(a), name!(b)), .. ] { global.insert(gname.clone(), SRC.get_lfunction(lname)); }
        if t.text == "for" and text_of(toks, i + 1, i + 9) == "( gname , lname ) in & [":
            need(ctx["kind"] == "expose", f"{place}: expose loop outside an expose function")
            aclose = match_close(toks, i + 8)
            pairs = []
            for (plo, phi) in split_top(toks, i + 9, aclose, ","):
                txt = text_of(toks, plo, phi)
                ids = [x.text for x in toks[plo:phi] if x.kind == "ident"]
                need(len(ids) == 4 and ids[0] == "name" and ids[2] == "name" and
                     txt == f"( name ! ( {ids[1]} ) , name ! ( {ids[3]} ) )", f"{place}: unexpected expose pair `{txt}`")
                pairs.append((ids[1], ids[3]))
            blk = block_after(toks, aclose)
            btxt = text_of(toks, blk[0], blk[1] + 1)
            import re
            m = re.fullmatch(r"\{ global \. insert \( gname \. clone \( \) , (\w+) \. get_lfunction \( lname \) \) ; \}", btxt)
            need(m, f"{place}: unexpected expose loop body `{btxt}`")
            src = m.group(1)
            if src == ctx.get("param_m"):
                origin = ctx["url"]
            elif local_scope and src == local_scope[0]:
                origin = f"local:{local_scope[1]}"
            else:
                raise GenError(f"{place}: expose loop reads from unknown scope `{src}`")
            for g, l in pairs:
                out["events"].append(("from", origin, sname(g), sname(l)))
            accounted_global += 1
            i = blk[1] + 1
            continue
        # global.insert(name!(g), m.get_lfunction(&name!(l)));
        if t.text == "global" and text_of(toks, i + 1, i + 4) == ". insert (":
            close = match_close(toks, i + 3)
            txt = text_of(toks, i + 4, close)
            import re
            m = re.fullmatch(r"name ! \( (\w+) \) , (\w+) \. get_lfunction \( & name ! \( (\w+) \) \)", txt)
            if m:
                g, src, l = m.groups()
            else:
                # let name = name!(x); let f = f.get_lfunction(&name); global.insert(name, f);
                back = text_of(toks, i - 20, i)
                m2 = re.fullmatch(r"let name = name ! \( (\w+) \) ; let (\w+) = (\w+) \. get_lfunction \( & name \) ;", back)
                need(m2 and txt == f"name , {m2.group(2)}", f"{place}: unexpected global.insert({txt})")
                g, src, l = m2.group(1), m2.group(3), m2.group(1)
            if src == ctx.get("param_m") and not (local_scope and src == local_scope[0]):
                origin = ctx["url"]
            elif local_scope and src == local_scope[0]:
                origin = f"local:{local_scope[1]}"
            else:
                raise GenError(f"{place}: global.insert reads from unknown scope `{src}`")
            out["events"].append(("from", origin, sname(g), sname(l)))
            accounted_global += 1
            i = close + 1
            continue
        # sub::expose(m, global); / sub::global(global); / sub::register(&mut f);
        if t.kind == "ident" and toks[i + 1].text == "::" and toks[i + 2].kind == "ident" and toks[i + 3].text == "(" \
                and (toks[i + 2].text in ("expose", "global", "register")
                     or text_of(toks, i + 4, i + 6) == "& mut"):
            close = match_close(toks, i + 3)
            args = text_of(toks, i + 4, close)
            sub = _file_of(t.text, rel)
            fn2 = toks[i + 2].text
            if args.startswith("& mut"):
                need(ctx["kind"] == "module" and args == f"& mut {module_var or ctx.get('param')}", f"{place}: unexpected {fn2}({args})")
                _scan_fn(sub, fn2, dict(kind="module", url=ctx["url"], param=_param_name(sub, fn2, 0)), out)
            elif fn2 == "expose":
                need(ctx["kind"] == "expose" and args == f"{ctx['param_m']} , global", f"{place}: unexpected expose({args})")
                _scan_fn(sub, "expose", dict(kind="expose", url=ctx["url"], param_m=_param_name(sub, "expose", 0)), out)
                accounted_global += 1
            else:
                need(ctx["kind"] == "expose" and args == "global", f"{place}: unexpected global({args})")
                _scan_fn(sub, "global", dict(kind="expose", url=ctx["url"], param_m=None), out)
                accounted_global += 2      # the function is itself called `global`
            i = close + 1
            continue
        if ctx["kind"] == "module" and t.kind == "ident" and t.text == (module_var or ctx.get("param")):
            ok = (text_of(toks, i - 2, i) == "let mut" or text_of(toks, i + 1, i + 4) in (". define (", ". define_mixin (")
                  or i + 1 == hi)
            need(ok, f"{place}: the module scope `{t.text}` is used in a way the scanner does not know (line {t.line})")
        i += 1
    if ctx["kind"] == "expose":
        n_global = sum(1 for x in toks[lo:hi] if x.text == "global")
        need(n_global == accounted_global, f"{place}: {n_global} uses of `global`, only {accounted_global} understood")
    else:
        need(not aux, f"{place}: auxiliary scope(s) {sorted(aux)} never copied into the module")
        for x in toks[lo:hi]:
            need(x.text not in ("builtin_fn", "define_function"), f"{place}: direct {x.text} call is not modelled")


def _param_name(rel, fname, k):
    toks = _toks(rel)
    i = find_seq(toks, ["fn", fname, "("])
    need(i >= 0, f"fn {fname} not found in {rel}")
    close = match_close(toks, i + 2)
    parts = split_top(toks, i + 3, close, ",")
    need(k < len(parts), f"fn {fname} in {rel} has too few parameters")
    return toks[parts[k][0]].text


def extract():
    """-> (mods [(url, rust module ident)], out dict(module_defs, local_defs, events))"""
    _cache.clear()
    out = {"module_defs": [], "local_defs": [], "events": []}
    mt = _toks("mod.rs")
    # static MODULES: modules.insert("sass:x", x::create_module());
    i = find_seq(mt, ["static", "MODULES"])
    need(i >= 0, "static MODULES not found")
    k = find_seq(mt, ["LazyLock", "::", "new", "("], i)
    need(k >= 0, "MODULES initialiser not found")
    blk = block_after(mt, k + 4)
    need(blk, "MODULES initialiser block not found")
    mods = []
    for j in find_all_seq(mt, ["modules", ".", "insert", "("], blk[0], blk[1]):
        close = match_close(mt, j + 3)
        need(mt[j + 4].kind == "str" and text_of(mt, j + 5, close) == f", {mt[j + 6].text} :: create_module ( )",
             "unexpected MODULES entry")
        mods.append((str_value(mt[j + 4]), mt[j + 6].text))
    need(mods, "no built-in modules found")
    for url, ident in mods:
        rel = _file_of(ident, "mod.rs")
        _scan_fn(rel, "create_module", dict(kind="module", url=url), out)
    # static FUNCTIONS
    i = find_seq(mt, ["static", "FUNCTIONS"])
    need(i >= 0, "static FUNCTIONS not found")
    k = find_seq(mt, ["LazyLock", "::", "new", "("], i)
    blk = block_after(mt, k + 4)
    lo, hi = blk
    need(text_of(mt, lo + 1, lo + 8) == "let mut f = BTreeMap :: new", "unexpected start of FUNCTIONS")
    j = lo + 1
    seen_exposes = 0
    while j < hi:
        t = mt[j]
        if t.kind == "ident" and t.text in ("def", "def_va") and mt[j + 1].text == "!":
            target, name, formals, va, close = _macro_def(mt, j)
            need(target == "f", "FUNCTIONS: definition into unknown target")
            out["events"].append(("def", "global:mod.rs:FUNCTIONS", (sname(name), [(sname(n), d) for n, d in formals], va)))
            j = close + 1
            continue
        if t.kind == "ident" and mt[j + 1].text == "::" and mt[j + 2].text == "expose":
            close = match_close(mt, j + 3)
            txt = text_of(mt, j + 4, close)
            import re
            m = re.fullmatch(r'MODULES \. get \( ("sass:\w+") \) \. unwrap \( \) , & mut f', txt)
            need(m, f"FUNCTIONS: unexpected expose({txt})")
            url = m.group(1)[1:-1]
            need((url, t.text) in mods, f"FUNCTIONS: {t.text}::expose gets module {url}")
            rel = _file_of(t.text, "mod.rs")
            _scan_fn(rel, "expose", dict(kind="expose", url=url, param_m=_param_name(rel, "expose", 0)), out)
            seen_exposes += 1
            j = close + 1
            continue
        j += 1
    need(seen_exposes == len(mods), f"FUNCTIONS: {seen_exposes} expose calls for {len(mods)} modules")
    n_f = sum(1 for x in mt[lo:hi] if x.text == "f")
    n_def = sum(1 for e in out["events"] if e[0] == "def" and e[1] == "global:mod.rs:FUNCTIONS")
    need(n_f == 2 + n_def + seen_exposes, "FUNCTIONS: the global map is used in a way the scanner does not know")
    return mods, out


def generate():
    mods, out = extract()

    def frm(fs):
        return "[" + "; ".join(f"({qs(n)}, {'true' if d else 'false'})" for n, d in fs) + "]"

    def rec(r):
        return f"({qs(r[0])}, ({frm(r[1])}, {'true' if r[2] else 'false'}))"

    body = "From Coq Require Import String List.\nImport ListNotations.\nLocal Open Scope string_scope.\n\n"
    body += "(* a definition: (function name, (formal parameters (name, has default), variadic def_va!)) *)\n"
    body += "Definition fdef : Type := (string * (list (string * bool) * bool))%type.\n\n"
    body += "Definition builtin_modules : list string := [" + "; ".join(qs(u) for u, _ in mods) + "].\n\n"
    body += "(* (module url, definition), in definition order *)\nDefinition module_defs : list (string * fdef) :=\n  [" + \
            ";\n   ".join(f"({qs(u)}, {rec(r)})" for u, r in out["module_defs"]) + "].\n\n"
    body += "(* (scratch scope, definition) *)\nDefinition local_defs : list (string * fdef) :=\n  [" + \
            ";\n   ".join(f"({qs(u)}, {rec(r)})" for u, r in out["local_defs"]) + "].\n\n"
    body += ("Inductive gevent : Type :=\n| GFrom (scope : string) (gname lname : string)   (* global.insert(gname, scope.get_lfunction(lname)) *)\n"
             "| GDef (place : string) (d : fdef).                (* def!(global, ..) *)\n\n")
    evs = []
    for e in out["events"]:
        if e[0] == "from":
            evs.append(f"GFrom {qs(e[1])} {qs(e[2])} {qs(e[3])}")
        else:
            evs.append(f"GDef {qs(e[1])} {rec(e[2])}")
    body += "(* insertions into the global function map, in execution order *)\nDefinition global_events : list gevent :=\n  [" + \
            ";\n   ".join(evs) + "].\n"
    return emit("Builtins", BASE + "/**.rs", body)
