#!/bin/sh
# setup_cmd: build the whole Coq development and the harness from files on disk only.
cd "$(dirname "$0")" || exit 2
export CARGO_NET_OFFLINE=true
python3 - <<'PY'
import sys, os
sys.path.insert(0, "kit"); sys.path.insert(0, "gen")
from common import *
import rs2v
rs2v._load_plugins()
errs = rs2v.generate(list(rs2v.GENERATORS))
for n, e in errs:
    print("GEN-ERROR", n, e)
coq_project()
ok, log_ = coq_make([], timeout=7000)
print("coq build:", "ok" if ok else "FAILED")
if not ok:
    print(log_[-3000:])
ok2, msg = build_harness()
print("harness:", msg if ok2 else "FAILED " + msg)
sys.exit(0 if (ok and ok2) else 1)
PY
