"""C38 - Library entry points agree with each other."""
import hashlib, os
from common import *
import sheetgen

ID = "C38"
GEN = ["Entry"]
THEOREMS = ["C38_scss", "C38_path_tree", "C38_for_path_tree", "C38_value_tree", "C38_path_pipeline_partial"]
COQ_HEADER = ("From Coq Require Import String List ZArith NArith.\nFrom RV Require Import Run.C38.\n"
              "Import ListNotations.")
RUN_EXPR = "Run.C38.run"
RULE = ("generated stylesheets (valid and failing, only sass: modules loaded) x {expanded, compressed} x precision 0..12: "
        "compile_scss vs the documented composition, compile_scss_path on a file holding the same bytes vs compile_scss; "
        "value expressions: compile_value vs the value printed by `x{y:V}`; every entry point also vs its extracted call "
        "tree spelled out by the harness; distinct = distinct (kind, source, format)")
EXHAUSTIVE = {"quick": False, "thorough": False}
TRUSTED = ["Spec/EntryDocs.v: the documented compositions (from the lib.rs doc comments and the property text)",
           "harness commands ctx / path / valuetree spell the compositions out with the public API",
           "errors of compile_scss_path and compile_scss are compared by their first line (the rest names the file)"]
ASSUMPTIONS = ["files are written under .work/tmp/c38 and load nothing relative",
               "a value is 'valid CSS' when `x{y:V}` compiles and prints the declaration on one line"]

STYLES = ["expanded", "compressed"]


def tmpdir():
    d = os.path.join(WORK, "tmp", "c38")
    os.makedirs(d, exist_ok=True)
    return d


def file_for(src):
    h = hashlib.sha256(src.encode()).hexdigest()[:16]
    d = os.path.join(tmpdir(), h)
    os.makedirs(d, exist_ok=True)
    p = os.path.join(d, "in.scss")
    if not os.path.exists(p):
        with open(p, "w", encoding="utf-8") as f:
            f.write(src)
    return p


def gen_cases(ctx, tier):
    rng = ctx.rng
    n = 260 if tier == "quick" else 2500
    cases = []
    corpus = ["a{b:c}", "", "a{b:1/3}", "@use \"sass:math\"; a{b:math.div(1,3)}", "a{b:$x}", "a{", "a{b:(1/3)*1em}",
              "/* c */\na{b:c}\n", "a{b:\"é\"}", "@charset \"utf-8\"; a{b:c}"]
    for src in corpus:
        for st in STYLES:
            cases.append({"kind": "scss", "src": src, "style": st, "prec": 10})
            cases.append({"kind": "path", "src": src, "style": st, "prec": 5})
    for i in range(n):
        bad = rng.choice([0.0, 0.0, 0.0, 0.15, 0.4])
        src = sheetgen.gen_sheet(rng, bad)
        st = rng.choice(STYLES)
        prec = rng.randint(0, 12)
        cases.append({"kind": rng.choice(["scss", "path", "path"]), "src": src, "style": st, "prec": prec})
    vals = sheetgen.VALUES + sheetgen.BAD_VALUES
    for v in vals:
        if "$v" in v or "math." in v or "string." in v:
            continue
        for st in STYLES:
            cases.append({"kind": "value", "src": v, "style": st, "prec": rng.choice([0, 1, 3, 5, 10, 12])})
    for i in range(n // 2):
        v = rng.choice(vals)
        if "$v" in v or "math." in v or "string." in v:
            continue
        if rng.random() < 0.4:
            v = v + rng.choice([" ", ", ", " + ", " * "]) + rng.choice(sheetgen.VALUES[:16])
        cases.append({"kind": "value", "src": v, "style": rng.choice(STYLES), "prec": rng.randint(0, 12)})
    return cases


def search_cases(ctx, broken):
    class C:
        pass
    c = C()
    c.rng = ctx.rng
    return gen_cases(c, "quick")


def impl_requests(c):
    st, pr = c["style"], str(c["prec"])
    if c["kind"] == "scss":
        return [("scss", st, pr, c["src"]), ("ctx", st, pr, c["src"])]
    if c["kind"] == "path":
        p = file_for(c["src"])
        return [("scsspath", st, pr, p), ("path", st, pr, p), ("scss", st, pr, c["src"])]
    return [("value", st, pr, c["src"]), ("valuetree", st, pr, c["src"]), ("scss", st, pr, "x{y:" + c["src"] + "}")]


def res_term(o):
    tag, f = o
    if tag == "ok":
        return f"(ROk {cbytes(f[0])})"
    if tag == "err":
        return f"(RErr {cbytes(f[0])})"
    return "RBad"


def coq_term(c, io):
    rs = " ".join(res_term(o) for o in io)
    if c["kind"] == "scss":
        return f"(OScss {rs})"
    if c["kind"] == "path":
        return f"(OPath {rs})"
    return f"(OValue {cbool(c['style'] == 'compressed')} {rs})"


def judge(c, io, r):
    corr, scss, path, value, nontriv, ok = r
    return {
        "corr": corr == 1,
        "clauses": [("compile_scss", scss == 1, None), ("compile_scss_path", path == 1, None), ("compile_value", value == 1, None)],
        "nontrivial": nontriv == 1,
        "tags": [c["kind"], c["style"], "ok" if ok else "err"],
        "show": f"{c['kind']} {c['style']} p{c['prec']}: {c['src'][:120]!r}",
        "detail": c["src"],
    }


def shrink(c):
    src = c["src"]
    if c["kind"] == "value":
        parts = src.split(" ")
        for i in range(len(parts)):
            s = " ".join(parts[:i] + parts[i + 1:])
            if s:
                yield dict(c, src=s)
        return
    lines = src.split("\n")
    for i in range(len(lines)):
        s = "\n".join(lines[:i] + lines[i + 1:])
        if s != src:
            yield dict(c, src=s)
    if c["prec"] != 10:
        yield dict(c, prec=10)


LEVEL_TEXT = ("proof: the bodies of compile_scss / compile_scss_path / compile_value / FsContext::for_path, regenerated from "
              "lib.rs and context.rs as call-tree terms, are run by a small interpreter in which every library function is an "
              "arbitrary function; for all inputs and all libraries they compute exactly the documented compositions "
              "(compile_scss = transform(with_format(for_cwd(), f), scss_bytes(b, root(\"-\")))); partial: that transform does not "
              "depend on the root name / base directory when nothing relative is loaded, and that compile_value prints what a "
              "declaration prints, is established by the differential check only")
LEVEL_NOTE = ("trusted: Coq kernel, gen/gens/Entry.py (mini Rust expression parser), Model/Entry.v interpreter, the harness, "
              "Spec/EntryDocs.v")
TECHNIQUE = "Coq proof (symbolic execution of extracted call trees against documented compositions, all libraries) + translator + differential correspondence"
