"""Small generator of SCSS stylesheets and value expressions shared by C38 / C40 / C05
(valid and failing inputs; nothing here calls random() or unique-id())."""

IDENTS = ["a", "b", "c", ".x", ".y", "#m", "div", "p > q", "h1, h2", "&:hover", "& + &", ".k-#{1 + 1}"]
PROPS = ["color", "width", "margin", "padding", "content", "z-index", "font", "--v"]
VALUES = [
    "1", "1px", "1.5em", "10%", "0.333333333333", "1 / 3", "(1 / 3)", "math.div(1, 3)", "1px + 2px", "2 * 3em", "10px - 3",
    "(7 / 3) * 1px", "1e3", "1.23456789012345", "-0.000001", "100000000000000000000", "red", "#abc", "#AABBCC", "rgba(1, 2, 3, 0.5)",
    "hsl(120, 50%, 40%)", "lighten(red, 10%)", "mix(red, blue)", "a b c", "a, b, c", "(a b) (c d)", "[a, b]", '"quoted"', "'single'",
    "unquoted-ident", '"a" + b', "str-length(\"abc\")", "to-upper-case(abc)", "nth(a b c, 2)", "length(1 2 3)", "join(a b, c d, comma)",
    "map-get((k: v), k)", "if(true, yes, no)", "not true", "1 < 2", "1 == 1px", "null", "true", "calc(1px + 2%)", "calc(1px + 2px)",
    "min(1px, 2px)", "max(1, 2, 3)", "percentage(0.25)", "round(2.5)", "ceil(1.2px)", "abs(-3)", "url(foo.png)", "a/b", "1/2/3",
    "math.$pi", "math.sqrt(2)", "math.pow(2, 10)", "string.index(\"abc\", \"c\")", "$v", "$v * 2", "#{$v}px", "\"#{1 + 1}x\"",
    "foo(1px, $b: 2)", "translate($x: 1px)", "foo($a: 1, $b: c)", "bar(a b, $k: \"q\")", "baz(1,)", "foo(bar($x: 1))",
    "foo(1px + 1px, $b: 1 + 1)", "var(--c, )", "-x-fn(1, $y: 2px)", "foo(a, b)", "foo()",
    "inspect((a: 1, b: 2))", "type-of(1px)", "unit(3em)", "unitless(3)", "comparable(1px, 1in)", "1in + 1px", "1cm + 1mm",
]
BAD_VALUES = ["$undefined", "1px + 1s", "nth(a b, 5)", "map-get(1, k)", "math.div(1px)", "1 +", "(", "foo(", "#{", "1 % 0 %",
              "str-slice(1, 2)", "lighten(1, 2)", "math.nope(1)", "@", "}"]


def gen_value(rng, bad=0.0):
    if rng.random() < bad:
        return rng.choice(BAD_VALUES)
    return rng.choice(VALUES)


def gen_block(rng, depth, bad):
    lines = []
    for _ in range(rng.randint(1, 3)):
        r = rng.random()
        if r < 0.55 or depth >= 3:
            lines.append(f"{rng.choice(PROPS)}: {gen_value(rng, bad)};")
        elif r < 0.7:
            lines.append(f"$v: {gen_value(rng, bad)};")
        elif r < 0.8:
            lines.append(f"@if {rng.choice(['true', 'false', '$v == 1', '1 < 2'])} {{ {gen_block(rng, depth + 1, bad)} }}")
        elif r < 0.86:
            lines.append(f"@each $i in a, b {{ .e-#{{$i}} {{ {rng.choice(PROPS)}: $i; }} }}")
        elif r < 0.9:
            lines.append(f"@media (min-width: {rng.randint(1, 9)}00px) {{ {gen_block(rng, depth + 1, bad)} }}")
        elif r < 0.93:
            lines.append(f"/* c{rng.randint(0, 9)} */")
        else:
            lines.append(f"{rng.choice(IDENTS)} {{ {gen_block(rng, depth + 1, bad)} }}")
    return " ".join(lines)


def gen_sheet(rng, bad=0.0, allow_broken_syntax=True):
    """A stylesheet that loads nothing relative (only sass: modules)."""
    parts = ['@use "sass:math";', '@use "sass:string";']
    if rng.random() < 0.3:
        parts.append('@use "sass:map";')
    parts.append(f"$v: {rng.choice(['1', '2px', 'red', '3', 'abc'])};")
    if rng.random() < 0.3:
        parts.append("@function dbl($x) { @return $x * 2; }")
    if rng.random() < 0.3:
        parts.append("@mixin mx($c: blue) { border-color: $c; }")
    for _ in range(rng.randint(1, 4)):
        sel = rng.choice([s for s in IDENTS if "&" not in s])
        body = gen_block(rng, 1, bad)
        if "@mixin mx" in " ".join(parts) and rng.random() < 0.4:
            body += " @include mx;"
        parts.append(f"{sel} {{ {body} }}")
    src = "\n".join(parts) + "\n"
    if allow_broken_syntax and bad > 0 and rng.random() < bad / 2:
        k = rng.randint(0, len(src) - 1)
        src = src[:k] + rng.choice(["{", "}", ";", "@", "(", "\"", "#{"]) + src[k + 1:]
    return src
