"""C12 - Equality is symmetric and consistent with ordering."""
import struct
from common import *

ID = "C12"
GEN = ["Units"]
THEOREMS = ["C12_neq", "C12_refl", "C12_refl_number", "C12_string_eq_sym", "C12_number_eq_sym", "C12_numeric_eq_sym", "C12_sym",
            "C12_numeric_eq_sym_units", "C12_sym_general", "C12_trichotomy", "C12_refuted_trichotomy_calc",
            "C12_refuted_trichotomy_unitless"]
COQ_HEADER = ("From Coq Require Import String List ZArith NArith Bool.\n"
              "From RV Require Import Model.Numeric Model.CssStr Model.ValueEq Run.C12.\nImport ListNotations.\n"
              "Local Open Scope string_scope.\nLocal Open Scope Z_scope.")
RUN_EXPR = "Run.C12.run"
RULE = ("ordered pairs (a, b) of generated SassScript values: numbers (0..4 ulp apart, near 0/1/powers of ten, "
        "with/without units, calc() results, NaN, infinities), strings in both quote styles, booleans, null, "
        "lists (space/comma/bracketed/nested/empty), maps (incl. empty, reordered), colours in several notations and "
        "the same / nearly the same colour in every pair of internal forms (hwb-form, hsl-form, rgb-form with "
        "non-integer channels, with alpha), "
        "function references; b is an independent value or a small perturbation of a; each pair is evaluated as "
        "a==b, b==a, a!=b, a<b, a>b, a==a; distinct = distinct pair text; non-trivial = a and b have the same kind")
EXHAUSTIVE = {"quick": False, "thorough": False}
TRUSTED = ["Spec/CssUnits.v same_group: which units can be compared",
           "strings: Model/CssStr.v (css_eq / css_unquote, shared with C27); the stored value and quotes of every string operand are read from rsass's introspection text of that operand (text between the quotes = stored value; valid because the generated strings contain no quote characters and no private-use code points); colours and function values are outside the model (clauses are still checked on the implementation's answers)",
           "the `calculated` flag of an operand inside a comparison is taken from the operand's syntactic kind (literal / parenthesised arithmetic: true; calc(): false), validated by the correspondence on < and >"]
ASSUMPTIONS = ["symmetry is proved for values (maps with at most one entry) whose numbers are unitless, carry equal unit sets or single known units; for unknown / compound units that differ and for maps with two or more entries (first-match lookup over a non-transitive equality) it is checked on rsass's answers only",
               "map comparisons involving numbers with two different units are outside the model (the model evaluates the inner comparisons left-to-right, the code right-to-left)"]


def bits(x):
    return struct.unpack(">Q", struct.pack(">d", x))[0]


def fl(b):
    return struct.unpack(">d", struct.pack(">Q", b))[0]


def num_text(x):
    r = repr(float(x))
    if r.endswith(".0"):
        r = r[:-2]
    return r


BASES = [1.0, 0.1, 100.0, 3.3, 1e10, 1e-3, 123456.789, 0.5, 2.0, 96.0, 2.54, 0.3, 7.0, 1000.0, 0.7]
UNITS = ["", "", "", "px", "in", "cm", "s", "ms", "%", "em", "deg", "foo"]


def num_leaf(rng, x=None, unit=None):
    if x is None:
        x = rng.choice(BASES)
        if rng.random() < 0.5:
            x = fl(bits(x) + rng.randrange(-4, 5))
    if unit is None:
        unit = rng.choice(UNITS)
    return ("num", num_text(x) + unit, True)


SPECIAL_NUMS = [("num", "calc(1)", False), ("num", "(0.5+0.5)", True), ("num", "calc(1px)", False),
                ("num", "(0/0)", True), ("num", "(1/0)", True), ("num", "0", True), ("num", "(0*-1)", True),
                ("num", "1e400", True), ("num", "calc(0.5 + 0.5)", False)]
# string operands by SOURCE text; each group spells the same text (escape-free / with an escape kept in the stored
# value: escaped hyphen, space, backslash, control character / the other quote style)
SGROUPS = [["a", '"a"', "'a'"], ["b", '"b"'], ["ab", '"ab"'], ['""'],
           ["a-b", '"a-b"', '"a\\-b"', "'a-b'", 'unquote("a-b")'],
           ['unquote("a b")', '"a b"', '"a\\ b"'],
           ['"a\\\\b"', 'unquote("a\\\\b")'],
           ['"a\\a b"', 'unquote("a\\a b")'],
           ['"x\\-y\\ z"', 'unquote("x-y z")', '"x-y z"']]
STRS = [("sraw", t) for g in SGROUPS for t in g]


def same_text(rng, v):
    for g in SGROUPS:
        if v[1] in g:
            return ("sraw", rng.choice(g))
    return v
OTHERS = [("other", "red"), ("other", "#f00"), ("other", "rgb(255, 0, 0)"), ("other", "hsl(0, 100%, 50%)"),
          ("other", "blue"), ("other", "rgba(255, 0, 0, 0.5)"), ("other", "get-function(\"abs\")"),
          ("other", "hwb(0 0% 0%)"), ("other", "rgb(255, 0, 0.00000001)"),
          ("othernan", "hsl((0/0), 100%, 50%)"), ("othernan", "hwb((0/0) 0% 0%)")]
ATOMS = [("null",), ("true",), ("false",)]


def gen_value(rng, depth=0, in_list=False):
    r = rng.random()
    if r < 0.4:
        return num_leaf(rng)
    if r < 0.47 and not in_list:
        return rng.choice(SPECIAL_NUMS)
    if r < 0.6:
        return rng.choice(STRS)
    if r < 0.68:
        return rng.choice(ATOMS)
    if r < 0.76:
        return rng.choice(OTHERS)
    if depth >= 2:
        return num_leaf(rng)
    if r < 0.92:
        n = rng.choice([0, 2, 2, 3, 1])
        sep = rng.choice([1, 2])
        br = rng.random() < 0.25
        if n == 0:
            sep = 0
        if n == 1:
            sep = 2 if not br else rng.choice([2])
        return ("list", [gen_value(rng, depth + 1, True) for _ in range(n)], sep, br)
    n = rng.choice([0, 1, 2, 2])
    keys = rng.sample(["a", "b", "c", "d"], n)
    return ("map", [(("sraw", k), gen_value(rng, depth + 1, True)) for k in keys])


def perturb(rng, v):
    k = v[0]
    if k == "num":
        if v in SPECIAL_NUMS:
            return rng.choice(SPECIAL_NUMS + [("num", "1", True), ("num", "1px", True)])
        txt = v[1]
        i = len(txt)
        while i > 0 and not (txt[i - 1].isdigit() or txt[i - 1] == "."):
            i -= 1
        x, u = float(txt[:i]), txt[i:]
        c = rng.random()
        if c < 0.6:
            return ("num", num_text(fl(bits(x) + rng.choice([-3, -2, -1, 1, 1, 2, 3, 4])) if x > 0 else 0.0) + u, True)
        if c < 0.8:
            return ("num", num_text(x) + rng.choice(UNITS), True)
        if c < 0.9 and x == 1.0:
            return rng.choice(SPECIAL_NUMS)
        return ("num", num_text(x * rng.choice([1 + 2.0**-52, 1 - 2.0**-52, 1 + 2.0**-51, 2.0])) + u, True)
    if k == "sraw":
        return same_text(rng, v) if rng.random() < 0.7 else rng.choice(STRS)
    if k == "list":
        items, sep, br = list(v[1]), v[2], v[3]
        c = rng.random()
        if items and c < 0.5:
            j = rng.randrange(len(items))
            items[j] = perturb(rng, items[j])
        elif c < 0.65 and len(items) >= 2:
            sep = 3 - sep
        elif c < 0.8:
            br = not br
        elif items and c < 0.9 and len(items) > 2:
            items = items[:-1]
        else:
            return ("map", [])
        return ("list", items, sep, br)
    if k == "map":
        kv = list(v[1])
        c = rng.random()
        if kv and c < 0.5:
            j = rng.randrange(len(kv))
            kv[j] = (kv[j][0], perturb(rng, kv[j][1]))
        elif len(kv) >= 2 and c < 0.7:
            kv = kv[::-1]
        elif len(kv) >= 1 and c < 0.85:
            kv = kv[:-1]                      # a sub-map (same entries, one fewer)
        else:
            return ("list", [], 0, False)
        return ("map", kv)
    if k in ("other", "othernan"):
        return rng.choice(OTHERS)
    return rng.choice(ATOMS)


def text(v, top=True):
    k = v[0]
    if k == "num":
        return v[1]
    if k == "sraw":
        return v[1]
    if k in ("other", "othernan"):
        return v[1]
    if k in ("null", "true", "false"):
        return k
    if k == "list":
        items, sep, br = v[1], v[2], v[3]
        o, c = ("[", "]") if br else ("(", ")")
        if not items:
            return o + c
        s = ", " if sep == 2 else " "
        body = s.join(text(i, False) for i in items)
        if len(items) == 1:
            body += ","
        return o + body + c
    if k == "map":
        if not v[1]:
            return "map-remove((a: 1), a)"
        return "(" + ", ".join(text(a, False) + ": " + text(b, False) for a, b in v[1]) + ")"
    raise ValueError(v)


def num_leaves(v, out):
    k = v[0]
    if k in ("num", "sraw"):
        out.append(v[1])
    elif k == "list":
        for i in v[1]:
            num_leaves(i, out)
    elif k == "map":
        for a, b in v[1]:
            num_leaves(a, out)
        for a, b in v[1]:
            num_leaves(b, out)
    return out


CORPUS = [(("num", "1", True), ("num", "0.9999999999999998", True)),
          (("num", "0.9999999999999998", True), ("num", "1", True)),
          (("num", "calc(1)", False), ("num", "1", True)),
          (("num", "1", True), ("num", "calc(1)", False)),
          (("num", "1px", True), ("num", "1", True)),
          (("num", "1", True), ("num", "1px", True)),
          (("num", "1in", True), ("num", "96px", True)),
          (("num", "96px", True), ("num", "1in", True)),
          (("num", "(0/0)", True), ("num", "(0/0)", True)),
          (("num", "0", True), ("num", "0", True)),
          (("num", "(1/0)", True), ("num", "(1/0)", True)),
          (("num", "1px", True), ("num", "1s", True)),
          (("list", [], 0, False), ("map", [])),
          (("map", []), ("list", [], 0, False)),
          (("list", [], 0, True), ("map", [])),
          (("sraw", '"a"'), ("sraw", "a")),
          (("sraw", "a-b"), ("sraw", '"a\\-b"')), (("sraw", '"a\\-b"'), ("sraw", "a-b")),
          (("sraw", 'unquote("a b")'), ("sraw", '"a\\ b"')), (("sraw", '"a\\ b"'), ("sraw", 'unquote("a b")')),
          (("list", [("sraw", "a-b"), ("num", "1", True)], 1, False), ("list", [("sraw", '"a\\-b"'), ("num", "1", True)], 1, False)),
          (("list", [("num", "1", True), ("num", "2", True)], 1, False), ("list", [("num", "1", True), ("num", "2", True)], 2, False)),
          (("list", [("num", "1", True), ("num", "2", True)], 1, False), ("list", [("num", "1", True), ("num", "2", True)], 1, True)),
          (("list", [("num", "1", True), ("num", "0.9999999999999998", True)], 1, False), ("list", [("num", "0.9999999999999998", True), ("num", "1", True)], 1, False)),
          (("map", [(("sraw", "a"), ("num", "1", True)), (("sraw", "b"), ("num", "2", True))]),
           ("map", [(("sraw", "b"), ("num", "2", True)), (("sraw", "a"), ("num", "1", True))])),
          (("map", [(("sraw", "a"), ("num", "1", True))]),
           ("map", [(("sraw", "a"), ("num", "1", True)), (("sraw", "b"), ("num", "2", True))])),
          (("map", [(("sraw", "a"), ("num", "1", True)), (("sraw", "b"), ("num", "2", True))]),
           ("map", [(("sraw", "a"), ("num", "1", True))])),
          (("other", "red"), ("other", "#f00")), (("other", "red"), ("other", "hsl(0, 100%, 50%)")),
          (("null",), ("null",)), (("true",), ("false",)), (("null",), ("false",)),
          (("num", "0", True), ("num", "(0*-1)", True)),
          (("num", "3.3em", True), ("num", "3.3ex", True)),
          (("num", "2.54turn", True), ("num", "914.3999999999997deg", True)),
          (("num", "0.5s", True), ("num", "499.9999999999999ms", True)),
          (("list", [("num", "0.5s", True)], 2, False), ("list", [("num", "499.9999999999999ms", True)], 2, False))]


def fnum(x):
    t = f"{x:.12f}".rstrip("0").rstrip(".")
    return t if t not in ("", "-0") else "0"


def colour_spellings(rng):
    """the same colour written in hwb-form, hsl-form and rgb-form (non-integer rgb channels, so that rsass keeps
    the hwb / hsl internal forms), plus a nearly equal hsl colour"""
    import colorsys
    h = rng.choice([0, 30, 120, 200, 300, rng.randrange(0, 360)])
    w = rng.choice([25.5, 10.1, 50.1, 33.3, 0.5, 12.25, 40.0])
    b = rng.choice([25.5, 49.9, 10.1, 33.3, 0.5, 20.75, 30.0])
    if w + b > 100:
        w, b = 25.5, 25.5
    v, ww = 1 - b / 100, w / 100
    l = (v + ww) / 2
    s = 0.0 if l <= 0 or l >= 1 else (v - l) / min(l, 1 - l)
    r, g, bl = colorsys.hls_to_rgb(h / 360, l, s)
    sp = [f"hwb({h} {fnum(w)}% {fnum(b)}%)", f"hsl({h}, {fnum(s * 100)}%, {fnum(l * 100)}%)",
          f"rgb({fnum(r * 255)}, {fnum(g * 255)}, {fnum(bl * 255)})"]
    near = f"hsl({h}, {fnum(s * 100)}%, {fnum(l * 100 + rng.choice([1e-9, 1e-6, 0.01]))}%)"
    alpha = rng.choice([0.5, 0.25])
    spa = [f"hwb({h} {fnum(w)}% {fnum(b)}% / {alpha})", f"hsla({h}, {fnum(s * 100)}%, {fnum(l * 100)}%, {alpha})"]
    return sp, near, spa


def gen_cases(ctx, tier):
    rng = ctx.rng
    cases = [{"a": a, "b": b} for a, b in CORPUS]
    # colours in every combination of internal form, both orders (judged on rsass's answers only)
    for (x, y) in [("hwb(120 25.5% 25.5%)", "hsl(120, 49%, 50%)"), ("hwb(0 50.1% 49.9%)", "hsl(0, 0%, 50.1%)")]:
        cases.append({"a": ("other", x), "b": ("other", y)})
        cases.append({"a": ("other", y), "b": ("other", x)})
    for _ in range(30 if tier == "quick" else 600):
        sp, near, spa = colour_spellings(rng)
        for i in range(3):
            for j in range(3):
                cases.append({"a": ("other", sp[i]), "b": ("other", sp[j])})
            cases.append({"a": ("other", sp[i]), "b": ("other", near)})
            cases.append({"a": ("other", near), "b": ("other", sp[i])})
        cases.append({"a": ("other", spa[0]), "b": ("other", spa[1])})
        cases.append({"a": ("other", spa[1]), "b": ("other", spa[0])})
        cases.append({"a": ("list", [("other", sp[0]), ("num", "1", True)], 1, False),
                      "b": ("list", [("other", sp[1]), ("num", "1", True)], 1, False)})
    n = 700 if tier == "quick" else 20000
    for _ in range(n):
        a = gen_value(rng)
        b = perturb(rng, a) if rng.random() < 0.7 else gen_value(rng)
        cases.append({"a": a, "b": b})
    # number pairs at small ulp distances around several magnitudes, both orders
    for _ in range(250 if tier == "quick" else 5000):
        x = rng.choice(BASES) * rng.choice([1, 1, 3, 0.37, 1e3])
        y = fl(bits(x) + rng.randrange(-4, 5))
        u = rng.choice(UNITS)
        v = u if rng.random() < 0.7 else rng.choice(UNITS)
        cases.append({"a": ("num", num_text(x) + u, True), "b": ("num", num_text(y) + v, True)})
    # two different convertible units, magnitudes converted in python and perturbed by a few ulps
    CONV = [("in", "px", 96.0), ("in", "cm", 2.54), ("cm", "mm", 10.0), ("in", "pt", 72.0), ("pc", "px", 16.0),
            ("s", "ms", 1000.0), ("turn", "deg", 360.0), ("in", "mm", 25.4), ("cm", "px", 96 / 2.54), ("deg", "grad", 10 / 9)]
    for _ in range(250 if tier == "quick" else 5000):
        u, v, f = rng.choice(CONV)
        x = rng.choice(BASES) * rng.choice([1, 1, 3, 0.37, 7])
        y = fl(bits(x * f) + rng.randrange(-3, 4))
        a, b = ("num", num_text(x) + u, True), ("num", num_text(y) + v, True)
        cases.append({"a": a, "b": b} if rng.random() < 0.5 else {"a": b, "b": a})
    return cases


def search_cases(ctx, broken):
    rng = ctx.rng
    out = []
    for _ in range(1500):
        a = gen_value(rng)
        out.append({"a": a, "b": perturb(rng, a)})
    return out


def norm(c):
    def t(v):
        if isinstance(v, list) and v and isinstance(v[0], str):
            return tuple(t(x) for x in v)
        if isinstance(v, list):
            return [t(x) for x in v]
        if isinstance(v, tuple):
            return tuple(t(x) for x in v)
        return v
    return t(c["a"]), t(c["b"])


def impl_requests(c):
    a, b = norm(c)
    A, B = text(a), text(b)
    reqs = [("evalv", f"{A} == {B}"), ("evalv", f"{B} == {A}"), ("evalv", f"{A} != {B}"),
            ("evalv", f"{A} < {B}"), ("evalv", f"{A} > {B}"), ("evalv", f"{A} == {A}")]
    for leaf in num_leaves(a, []) + num_leaves(b, []):
        reqs.append(("evalv", leaf))
    return reqs


def ob(o):
    tag, f = o
    if tag == "ok" and f[0] == b"val" and f[1] == b"bool":
        return "(Some true)" if f[2] == b"true" else "(Some false)"
    return "None"


class Bad(Exception):
    pass


def vterm(v, leaves):
    k = v[0]
    if k == "num":
        tag, f = leaves.pop(0)
        if not (tag == "ok" and f[0] == b"num"):
            raise Bad()
        u = f[2].decode()
        if any(ch in u for ch in " */^"):
            raise Bad()
        return f"(VNum (num_of {cz(int(f[1]))} {cstring(u)}) {cbool(v[2])})", u
    if k == "sraw":
        tag, f = leaves.pop(0)
        if not (tag == "ok" and f[0] == b"val" and f[1] == b"string"):
            raise Bad()
        t = f[2].decode("utf-8")
        if len(t) >= 2 and t[0] == t[-1] and t[0] in "\"'":
            q, stored = ("QDouble" if t[0] == '"' else "QSingle"), t[1:-1]
        else:
            q, stored = "QNone", t
        if '"' in stored or "'" in stored:
            raise Bad()
        return f"(VStr (mkStr {ccps(stored)} {q}))", ""
    if k == "other":
        return "VOther", ""
    if k == "othernan":
        # a colour with a NaN channel: outside the model, and not NaN-free (reflexivity is not demanded)
        return f"(VList [VOther; VNum (num_of {cz(0x7FF8000000000000)} \"\") true] 1 false)", ""
    if k == "null":
        return "VNull", ""
    if k == "true":
        return "VTrue", ""
    if k == "false":
        return "VFalse", ""
    if k == "list":
        items = [vterm(i, leaves)[0] for i in v[1]]
        return f"(VList {clist(items)} {cz(v[2])} {cbool(v[3])})", ""
    if k == "map":
        ks = [vterm(a, leaves)[0] for a, _ in v[1]]
        vs = [vterm(b, leaves)[0] for _, b in v[1]]
        return "(VMap " + clist([f"({k}, {x})" for k, x in zip(ks, vs)]) + ")", ""
    raise ValueError(v)


def coq_term(c, io):
    a, b = norm(c)
    leaves = list(io[6:])
    try:
        ta, ua = vterm(a, leaves)
        tb, ub = vterm(b, leaves)
    except Bad:
        return None
    return (f"(mkCase {ta} {tb} {cstring(ua)} {cstring(ub)} " + " ".join(ob(o) for o in io[:6]) + ")")


K = {0: None, 2: "known_C12_K2_calc_flag", 3: "known_C12_K3_unitless_vs_unit"}


def show(c):
    a, b = norm(c)
    return f"{text(a)}  vs  {text(b)}"


def judge(c, io, r):
    a, b = norm(c)
    if r is None:
        return {"corr": None, "clauses": [], "nontrivial": False, "tags": ["skipped"], "show": show(c)}
    corr, sym, neg, refl, tri, k23 = r
    return {
        "corr": None if corr == 2 else (corr == 1),
        "clauses": [("symmetry", sym == 1, None), ("negation", neg == 1, None),
                    ("reflexivity", refl == 1, None), ("trichotomy", tri == 1, K[k23])],
        "nontrivial": a[0] == b[0],
        "tags": [a[0], "same-kind" if a[0] == b[0] else "mixed"],
        "show": show(c), "detail": show(c),
    }


LEVEL_TEXT = ("proof: css::Value equality (numbers with the symmetric relative-epsilon test and partial_cmp fallback, "
              "escape-free strings, lists, maps, booleans, null) modelled in Gallina; `!=` is the negation (all values); "
              "Number::eq is symmetric for ALL pairs of doubles (Flocq: Bminus_correct, round_NE_opp, B2R_Bsign_inj, "
              "Bcompare_swap); Numeric equality is symmetric for aligned units; every map-free value pair with aligned "
              "units compares symmetrically (structural induction); every NaN-free map-free value, and every map with "
              "pairwise distinct keys, equals itself; trichotomy of <,==,> for comparable numbers with equal calculated "
              "flags, refuted for differing flags and for unitless-vs-unit")
LEVEL_NOTE = ("trusted: Coq kernel+vm_compute, Flocq, harness, rs2v unit tables, Spec/CssUnits.v; colours/functions/escaped "
              "strings only checked on the implementation's answers; symmetry for two different convertible units and for maps only "
              "explored; known findings F18, F19 (F17 fixed in 5445670, F31 fixed in 14ede20)")
TECHNIQUE = "Coq proof (structural induction with a nested-list principle, case analysis) + differential correspondence"
