"""C01 - Compilation never panics or aborts (partial: ledger + site lemmas + exploration)."""
import os, re, sys
from common import *
import corpus as spec_corpus
sys.path.insert(0, os.path.join(VERIF, "gen"))
import rslex

ID = "C01"
GEN = ["PanicSites", "SiteShapes"]
THEOREMS = ["C01_ledger_complete", "C01_indent_shape", "C01_sites_partial_indent", "C01_indent_bounded",
            "C01_indent_exact_inside", "C01_sites_partial_nesting",
            "C01_site_texts_current", "C01_site_index_of", "C01_site_nth_list", "C01_site_nth_arglist", "C01_site_index_map_pair",
            "C01_site_enumerate_plus_one", "C01_site_zip_access", "C01_site_insert_index", "C01_site_slice_start",
            "C01_site_slice_end", "C01_site_str_index", "C01_site_deep_remove", "C01_site_guarded_index", "C01_site_conv_names",
            "C01_site_slice_full", "C01_site_do_indent_no_nl", "C01_site_call_args_len", "C01_site_opt_back"]
COQ_HEADER = "From Coq Require Import ZArith NArith List.\nFrom RV Require Import Run.C01.\nImport ListNotations."
RUN_EXPR = "Run.C01.run"
SHARD = 2000
RULE = ("(a) nesting family: depth 1..64 x 2 styles; (b) site-aimed templates with extreme numbers/indices/colours/selectors; "
        "(c) byte/token mutations and splices of the inputs embedded in rsass/tests/spec; (d) grammar-based SCSS; "
        "each compiled as SCSS (and a sample as plain CSS) with style/precision drawn from the seed, on an 8 MiB thread "
        "in a worker process; distinct = distinct (source, format, style, precision); non-trivial = compiles to CSS or "
        "reaches an error other than a parse error at offset 0")
EXHAUSTIVE = {"quick": False, "thorough": False}
TRUSTED = ["the nom parser, the evaluator and the Rust runtime stack are NOT modelled: the no-panic claim for them is exploration only",
           "Model/PanicLedger.v is the reviewed classification of the pinned tree's panic sites"]
ASSUMPTIONS = ["a panic is observed through catch_unwind in the harness; aborts and stack overflows through the worker's exit status"]
LEVEL_TEXT = ("proof (partial): the inventory of potential panic sites regenerated from rsass/src on every run is proved to be "
              "covered by the reviewed ledger (a new or edited unwrap/index/arithmetic site breaks C01_ledger_complete), and the "
              "indentation site is proved panic-free for every length (F1 fixed); the parser/evaluator/stack part of the "
              "statement is explored by generation and mutation, not proved")
LEVEL_NOTE = ("partial by nature: no Rust-to-Coq translator exists here, so panic freedom of the whole compiler is not a theorem; "
              "trusted: Coq kernel, gen/gens/PanicSites.py, the harness; the formerly known panics F1, F2, F4 are fixed in /repo; F3 (resolve_ref) is recorded by call site")
TECHNIQUE = "Coq proof of a generated panic-site ledger + site lemmas; generation/mutation exploration for the unmodelled part"

EXTREMES = ["0", "-0", "1", "-1", "0.5", "1e308", "-1e308", "1e-320", "9223372036854775807", "-9223372036854775808",
            "9223372036854775806", "4294967296", "2147483648", "18446744073709551616", "1e19", "-1e19", "255", "256", "360", "100%", "1e3px",
            "(0/0)", "(1/0)", "(-1/0)", "math.div(1,0)", "math.div(0,0)"]
SMALL = ["2", "3", "4", "5", "6", "-2", "-3", "-4", "-5", "-6"]
SPECIAL = list("{}()[]#&@:;,.\"'\\/*!%+-$~>^=|_ \n") + ["#{", "/*", "*/", "//", "&-", "&b", "@at-root", "!important", "\\", "\\0", "\\10ffff ", "url(", "calc(", "var(--"]

TEMPLATES = [
    "@for $i from {a} through {b} {{ a {{ b: $i }} }}",
    "@for $i from {a} to {b} {{ a {{ b: $i }} }}",
    "a {{ b: nth(1 2 3, {a}) }}", "a {{ b: set-nth(1 2 3, {a}, x) }}",
    "a {{ b: str-slice(\"abc\", {a}, {b}) }}", "a {{ b: str-insert(\"abc\", \"x\", {a}) }}", "a {{ b: str-index(\"abc\", \"{a}\") }}",
    "a {{ b: random({a}) }}", "a {{ b: rgb({a}, {b}, 1) }}", "a {{ b: rgba({a}, {b}, 1, {a}) }}",
    "a {{ b: hsl({a}, {b}, 50%) }}", "a {{ b: hsl({a}, 50%, 50%) == hsl({b}, 50%, 50%) }}", "a {{ b: hwb({a}, {b}, 10%) }}",
    "a {{ b: hsl(calc(NaN), 1%, 1%) == hsl({a}, 1%, 1%) }}", "a {{ b: hsl(calc(NaN), 1%, 1%) == #fff }}",
    "a {{ b: adjust-hue(red, {a}) }}", "a {{ b: lighten(red, {a}) }}", "a {{ b: mix(red, blue, {a}) }}",
    "a {{ b: {a} + {b} }}", "a {{ b: {a} * {b} }}", "a {{ b: {a} % {b} }}", "a {{ b: ({a}) / ({b}) }}", "a {{ b: {a} < {b} }}",
    "a {{ b: round({a}) }}", "a {{ b: percentage({a}) }}", "a {{ b: {a}px * {b}px * {a}px }}",
    "a {{ b: calc({a}px + {b}%) }}", "a {{ b: calc({a} / {b}) }}", "a {{ b: min({a}, {b}) }}", "a {{ b: clamp({a}, {b}, 3) }}",
    "a {{ b: list.nth(1 2, {a}) }}", "a {{ b: zip(1 2, 3) }}", "a {{ b: join((), (), $separator: {a}) }}",
    "a {{ b: map-get((a: 1), {a}) }}", "a {{ b: inspect(({a}: {b}, {b}: 1)) }}",
    "*{{&b{{x:y}}}}", "a{{&{a}{{x:y}}}}", ":is(a){{&b{{x:y}}}}", "a{{&:not(&){{x:y}}}}", "a, b{{&-c, & + &{{x:y}}}}", "%p{{&q{{x:y}}}}",
    "a{{@extend {a};}}", "a {{ b: selector-nest(\"{a}\", \"&b\") }}", "a {{ b: selector-append(\"*\", \"b\") }}",
    "a {{ b: selector-unify(\"{a}\", \"b\") }}", "a {{ b: selector-replace(\"a\", \"{a}\", \"c\") }}", "a {{ b: is-superselector(\"{a}\", \"{b}\") }}",
    "a {{ b: unquote(\"\\\\{a}\") }}", "a {{ b: \"\\\\{a} \" }}", "a {{ b: unicode-range U+{a} }}", "a {{ b: #{{{a}}} }}",
    "@media (min-width: {a}) {{ a {{ b: c }} }}", "@supports ({a}: {b}) {{ a {{ b: c }} }}", "@include {a};", "@function f($a...) {{ @return $a }} a {{ b: f({a}...) }}",
    "@mixin m($a: {a}, $b...) {{ x: $a $b }} a {{ @include m({b}, $c: 1) }}", "a {{ b: if({a}, 1, 2) }}", "a {{ b: call(get-function(\"{a}\")) }}",
    "a {{ /* {a} #{{1 +}} */ }}", "/*" + " " * 90 + "x\n y */ a {{ b: c }}", "a {{ b: c; " + " " * 100 + "/* x\n" + " " * 95 + "y */ }}",
    # error rendering: errors that carry two source positions, in every order of declaration and use
    "@function f(){{@return g(1,2)}}\n\n@function g($a){{@return $a}}\na{{b:f()}}",
    "@function g($a){{@return $a}}\n@function f(){{@return g({a},{b})}}\n\n\na{{b:f()}}",
    "@mixin m(){{@include n(1,2)}}\n@mixin n($a){{x:$a}}\n\na{{@include m}}",
    "a{{@include m($z: 1)}}\n\n\n@mixin m($a){{x:$a}}",
    "@function f($a, $b: 2){{@return $a}}\n\n\n\na{{\n\n b:f($c: {a})}}",
    "@function f($a){{@return $a}}\na{{b:f()}}", "@mixin m($a...){{@content($a...)}} a{{@include m(1) using ($x, $y){{b:$x}}}}",
    "a{{b: {a}{b}; c: $undefined}}", "a{{b: foo.bar({a})}}", "@use \"sass:math\" as m;\n\na{{b: m.div({a})}}", "@use \"sass:nope\"; a{{b:c}}",
    "a{{\n\n\n  b: 1 +\n\n {a}px * (}}", "@error {a} {b};", "a{{@error \"x\\a y\"}}", "\n\n\n\ta{{\tb:\t$x}}", "a{{b:c}}\r\n@include x;\r\n",
    "é{{ü: $ö}}", "/* é */ a{{b: \"€\" + $x}}", "a{{b: nth((1 2), {a})}}\n" * 3,
    # selectors and pseudos with unusual names
    "a:-custom{{b:c}}", "a::-x, :--y({a}), a:-b-c, :-moz-any(a, b), ::-webkit-x(1) {{b:c}}", "a:{a}{{b:c}}", ":not(:-x(a)){{b:c}}",
    "a:nth-child({a}n + {b} of .x){{b:c}}", "a[b{a}=c i], [|a], [*|a~=\"x\"], a|b, *|*, |a {{b:c}}", "#{a}, .{a}, %{a} {{b:c}}",
    "@each $a, $b in ({a}, {b}) {{ x {{ y: $a $b }} }}", "@while {a} < {b} {{ }} a{{b:c}}", "@if {a} {{ a{{b:c}} }} @else if {b} {{ }}",
    "$x: {a} !default !global; a {{ b: $x }}", "a {{ --x: {a}; b: var(--x, {b}) }}", "@charset \"{a}\"; a{{b:c}}", "a {{ b: U+{a}-{b} }}",
    "a {{ b: math.log({a}, {b}) }}", "@use \"sass:math\"; a {{ b: math.pow({a}, {b}) math.sqrt({a}) math.hypot({a}, {b}) math.atan2({a}, {b}) }}",
    "@use \"sass:math\"; a {{ b: math.round({a}) math.clamp({a}, {b}, {a}) math.div({a}, {b}) math.percentage({a}) }}",
    "@use \"sass:string\"; a {{ b: string.slice(\"héllo😀\", {a}, {b}) string.insert(\"a\", \"b\", {a}) }}",
    "@use \"sass:list\"; a {{ b: list.nth([a b], {a}) list.set-nth(a b, {a}, c) list.slash({a}, {b}) }}",
    "@use \"sass:color\"; a {{ b: color.adjust(red, $hue: {a}, $alpha: {b}) color.scale(red, $lightness: {a}) color.change(red, $red: {a}) }}",
    # aimed at the sites proved in Proofs/C01Sites.v (boundaries of index_of, arglists, zip, deep-remove, str-index, guards, opt_back)
    "a {{ b: nth((), {a}) set-nth((), {a}, x) }}", "a {{ b: nth((k: v, l: w), {a}) nth(x, {a}) }}",
    "@function f($a...) {{ @return nth($a, {a}) }} a {{ b: f(1, 2, $x: 3, $y: 4) f() f($z: 1) }}",
    "@function f($a...) {{ @return set-nth($a, {a}, q) index($a, 2) length($a) }} a {{ b: f(1, 2, $x: 3) }}",
    "a {{ b: index((a: 1, b: 2), a 1) index((a: 1), b 1 2) index((a: 1), (a, 1)) index(1 2 3, {a}) }}",
    "a {{ b: zip() zip(1 2, (), 3) zip((a: 1), x, 1 2 3) inspect(zip(1 2 3, a b)) }}",
    "@use \"sass:map\"; a {{ b: inspect(map.deep-remove((a: (b: (c: 1))), a, b, c, d)) inspect(map.deep-remove((a: 1), a)) inspect(map.deep-remove((a: (b: 1)), a, b)) inspect(map.deep-remove((), {a})) }}",
    "a {{ b: str-index(\"héllo😀x\", \"x\") str-index(\"\", \"\") str-index(\"abc\", \"\") str-insert(\"héllo\", \"x\", {a}) str-slice(\"héllo\", {a}, {b}) }}",
    "a {{ b: hsl(from red h s l / {a}) rgb((from red r g b) / 1) hsl(1 2 3 / 4 / 5) hsl(1, 2) hwb(1 2) rgb(1 2 / 3) }}",
    "@function calc() {{ @return 1 }}", "@function url($a) {{ @return 1 }}", "\t@function\telement(){{}}", "a {{ @function f() {{ @return 1 }} @mixin m {{ @mixin n {{ }} }} }}",
    "@if true {{ @mixin m {{ }} @function f() {{ @return 1 }} }}", "@use \"sass:math\" as m; m.$pi: {a}; $x: {a}; m.$nope: 1;", "$a: 1; a {{ $b: {a} !global; c.$d: 1 }}",
    "& {{ b: c }} a {{ & {{ d: e }} @at-root & {{ f: g }} }}", "a {{ /* x */ b {{ /* y */ c: d; /* z */ }} }} /* w */",
    "$a, $b: 1 2; @each $x in 1 2 {{ a {{ b: $x }} }} @each $x, $y, $z in (1 2, 3) {{ a {{ b: $x $y $z }} }}",
    "a {{ b: foo(1, $x: 2, $y: 3) length(foo($a: 1)) }} @media screen {{ /* only */ }} @font-face {{ /* c */ }}",
]


def nest_depth(s):
    d = m = 0
    for ch in s:
        if ch in "{([":
            d += 1
            m = max(m, d)
        elif ch in "})]":
            d = max(0, d - 1)
    return m


def mutate(rng, s, pool):
    ops = rng.randint(1, 3)
    for _ in range(ops):
        k = rng.randint(0, 8)
        if not s:
            s = rng.choice(pool)
        i = rng.randint(0, len(s))
        if k == 0:
            s = s[:i] + rng.choice(SPECIAL) + s[i:]
        elif k == 1:
            j = min(len(s), i + rng.randint(1, 6))
            s = s[:i] + s[j:]
        elif k == 2:
            j = min(len(s), i + rng.randint(1, 12))
            s = s[:j] + s[i:j] + s[j:]
        elif k == 3:
            nums = list(re.finditer(r"-?\d+(\.\d+)?", s))
            if nums:
                m = rng.choice(nums)
                s = s[:m.start()] + rng.choice(EXTREMES) + s[m.end():]
        elif k == 4:
            o = rng.choice(pool)
            j = rng.randint(0, len(o))
            s = s[:i] + o[j:]
        elif k == 5:
            s = s[:i]
        elif k == 6:
            d = rng.randint(1, 30)
            s = rng.choice(["a{", "@media x{", "@a{", "@at-root{", "a{&"]) * d + s + "}" * d
        elif k == 7:
            s = s.replace(rng.choice([";", "{", ":", "(", " "]), rng.choice(SPECIAL), 1)
        else:
            s = s[:i] + rng.choice(["é", "\U0001F600", "\x00", "\x7f", "​", "\\"]) + s[i:]
    return s


def gen_scss(rng, depth):
    """Small grammar-based generator."""
    def val(d):
        k = rng.randint(0, 11)
        if d <= 0 or k < 3:
            return rng.choice(EXTREMES + ["red", "#abc", "\"s\"", "x", "null", "true", "()", "$v", "1px", "2em", "3s"])
        if k == 3:
            return "(" + val(d - 1) + ")"
        if k == 4:
            return val(d - 1) + rng.choice([" + ", " - ", " * ", " / ", " % ", " == ", " < ", " and ", " or ", ", ", " "]) + val(d - 1)
        if k == 5:
            return rng.choice(["nth", "str-slice", "rgb", "hsl", "mix", "join", "map-get", "if", "percentage", "round", "unquote", "quote", "inspect", "length", "calc", "min", "max", "lighten", "str-index", "random"]) + "(" + ", ".join(val(d - 1) for _ in range(rng.randint(1, 3))) + ")"
        if k == 6:
            return "#{" + val(d - 1) + "}"
        if k == 7:
            return "(" + val(d - 1) + ": " + val(d - 1) + ")"
        if k == 8:
            return "[" + val(d - 1) + "]"
        if k == 9:
            return rng.choice(["-", "not ", "+"]) + val(d - 1)
        return "\"a#{" + val(d - 1) + "}b\""
    def stmt(d):
        k = rng.randint(0, 12)
        if d <= 0 or k < 3:
            return rng.choice(["b", "--c", "b-#{1}"]) + ": " + val(3) + ";"
        if k == 3:
            return "$v: " + val(3) + rng.choice(["", " !default", " !global"]) + ";"
        if k == 4:
            return rng.choice(["a", "&b", "& > c", ".x, y", "%p", ":not(&)", "&-s", "*", "[a=b]", "#{" + val(2) + "}",
                               "a:-c", "::-d", ":--e(1)", "a:hover:-f-g", "&:is(b, :-h)", "a ~ b + c", "> d", "&__e", "a|b", "[x|=\"y\" s]"]) + " { " + " ".join(stmt(d - 1) for _ in range(rng.randint(0, 3))) + " }"
        if k == 5:
            return "@media " + rng.choice(["screen", "(min-width: " + val(2) + ")", "#{" + val(2) + "}"]) + " { " + stmt(d - 1) + " }"
        if k == 6:
            return "@if " + val(3) + " { " + stmt(d - 1) + " } @else { " + stmt(d - 1) + " }"
        if k == 7:
            return "@each $v in " + val(3) + " { " + stmt(d - 1) + " }"
        if k == 8:
            return "@for $v from " + rng.choice(EXTREMES[:12]) + rng.choice([" to ", " through "]) + rng.choice(["1", "3", "-2", "9223372036854775807"]) + " { " + stmt(d - 1) + " }" if rng.random() < 0.2 else "@for $v from 1 to 3 { " + stmt(d - 1) + " }"
        if k == 9:
            return "@mixin m($a: 1, $r...) { " + stmt(d - 1) + " @content; } @include m(" + val(2) + ") { " + stmt(d - 1) + " }"
        if k == 10:
            decl = "@function f($a" + rng.choice(["", ", $b: 1", ", $r..."]) + ") { @return " + val(3) + "; }"
            use = "q { r: f(" + rng.choice(["", "1", "1, 2", "1, 2, 3", "$z: 1", "1, $a: 2", "(1 2)..."]) + "); }"
            return rng.choice([decl + "\n" + use, "@function w() { @return f(" + rng.choice(["", "1, 2, 3", "$q: 1"]) + "); }\n\n" + decl + "\n" + "q { r: w(); }"]) + " " + stmt(d - 1)
        if k == 11:
            return "/* c #{" + val(2) + "} */"
        return "@at-root " + rng.choice(["", "a "]) + "{ " + stmt(d - 1) + " }"
    return " ".join(stmt(depth) for _ in range(rng.randint(1, 3)))


def gen_cases(ctx, tier):
    rng = ctx.rng
    cases = []
    def add(src, fmt="scss", style=None, prec=None, family=0, depth=0):
        if len(src.encode("utf-8", "replace")) > 65536 or (family == 0 and nest_depth(src) > 64):
            return
        cases.append({"src": src, "fmt": fmt, "style": style or rng.choice(["expanded", "compressed"]),
                      "prec": prec if prec is not None else rng.choice([0, 1, 5, 10, 16, 20]), "family": family, "depth": depth})
    # corpus of earlier failures / known witnesses first
    import glob, json as _json
    for f in sorted(glob.glob(os.path.join(VERIF, "corpus", "C01", "*.json"))):
        for c in _json.load(open(f)):
            cases.append(c)
    # (a) nesting family with model prediction
    for d in range(1, 63):
        for st in ("expanded", "compressed"):
            add("@a{" * d + "x{y:z}" + "}" * d, style=st, prec=10, family=1, depth=d)
    # (b) site-aimed templates
    n_t = 6 if tier == "quick" else 60
    for t in TEMPLATES:
        for _ in range(n_t):
            try:
                add(t.format(a=rng.choice(EXTREMES), b=rng.choice(EXTREMES)))
            except (KeyError, IndexError):
                add(t)
    # (b') index-like templates also get every small index around the list / string lengths (boundaries of index_of & co.)
    for t in TEMPLATES:
        if any(w in t for w in ("nth", "str-", "slice", "insert", "index(", "deep-remove")) and "{a}" in t:
            for a in SMALL:
                add(t.format(a=a, b=rng.choice(SMALL + EXTREMES)))
    # (c) corpus mutation
    pool = [s for _, s in spec_corpus.spec_inputs()]
    n_m = 2500 if tier == "quick" else 150000
    for _ in range(n_m):
        add(mutate(rng, rng.choice(pool), pool), fmt="css" if rng.random() < 0.15 else "scss")
    # (d) grammar
    n_g = 800 if tier == "quick" else 40000
    for _ in range(n_g):
        add(gen_scss(rng, rng.randint(1, 5)))
    return cases


def search_cases(ctx, broken):
    return []


def impl_requests(c):
    return [(c["fmt"], c["style"], str(c["prec"]), c["src"].encode("utf-8", "replace"))]


OUTCOME = {"ok": 0, "err": 1, "panic": 2, "crash": 3, "timeout": 4}
TIMEOUT_PER_CASE = 6.0


def coq_term(c, io):
    return f"(mkCase {cz(c['family'])} {cbool(c['style'] == 'compressed')} {cn(c['depth'])} {cz(OUTCOME.get(io[0][0], 3))})"


_fn_cache = {}


def panic_site(msg):
    """'panicked at /repo/rsass/src/x.rs:12:3:' -> 'rsass/src/x.rs::fn'"""
    m = re.search(r"panicked at (\S+?):(\d+):\d+", msg)
    if not m:
        return "unknown-site"
    path, line = m.group(1), int(m.group(2))
    rel = path[path.find("rsass/src"):] if "rsass/src" in path else path
    if path not in _fn_cache:
        try:
            toks = rslex.tokenize(open(path, encoding="utf-8").read())
        except Exception:
            toks = []
        spans = []
        for i, t in enumerate(toks):
            if t.text == "fn" and i + 1 < len(toks) and toks[i + 1].kind == "ident":
                b = rslex.block_after(toks, i)
                if b:
                    spans.append((toks[b[0]].line, toks[b[1]].line, toks[i + 1].text))
        _fn_cache[path] = spans
    best = None
    for lo, hi, name in _fn_cache[path]:
        if lo <= line <= hi and (best is None or lo >= best[0]):
            best = (lo, hi, name)
    return f"{rel}::{best[2] if best else '?'}"


def judge(c, io, r):
    tag, f = io[0]
    corr, p = r
    kclass = None
    if tag == "panic":
        kclass = "known_C01_panic@" + panic_site(f[0].decode("utf-8", "replace"))
    elif tag == "crash":
        kclass = "known_C01_crash"
    nontrivial = tag == "ok" or (tag == "err" and b"0..0" not in (f[1] if len(f) > 1 else b""))
    return {"corr": None if corr == 2 else corr == 1,
            "clauses": [("no-panic", p == 1, kclass)],
            "nontrivial": nontrivial, "tags": [tag, c["fmt"], "family%d" % c["family"]],
            "key": c["src"] + c["fmt"] + c["style"] + str(c["prec"]),
            "show": (c["src"][:200], c["fmt"], c["style"], c["prec"], (f[0][:160].decode("utf-8", "replace") if tag in ("panic", "crash") else tag))}


def shrink(c):
    s = c["src"]
    n = len(s)
    if n <= 1:
        return
    step = max(1, n // 8)
    for i in range(0, n, step):
        yield dict(c, src=s[:i] + s[i + step:], family=0)
