"""C26 - String functions follow the Unicode code-point model."""
from common import *

ID = "C26"
GEN = []
THEOREMS = ["C26_length", "C26_index", "C26_insert", "C26_slice", "C26_slice_empty_range",
            "C26_case", "C26_quotes"]
COQ_HEADER = ("From Coq Require Import String List NArith ZArith.\nFrom RV Require Import Model.CssStr Run.C26.\n"
              "Import ListNotations.\nLocal Open Scope list_scope.")
RUN_EXPR = "Run.C26.run"
RULE = ("one call of str-length/str-index/str-insert/str-slice/to-upper-case/to-lower-case on strings of 0-12 code points "
        "mixing ASCII, two/three-byte, astral, combining, joiner and private-use characters, quoted and unquoted; insert "
        "with every index in [-len-2, len+2], slice with every (start, end) pair of that range for short strings and "
        "random pairs for long ones, plus huge indices; distinct = distinct call; non-trivial = the string has a "
        "non-ASCII character or an index is negative / out of range")
EXHAUSTIVE = {"quick": False, "thorough": False}
TRUSTED = ["Spec/SassStrings.v: reference semantics written from the Sass documentation",
           "str::find on UTF-8 bytes equals a code-point search (UTF-8 is self-synchronising); Rust chars() yields the code points"]
ASSUMPTIONS = ["generated strings contain no quote, backslash, '#' or control characters (escaping is C27's subject)",
               "indices are integer literals; modelled as the i64 obtained from the literal's f64"]

ASCII = "abcxyzABCXYZ019 -_.!"
WIDE = ["é", "É", "ß", "Ω", "ω", "中", "\U0001F600", "\U0001F468", "́", "‍", "",
        "�", "\U000F0000", "ı"]


def rand_str(rng, maxlen=12):
    n = rng.choice([0, 1, 2, 3, 3, 4, 5, 6, 8, 10, 12])
    n = min(n, maxlen)
    out = []
    for _ in range(n):
        out.append(rng.choice(WIDE) if rng.random() < 0.4 else rng.choice(ASCII))
    return "".join(out)


HUGE = [2 ** 63 - 1, -2 ** 63, 2 ** 31, -2 ** 31 - 1, 2 ** 32 + 1, 10 ** 19, -10 ** 19, 2 ** 53 + 1]


def gen_cases(ctx, tier):
    rng = ctx.rng
    cases = [{"fn": "slice", "s": "abc", "q": True, "i": 3, "j": 1},      # F25
             {"fn": "slice", "s": "abc", "q": True, "i": 1, "j": 0}, {"fn": "slice", "s": "abc", "q": False, "i": -1, "j": -3},
             {"fn": "slice", "s": "", "q": True, "i": 1, "j": -1}, {"fn": "slice", "s": "abc", "q": True, "i": 0, "j": 0},
             {"fn": "insert", "s": "abc", "q": True, "ins": "X", "i": -1}, {"fn": "insert", "s": "abc", "q": True, "ins": "X", "i": 0},
             {"fn": "index", "s": "abc", "sub": ""}, {"fn": "index", "s": "", "sub": ""}, {"fn": "index", "s": "aéb\U0001F600c", "sub": "c"},
             {"fn": "upper", "s": "aéßzı", "q": True}, {"fn": "length", "s": "é\U0001F468‍\U0001F468"}]
    k = 1 if tier == "quick" else 8
    for _ in range(10 * k):                       # short strings: every (start, end)
        s = rand_str(rng, 4)
        q = rng.random() < 0.6
        n = len(s)
        for i in range(-n - 2, n + 3):
            for j in range(-n - 2, n + 3):
                cases.append({"fn": "slice", "s": s, "q": q, "i": i, "j": j})
    for _ in range(40 * k):
        s = rand_str(rng)
        q = rng.random() < 0.6
        n = len(s)
        for i in range(-n - 2, n + 3):
            cases.append({"fn": "insert", "s": s, "q": q, "ins": rand_str(rng, 3), "i": i})
        for _ in range(12):
            cases.append({"fn": "slice", "s": s, "q": q, "i": rng.randint(-n - 2, n + 2), "j": rng.randint(-n - 2, n + 2)})
        cases.append({"fn": "slice", "s": s, "q": q, "i": rng.choice(HUGE), "j": rng.randint(-n - 2, n + 2)})
        cases.append({"fn": "slice", "s": s, "q": q, "i": rng.randint(-n - 2, n + 2), "j": rng.choice(HUGE)})
        cases.append({"fn": "insert", "s": s, "q": q, "ins": "X", "i": rng.choice(HUGE)})
        cases.append({"fn": "length", "s": s})
        cases.append({"fn": rng.choice(["upper", "lower"]), "s": s, "q": q})
        # index: substrings that occur, some that do not
        if n:
            a = rng.randrange(n)
            b = rng.randint(a, min(n, a + 3))
            cases.append({"fn": "index", "s": s, "sub": s[a:b]})
            cases.append({"fn": "index", "s": s + s, "sub": s[a:b]})
        cases.append({"fn": "index", "s": s, "sub": rand_str(rng, 2)})
    return cases


def search_cases(ctx, broken):
    return gen_cases(ctx, "quick")


def lit(s, q=True):
    return '"' + s + '"' if q else 'unquote("' + s + '")'


def expr_of(c):
    f = c["fn"]
    if f == "length":
        return f"str-length({lit(c['s'])})"
    if f == "index":
        return f"str-index({lit(c['s'])}, {lit(c['sub'])})"
    if f == "insert":
        return f"str-insert({lit(c['s'], c['q'])}, {lit(c['ins'])}, {c['i']})"
    if f == "slice":
        return f"str-slice({lit(c['s'], c['q'])}, {c['i']}, {c['j']})"
    if f == "upper":
        return f"to-upper-case({lit(c['s'], c['q'])})"
    if f == "lower":
        return f"to-lower-case({lit(c['s'], c['q'])})"
    raise ValueError(f)


def impl_requests(c):
    return [("evalv", expr_of(c))]


def impl_text(io):
    tag, f = io[0]
    if tag == "err":
        return None
    if tag != "ok":
        return "bad"
    if f[0] == b"num":
        return f[4]
    return f[2]


def q_of(c):
    return "QDouble" if c["q"] else "QNone"


def call_term(c):
    f = c["fn"]
    if f == "length":
        return f"SLength {ccps(c['s'])}"
    if f == "index":
        return f"SIndex {ccps(c['s'])} {ccps(c['sub'])}"
    if f == "insert":
        return f"SInsert {ccps(c['s'])} {q_of(c)} {ccps(c['ins'])} {cz(c['i'])}"
    if f == "slice":
        return f"SSlice {ccps(c['s'])} {q_of(c)} {cz(c['i'])} {cz(c['j'])}"
    if f == "upper":
        return f"SUpper {ccps(c['s'])} {q_of(c)}"
    if f == "lower":
        return f"SLower {ccps(c['s'])} {q_of(c)}"
    raise ValueError(f)


def coq_term(c, io):
    t = impl_text(io)
    impl = "(Some [0%N])" if t == "bad" else ("None" if t is None else f"(Some {cbytes(t)})")
    return f"(mkCase ({call_term(c)}) {impl})"


KCLASS = {0: None}


def judge(c, io, r):
    corr, cl, k, cq, kq = r
    n = len(c["s"])
    nt = any(ord(ch) > 127 for ch in c["s"]) or any(c.get(x, 1) < 1 or c.get(x, 1) > n for x in ("i", "j"))
    return {
        "corr": corr == 1 and io[0][0] in ("ok", "err"),
        "clauses": [("code-point-model", cl == 1, KCLASS[k]), ("quotedness", cq == 1, KCLASS[kq])],
        "nontrivial": nt,
        "tags": [c["fn"]] + (["error"] if io[0][0] == "err" else []),
        "show": expr_of(c),
        "detail": expr_of(c),
    }


def shrink(c):
    s = c["s"]
    for i in range(len(s)):
        yield dict(c, s=s[:i] + s[i + 1:])


LEVEL_TEXT = ("proof: sass/functions/string.rs modelled on code-point lists; for ALL strings and ALL integer indices: index is "
              "the first occurrence (1-based) or null, insert and slice equal the reference semantics (clamping, negative "
              "positions from the end), case functions change ASCII letters only, "
              "quotedness is kept; tied to rsass by byte-exact results on generated calls")
LEVEL_NOTE = "F25 (slice error on an empty range) was fixed in /repo by 2bc7a76; the slice theorem is now unconditional"
TECHNIQUE = "Coq proof (induction over lists, linear arithmetic over Z/nat) + differential correspondence"
