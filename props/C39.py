"""C39 - Loader failures are reported, never absorbed."""
from common import *
from loadlib import *

ID = "C39"
GEN = ["Candidates", "LoaderSites"]
THEOREMS = ["C39_sites", "C39_every_site_propagates", "C39_ok_means_no_failure", "C39_failure_is_reported",
            "C39_other_error_means_no_failure", "C39_loader_error_is_last_call", "C39_read_error_is_last_call"]
COQ_HEADER = ("From Coq Require Import String List ZArith NArith.\nFrom RV Require Import Gen.Candidates Model.Load Model.LoadRun Run.C39.\n"
              "Import ListNotations.\nLocal Open Scope string_scope.")
RUN_EXPR = "Run.C39.run"
RULE = ("graphs of 2-4 stylesheets (all four load kinds; plain, partial, index and css file names so that lookups miss before "
        "they hit; some with a missing target, a loop or an unknown format) x a lookup failure at EVERY loader call index of the "
        "clean run and one past it, a read failure at EVERY found file and one past it, plus random multi-failure sets; each case "
        "= clean compile, faulty compile, clean compile in one process; distinct = distinct (graph, fault); non-trivial = the "
        "fault is reached")
EXHAUSTIVE = {"quick": False, "thorough": False}
TRUSTED = ["the fault-injecting in-memory Loader of the harness (public Loader trait)",
           "gen/gens/LoaderSites.py: syntactic classification of the call sites"]
ASSUMPTIONS = ["faults are injected through the public Loader trait only (Loader::find_file returning Err, File::read returning Err)"]

KINDS4 = ["import", "use", "forward", "loadcss"]
SHAPES = ["{}.scss", "_{}.scss", "{}/index.scss", "{}/_index.scss", "{}.css", "_{}.css"]


def gen_world(rng):
    n = rng.choice([2, 3, 3, 4])
    letters = ["t", "a", "b", "c"][:n]
    names = ["t.scss"] + [rng.choice(SHAPES).format(l) for l in letters[1:]]
    bodies = [[["emit", i]] for i in range(n)]
    for i in range(n):
        if names[i].endswith(".css"):
            continue
        for j in range(i + 1, n):
            for _ in range(rng.choice([0, 1, 1, 2])):
                k = rng.choice(KINDS4)
                if names[j].endswith("import.scss") and k != "import":
                    k = "import"
                bodies[i].insert(rng.randrange(len(bodies[i]) + 1), ["load", k, letters[j]])
    r = rng.random()
    src = rng.choice([i for i in range(n) if not names[i].endswith(".css")])
    if r < 0.1:
        bodies[src].append(["load", rng.choice(KINDS4), "zz"])           # missing
    elif r < 0.2:
        bodies[src].append(["load", rng.choice(KINDS4), letters[0]])      # back to the root: loop
    elif r < 0.27:
        bodies[src].append(["load", "import", "x.css"])                   # plain css import
    elif r < 0.33:
        names.append("y.sass")
        bodies.append([])
        bodies[src].append(["load", "use", "y.sass"])                     # unknown format
    return [[names[i], bodies[i]] for i in range(len(names))]


def mk(world, fault):
    return {"mode": "mem", "fault": fault, "bases": [""], "root": "t.scss", "rootid": "t.scss", "world": world}


def gen_cases(ctx, tier):
    rng = ctx.rng
    worlds = [
        [["t.scss", [["load", "use", "a"], ["emit", 0]]], ["_a.scss", [["emit", 1]]]],
        [["t.scss", [["load", "import", "a"], ["load", "loadcss", "b"], ["emit", 0]]], ["a/_index.scss", [["load", "forward", "b"], ["emit", 1]]],
         ["_b.scss", [["emit", 2]]]],
    ]
    nw = 45 if tier == "quick" else 400
    for _ in range(nw):
        worlds.append(gen_world(rng))
    # baselines: how many loader calls and how many files found
    base = run_impl([requests_of(mk(w, "none"))[0] for w in worlds])
    cases = []
    for w, b in zip(worlds, base):
        d = decode(mk(w, "none"), b)
        if d["log"] is None:
            continue
        L = len(d["log"])
        names = {n for n, _ in w}
        F = sum(1 for u in d["log"] if u in names)
        for k in range(L + 1):
            cases.append(dict(mk(w, f"find:{k}"), found=F))
        for k in range(F + 1):
            cases.append(dict(mk(w, f"read:{k}"), found=F))
        for _ in range(3 if tier == "quick" else 8):
            parts = [f"find:{rng.randrange(L + 2)}" for _ in range(rng.choice([1, 2, 3]))]
            parts += [f"read:{rng.randrange(F + 1)}" for _ in range(rng.choice([0, 1, 2]))]
            rng.shuffle(parts)
            if len(parts) == 1:
                parts.append("find:%d" % (L + 5))
            cases.append(dict(mk(w, ",".join(parts)), found=F))
    return cases


def search_cases(ctx, broken):
    return []


def impl_requests(c):
    return [requests_of(c, "none")[0], requests_of(c)[0], requests_of(c, "none")[0]]


def coq_term(c, io):
    base, faulty, after = (decode(c, x) for x in io)
    return (f"(mkCase {coq_world(c['world'])} {coq_mode(c)[6:-1]} {cstring(c['root'])} "
            f"{coq_impl(base)} {coq_impl(faulty)} {coq_impl(after)}, {cn(c['found'])})")


def judge(c, io, r):
    corr, c1, c2, c3, reached = r
    d = decode(c, io[1])
    return {
        "corr": corr == 1,
        "clauses": [("reported", c1 == 1, None), ("no-partial-css", c2 == 1, None), ("recovers", c3 == 1, None)],
        "nontrivial": reached == 1,
        "tags": ["reached" if reached else "not-reached", f"impl{d['cls']}", c["fault"].split(":")[0] if "," not in c["fault"] else "multi"],
        "show": f"fault {c['fault']} " + " | ".join(f"{n}: " + scss_of(n, b).replace(chr(10), ' ') for n, b in c["world"]) + f" -> class {d['cls']}",
        "detail": {"files": {n: scss_of(n, b) for n, b in c["world"]}, "fault": c["fault"], "faulty": d},
    }


LEVEL_TEXT = ("proof: for an arbitrary loader oracle and arbitrary files the model returns css only if every loader call was "
              "answered without failure and every file handed out was readable, never turns a failure into another error, and "
              "raises the loader/read error at the very call that failed (induction on fuel and bodies: the model has no handler "
              "on any load path); the inventory of call sites regenerated from the Rust source shows every Result handed on with "
              "`?`/tail/bound-then-`?`; tied to the code by exhaustive single-fault injection at every loader call of generated "
              "graphs with exact call-log correspondence")
LEVEL_NOTE = "trusted: Coq kernel+vm_compute, gen/gens/LoaderSites.py, the fault-injecting harness loader"
TECHNIQUE = "Coq proof (invariant over the call log) + translator inventory + exhaustive fault injection with differential correspondence"
