"""C36 - Comments are preserved as Sass specifies."""
import random
from common import *
import destgen as D

ID = "C36"
GEN = ["AtNames"]
THEOREMS = ["C36_push_comment_total", "C36_expanded_comment_kept", "C36_compressed_bang",
            "C36_bang_example", "C36_writer_keeps_comments"]
COQ_HEADER = ("From Coq Require Import List NArith ZArith.\nFrom RV Require Import Model.Out Model.OutDest Spec.Reach Run.C36.\n"
              "Import ListNotations.\nLocal Open Scope N_scope.")
RUN_EXPR = "Run.C36.run"
RULE = ("random programs of the statement subset (rules, declarations, nested properties, @media, at-rules, @at-root, @if, "
        "@each, mixins with content blocks, @error) with loud comments (plain, multi-line, interpolated, `/*!` with and without "
        "interpolation, literal `#` and `#` directly before / after an interpolation, texts with leading / trailing `#` `*` `/` `!` "
        "and blanks, interpolation at the very start / end, interpolations that call an @error-raising function) in every "
        "statement position and `//` comments sprinkled between statements, compiled in both styles; distinct = distinct "
        "SCSS text; non-trivial = the run reaches at least one loud comment")
EXHAUSTIVE = {"quick": False, "thorough": False}
TRUSTED = ["Spec/Reach.v: which statements a run reaches, and the comment extraction from CSS text (Spec/CssTok.v scanner)",
           "props/destgen.py prints the program as SCSS; interpolation `#{ident}` in a comment evaluates to the identifier"]
ASSUMPTIONS = ["statement subset of Model/OutDest.v; literal selectors and values"]
SHARD = 120


# preserved comments with interpolation in several statement positions; `#` next to interpolation
BANGWIT = [
    {"mixins": [[["c", "! mix v3 ", "! mix #{v3} "], ["d", "w", "x"]]],
     "main": [["c", "! lib v123 ", "! lib v#{123} "], ["c", " ord 1 ", " ord #{1} "],
              ["r", [["p", ".w"]], [["c", "! lic 9 ", "! lic #{9} "], ["d", "c", "d"],
                                    ["m", "screen", [["c", "! med 5 ", "! med #{5} "], ["d", "e", "f"]]],
                                    ["inc", 0, None],
                                    ["loop", 2, [["c", "! it k ", "! it #{k} "]]]]]]},
    {"mixins": [], "main": [["c", " id #main ", " id ##{main} "], ["c", " plain main, issue #12, a#b "],
                            ["r", [["p", ".p"]], [["c", " brand #336699 ", " brand ##{336699} "],
                                                  ["c", "! ticket ##3 ", "! ticket ###{3} "], ["d", "c", "d"]]]]},
]


def gen_cases(ctx, tier):
    rng = ctx.rng
    cases = []
    for pr in BANGWIT:
        cases.append({"src": D.program_scss(pr), "prog": pr})
    for src in ["a{@media print{b{/* one */} /* two */}}", "/*! keep */ a{b:c}", "a{/* x */ b:c; /*! y */}", "/* #{1 + 1} */", "// silent\na{b:c} /* loud */"]:
        cases.append({"src": src, "prog": None})
    n = 700 if tier == "quick" else 6000
    for i in range(n):
        pr = D.gen_program(rng, depth=rng.choice([2, 3, 4]), p_error=0.01, comments=0.35, silent=True)
        D.SILENT = random.Random(rng.randrange(1 << 30))
        src = D.program_scss(pr)
        D.SILENT = None
        cases.append({"src": src, "prog": pr})
    return cases


def impl_requests(c):
    return [("scss", "expanded", "10", c["src"]), ("scss", "compressed", "10", c["src"])]


HAND = {
    "a{b:{@media print{/* lost */}}}": {"mixins": [], "main": [["r", [["p", "a"]], [["ns", "b", None, [["m", "print", [["c", " lost "]]]]]]]]},
    "a{@media print{b{/* one */} /* two */}}": {"mixins": [], "main": [["r", [["p", "a"]], [["m", "print", [["r", [["p", "b"]], [["c", " one "]]], ["c", " two "]]]]]]},
    "/*! keep */ a{b:c}": {"mixins": [], "main": [["c", "! keep "], ["r", [["p", "a"]], [["d", "b", "c"]]]]},
    "a{/* x */ b:c; /*! y */}": {"mixins": [], "main": [["r", [["p", "a"]], [["c", " x "], ["d", "b", "c"], ["c", "! y "]]]]},
    "/* #{1 + 1} */": {"mixins": [], "main": [["c", " 2 "]]},
    "// silent\na{b:c} /* loud */": {"mixins": [], "main": [["r", [["p", "a"]], [["d", "b", "c"]]], ["c", " loud "]]},
}


def coq_term(c, io):
    pr = c["prog"] or HAND[c["src"]]
    return f"(mkCase {D.program_coq(pr)} {D.impl_coq(io[0])} {D.impl_coq(io[1])})"


K3 = "known_C36_reordered_in_bubbled_atrule"


def has_comment(l):
    return any(s[0] == "c" or any(isinstance(x, list) and x and isinstance(x[0], list) and has_comment(x) for x in s[1:]) for s in l)


def judge(c, io, r):
    ce, cc, p1, p2, p3, kre = r
    corr = None if 2 in (ce, cc) else (ce == 1 and cc == 1)
    pr = c["prog"] or HAND[c["src"]]
    return {"corr": corr,
            "clauses": [("expanded-keeps-loud-comments", p1 == 1, K3 if kre else None),
                        ("compressed-keeps-bang-comments", p2 == 1, K3 if kre else None),
                        ("silent-comments-dropped", p3 == 1, None)],
            "nontrivial": has_comment(pr["main"]) or any(has_comment(m) for m in pr["mixins"]),
            "tags": ["ok" if io[0][0] == "ok" else io[0][0]],
            "show": c["src"][:160], "detail": c["src"], "key": c["src"]}


def shrink(c):
    if not c["prog"]:
        return
    for pr in D.shrink_program(c["prog"]):
        yield {"src": D.program_scss(pr), "prog": pr}


LEVEL_TEXT = ("proof: in the model of the destinations push_comment never fails and appends the comment to the innermost open "
              "rule / at-rule body / the top level (all frame stacks), the comment arm of handle_item keeps every comment when "
              "expanded and, when compressed, exactly the comments whose text starts with `!` (rsass 775eadf; full strength), "
              "and the writer emits every comment item between its delimiters; the model (evaluator + destinations + writer) is "
              "tied to rsass by byte-exact correspondence on generated programs in both styles, and the three clauses are "
              "evaluated in Coq on rsass's output")
LEVEL_NOTE = ("partial: `in order` is decided on explored programs (the comment sequence of the output is compared with the "
              "evaluation order), not proved for all programs; silent comments are a parser matter, explored only")
TECHNIQUE = "Coq proof (case analysis over destination frames, induction over frame stacks) + differential correspondence"
