"""C27 - Strings keep their content through escaping and quoting."""
from common import *

ID = "C27"
GEN = []
THEOREMS = ["C27_emit_partial", "C27_emit_decode_partial", "C27_length_partial", "C27_quote_unquote_partial",
            "C27_quote_unquote_units_partial", "C27_unquote_injective_partial", "C27_sq_plain_partial",
            "C27_plain_store_partial", "C27_plain_emit_partial", "C27_plain_quote_unquote_partial", "C27_decode_plain",
            "C27_refuted_length", "C27_refuted_quote_unquote_newline", "C27_refuted_private_use_tab",
            "C27_refuted_invalid_code_point", "C27_refuted_statement"]
COQ_HEADER = ("From Coq Require Import String List NArith ZArith.\nFrom RV Require Import Run.C27.\n"
              "Import ListNotations.\nLocal Open Scope list_scope.")
RUN_EXPR = "Run.C27.run"
RULE = ("double-quoted (and, a third as many, single-quoted) literals of 0-10 pieces: plain characters (ASCII incl. hex digits and space, two/three/four-byte, "
        "private-use, NBSP, raw tab), raw ', escaped \", hex escapes of 16 code points (letters, quotes, backslash, controls, "
        "space, tab, 0, surrogate, out of range, astral, private use) with 1-6 digits with/without the terminating space, and "
        "character escapes; each literal is printed, measured with str-length, sent through quote(unquote()) and unquote(); "
        "distinct = distinct literal; non-trivial = the literal contains an escape, a quote or a private-use character")
EXHAUSTIVE = {"quick": False, "thorough": False}
TRUSTED = ["Spec/CssEsc.v: CSS Syntax level 3 string-token decoding (consume an escaped code point)",
           "the output is split into the four declaration values by the fixed markers `  t: `, `  l: `, `  q: `, `  u: `"]
ASSUMPTIONS = ["double- and single-quoted source literals without interpolation and without '#' are modelled (parser/strings.rs dq_parts, "
               "sass_string_sq); unquoted strings and the interpolation escaper of SassString::evaluate are not",
               "theorems cover escape-free literals and double-quoted literals built from well-behaved pieces (plain runs, raw apostrophe, escaped quote, "
               "escaped backslash, space-terminated hex escapes of code points stored as themselves); everything else is tied by correspondence only"]

PLAIN = list("abcdefABCDEF0123456789xyzXYZ  -_.!?,:(){}/+*") + ["é", "中", "\U0001F600", "\ue000", "\uf8ff", "\U000F0000", "\u00a0", "\t", "ß"]
HEXCP = [0x41, 0x7A, 0xE9, 0x22, 0x27, 0x5C, 0x0A, 0x0D, 0x0C, 0x1F, 0x7F, 0x9F, 0x00, 0x20, 0x09, 0x2D, 0xD800, 0x110000, 0x1F600, 0xE000, 0x10FFFF, 0x30]
CHARESC = ["x", "-", "\\", " ", "!", "é", "z", "G", "_", "~"]
HEXD = set("0123456789abcdefABCDEF")


def rand_body(rng, single=False):
    own, other = ("'", '"') if single else ('"', "'")
    n = rng.choice([0, 1, 2, 3, 3, 4, 5, 6, 8, 10])
    out = []
    kind_bias = rng.random()
    for _ in range(n):
        r = rng.random()
        if kind_bias < 0.3:
            r = r * 0.55          # mostly plain
        if r < 0.55:
            out.append(rng.choice(PLAIN))
        elif r < 0.60:
            out.append(other)
        elif r < 0.66:
            out.append("\\" + own)
        elif r < 0.88:
            cp = rng.choice(HEXCP)
            h = "%x" % cp
            if rng.random() < 0.3:
                h = h.upper()
            if rng.random() < 0.4 and len(h) < 6:
                h = "0" * rng.randint(1, 6 - len(h)) + h
            out.append(("hex", h, rng.random() < 0.6))
        else:
            # backslash-newline (line continuation) only in single-quoted literals, where rsass reads it right
            out.append("\\" + rng.choice(CHARESC + (["\n", "\n"] if single else [])))
    # render: a hex escape without terminating space must not be followed by a hex digit (else it is another escape)
    s = ""
    for i, p in enumerate(out):
        if isinstance(p, tuple):
            _, h, sp = p
            nxt = out[i + 1] if i + 1 < len(out) else None
            nxt_c = None if nxt is None else (nxt[0] if isinstance(nxt, str) else "\\")
            if not sp and len(h) < 6 and nxt_c is not None and nxt_c in HEXD:
                sp = True
            s += "\\" + h + (" " if sp else "")
        else:
            s += p
    return s


CORPUS = ["\ue000\t", "\ue000 x", "\ue000a", "\\10x", "\\e000 1", "\ue0001", "a\\ ", "a\\ x", "\\d800", "\\110000", "\\a", "a\\\\b", "a\\\"b", "it's", "\\22 ", "\\41 b",
          "\\a 1", "\\a\tx", "\\0", "\\-\\ \\x", "", "plain text", "\\78 y", "\\5c 41 ", "\\1f600 ", "é中\U0001F600", "\\20", "\\20 x", " "]


# the interpolation family: ASCII bodies with control-character escapes followed by non-hex and, later, hex characters
INTERP_CORPUS = ["one\\a two, next", "tab\\1f xyz 42", "x\\a bc", "one\\a two", "\\7f zzz9", "a\\a \\a b", "plain next", "q\\a\tz1",
                 "\\a", "\\a g", "\\1f ,;f", "it's \\a ok e", "\\\\ x\\a yz0"]
NONHEX = list("ghijklmnopqrstuvwxyzGHXYZ ,;:!?()-_'")
HEXCH = list("0123456789abcdefABCDEF")


def rand_interp_body(rng):
    out = ""
    for _ in range(rng.randint(1, 4)):
        r = rng.random()
        if r < 0.55:
            h = rng.choice(["a", "1f", "7f", "1", "c", "0a", "00001f"])
            out += "".join(rng.choice(NONHEX + HEXCH) for _ in range(rng.choice([0, 1, 2])))
            nxt = "".join(rng.choice(NONHEX) for _ in range(rng.choice([0, 1, 1, 2, 3])))
            tail = "".join(rng.choice(NONHEX + HEXCH + HEXCH) for _ in range(rng.choice([0, 1, 2, 4])))
            out += "\\" + h + " " + nxt + tail
        elif r < 0.8:
            out += "".join(rng.choice(NONHEX + HEXCH) for _ in range(rng.randint(1, 4)))
        elif r < 0.9:
            out += "\\\\"
        else:
            out += rng.choice(['\\"', "\t"])
    return out


CORPUS_SQ = ["\\10x", "a\\'b", 'a"b', "it\\'s", "x\\\ny", "\\a\\\n1", "a\\ ", "\\22 ", "\\27 ", "plain text", "", "\ue0001", "\\d800",
             "\\41 b", "a\\\\b", "\\a 1", '\\"']


def gen_cases(ctx, tier):
    rng = ctx.rng
    cases = [{"body": b, "single": False} for b in CORPUS]
    cases += [{"body": b, "single": True} for b in CORPUS_SQ]
    n = 900 if tier == "quick" else 9000
    for _ in range(n):
        cases.append({"body": rand_body(rng), "single": False})
    for _ in range(n // 3):
        cases.append({"body": rand_body(rng, True), "single": True})
    cases += [{"body": b, "single": False, "interp": True} for b in INTERP_CORPUS]
    for _ in range(n // 4):
        cases.append({"body": rand_interp_body(rng), "single": False, "interp": True})
    return cases


def search_cases(ctx, broken):
    return gen_cases(ctx, "quick")


def program(c):
    b = c["body"]
    q = "'" if c.get("single") else '"'
    lit = q + b + q
    if c.get("interp"):
        return ('$s: %s;\na {\n  t: "#{$s}";\n  l: inspect("#{$s}" == $s);\n  q: str-length("#{$s}");\n  u: str-length($s);\n}\n' % lit)
    return ('a {\n  t: %s;\n  l: str-length(%s);\n  q: quote(unquote(%s));\n  u: unquote(%s);\n}\n' % (lit, lit, lit, lit))


def impl_requests(c):
    return [("scss", "expanded", "10", program(c))]


def impl_fields(io):
    tag, f = io[0]
    if tag == "err":
        return None
    if tag != "ok":
        return "bad"
    try:
        txt = f[0].decode("utf-8")
    except UnicodeDecodeError:
        return "bad"
    marks = ["\n  t: ", ";\n  l: ", ";\n  q: "]
    pos = []
    at = 0
    for m in marks:
        i = txt.find(m, at)
        if i < 0:
            return "bad"
        pos.append((i, i + len(m)))
        at = i + len(m)
    t = txt[pos[0][1]:pos[1][0]]
    l = txt[pos[1][1]:pos[2][0]]
    rest = txt[pos[2][1]:]
    i = rest.find(";\n  u: ")
    if i >= 0:
        q = rest[:i]
        u = rest[i + len(";\n  u: "):]
        if not u.endswith(";\n}\n"):
            return "bad"
        u = u[:-4]
    else:
        if not rest.endswith(";\n}\n"):
            return "bad"
        q = rest[:-4]
        u = ""
    return [t, l, q, u]


def coq_term(c, io):
    fs = impl_fields(io)
    if fs == "bad":
        impl = "(Some [[0%N]])"
    elif fs is None:
        impl = "None"
    else:
        impl = "(Some " + clist([ccps(x) for x in fs]) + ")"
    return f"(mkCase {cbool(c.get('interp', False))} {cbool(c.get('single', False))} {ccps(c['body'])} {impl})"


KCLASS = {0: None, 1: "known_C27_K1_length_counts_stored_text", 2: "known_C27_K2_token_denotes_other_string",
          3: "known_C27_K3_quote_unquote_line_break"}


def judge(c, io, r):
    corr, c1, k1, c2, k2, c3, k3 = r
    b = c["body"]
    names = (("interpolated-token-denotes-string", "-", "interpolation-keeps-string-and-length") if c.get("interp")
             else ("emitted-token-denotes-string", "length-counts-code-points", "quote-unquote-identity"))
    return {
        "corr": None if corr == 2 else (corr == 1 and io[0][0] in ("ok", "err")),
        "clauses": [(names[0], c1 == 1, KCLASS[k1]), (names[1], c2 == 1, KCLASS[k2]), (names[2], c3 == 1, KCLASS[k3])],
        "nontrivial": ("\\" in b) or ("'" in b) or any(0xE000 <= ord(ch) <= 0xF8FF or ord(ch) >= 0xF0000 for ch in b),
        "tags": (["interpolated"] if c.get("interp") else []) + (["single-quoted"] if c.get("single") else ["double-quoted"]) + (["escape"] if "\\" in b else ["plain"]) + (["error"] if io[0][0] == "err" else []),
        "show": program(c).replace("\n", " "),
        "detail": program(c),
    }


def shrink(c):
    b = c["body"]
    for i in range(len(b)):
        nb = b[:i] + b[i + 1:]
        if nb.endswith("\\") and not nb.endswith("\\\\"):
            continue
        yield {"body": nb, "single": c.get("single", False), "interp": c.get("interp", False)}


LEVEL_TEXT = ("proof (partial): the double- and single-quoted literal readers of parser/strings.rs (escaped_char, normalized_escaped_char_q, "
              "cleanup_escape_ws), CssString Display/unquote/quote/pref_dquotes are modelled; for every escape-free literal and every "
              "double-quoted literal of well-behaved pieces the emitted token is well delimited and denotes the literal's string, unquote yields "
              "that string and quote(unquote()) is the literal (induction over the pieces with a token-level invariant); "
              "five refuted clauses carry machine-checked witnesses; the model is tied to rsass by code-point-exact comparison "
              "of the printed token, str-length, quote(unquote()) and unquote() on generated literals")
LEVEL_NOTE = ("the general statement is false in several ways (length counts stored escapes; quote does not re-escape line breaks "
              "[the base-ten unquote F26b was fixed by cf6ac61]; a private-use character before a tab is written as an unterminated hex escape [the escaped-space and hex-digit/space parts of F33 were fixed by 6aead77 and 71d4ea9]; "
              "surrogate/out-of-range escapes are read as text): known findings")
TECHNIQUE = "Coq proof on the escape-free class + refutation witnesses + differential correspondence with a CSS-token decoder in Coq"
