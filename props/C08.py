"""C08 - Expanded and compressed styles describe the same stylesheet."""
from common import *
import destgen as D
import outtree as T

ID = "C08"
GEN = []
THEOREMS = []
COQ_HEADER = ("From Coq Require Import List NArith ZArith.\nFrom RV Require Import Run.C08.\n"
              "Import ListNotations.\nLocal Open Scope N_scope.")
RUN_EXPR = "Run.C08.run"
RULE = ""
EXHAUSTIVE = {"quick": False, "thorough": False}
SHARD = 150


def gen_cases(ctx, tier):
    import corpus
    rng = ctx.rng
    cases = [{"kind": "scss", "src": "/* #{$undefined} */ a{x:y}"}]
    items = [s for _, s in corpus.spec_inputs() if len(s.encode()) <= 3000]
    if tier == "quick":
        items = rng.sample(items, min(1500, len(items)))
    cases += [{"kind": "scss", "src": s} for s in items]
    return cases


def impl_requests(c):
    cmd = "scss" if c["kind"] == "scss" else "css"
    return [(cmd, "expanded", "10", c["src"]), (cmd, "compressed", "10", c["src"])]


def out_coq(o):
    tag, f = o
    if tag == "ok":
        return f"(IOk {cbytes(f[0])})"
    if tag == "err":
        return f"(IErr {cbytes(f[0])})"
    return "ICrash"


def coq_term(c, io):
    return f"(mkCase {cbytes(c['src'])} {out_coq(io[0])} {out_coq(io[1])})"


def judge(c, io, r):
    p1, p2, p3, k1 = r
    return {"corr": None, "clauses": [("same-outcome", p1 == 1, "known_C08_comment_interpolation" if k1 else None),
                                      ("same-message", p2 == 1, None), ("same-stylesheet", p3 == 1, None)],
            "nontrivial": io[0][0] == "ok" and bool(io[0][1][0]), "tags": [io[0][0] + "/" + io[1][0]],
            "show": c["src"][:200], "detail": c["src"], "key": c["src"]}
