"""C08 - Expanded and compressed styles describe the same stylesheet."""
from common import *
import destgen as D
import outtree as T

ID = "C08"
GEN = []
THEOREMS = ["C08_writer_layout", "C08_framing_layout", "C08_writer_same_sheet", "C08_value_newlines"]
COQ_HEADER = ("From Coq Require Import List NArith ZArith.\nFrom RV Require Import Run.C08.\n"
              "Import ListNotations.\nLocal Open Scope N_scope.")
RUN_EXPR = "Run.C08.run"
RULE = ("spec-corpus inputs (sample of 1300 in quick, all in thorough), generated programs of the statement subset, and "
        "generated CSS item trees fed as plain CSS, each compiled in both styles; the predicate (both succeed or both fail "
        "with the same message; equal text after the CssTok normalisation of white space, comments, leading zeros, empty "
        "blocks and the CssColor canonical colour notation) is computed in Coq on the two rsass outputs; distinct = distinct "
        "input text; non-trivial = the expanded output is not empty")
EXHAUSTIVE = {"quick": False, "thorough": False}
TRUSTED = ["Spec/CssTok.v normalize and Spec/CssColor.v color_canon: what `only white space, loud comments, leading zeros and "
           "equivalent colour notations may differ` means (colour names from the CSS Color specification)"]
ASSUMPTIONS = ["the theorems are about the writer model of Model/Out.v (tied to rsass by the C07 correspondence); value / "
               "number / colour formatting in the two styles is compared on rsass's outputs only"]
SHARD = 150

WIT = ["/* #{$undefined} */ a{x:y}", ".div{\n  $foo: 1, null, 2, null, 3;\n  content: \"#{$foo}\";\n}",
       "a{t: 1 + (2 + (3/4 + (4/5 6/7)))}", "a{b: #ff0000 red rgb(1, 2, 3) 0.5em transparent}", "a{/* only */}"]


def gen_cases(ctx, tier):
    import corpus
    rng = ctx.rng
    cases = [{"kind": "scss", "src": s} for s in WIT]
    items = [s for _, s in corpus.spec_inputs() if len(s.encode()) <= 3000]
    if tier == "quick":
        items = rng.sample(items, min(1300, len(items)))
    cases += [{"kind": "scss", "src": s} for s in items]
    for i in range(300 if tier == "quick" else 3000):
        cases.append({"kind": "scss", "src": D.gen_scss(rng)})
    for i in range(300 if tier == "quick" else 3000):
        tree = T.gen_tree(rng, maxtop=rng.choice([1, 2, 3, 5]), depth=3)
        cases.append({"kind": "css", "src": T.tree_css(tree)})
    return cases


def impl_requests(c):
    cmd = "scss" if c["kind"] == "scss" else "css"
    return [(cmd, "expanded", "10", c["src"]), (cmd, "compressed", "10", c["src"])]


def out_coq(o):
    tag, f = o
    if tag == "ok":
        return f"(IOk {cbytes(f[0])})"
    if tag == "err":
        return f"(IErr {cbytes(f[0])})"
    return "ICrash"


def coq_term(c, io):
    return f"(mkCase {cbytes(c['src'])} {out_coq(io[0])} {out_coq(io[1])})"


K2 = "known_C08_style_dependent_evaluation"


def judge(c, io, r):
    p1, p2, p3, k2 = r
    return {"corr": None,
            "clauses": [("same-outcome", p1 == 1, None),
                        ("same-message", p2 == 1, None),
                        ("same-stylesheet", p3 == 1, K2 if k2 else None)],
            "nontrivial": io[0][0] == "ok" and bool(io[0][1][0]), "tags": [c["kind"], io[0][0] + "/" + io[1][0]],
            "show": c["src"][:200], "detail": c["src"], "key": c["src"]}


LEVEL_TEXT = ("proof: for ALL comment-free css item trees whose leaf renderings agree up to layout, the expanded and the "
              "compressed writer (model of css/*.rs write methods, CssBuf and CssData::into_buffer, tied to rsass by C07's "
              "byte-exact correspondence) emit the same bytes in the same order up to space / newline / `;`; the full predicate "
              "of the statement (same outcome, same message, same normalised stylesheet) is computed in Coq on rsass's two "
              "outputs for corpus and generated inputs")
LEVEL_NOTE = ("partial: style-dependence of value formatting and of evaluation is explored, not proved (one known finding: text "
              "produced during evaluation is formatted with the output style; F11 was fixed in rsass 775eadf)")
TECHNIQUE = "Coq proof (lock-step induction over the item tree for the two writers) + predicate evaluation in Coq on implementation outputs"
