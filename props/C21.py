"""C21 - Evaluated content is never silently dropped."""
from common import *
import destgen as D

ID = "C21"
GEN = ["AtNames"]
THEOREMS = ["C21_drop_only_in_ns", "C21_top_level_accepts", "C21_push_item_preserves", "C21_close_no_loss",
            "C21_main", "C21_statement_keeps", "C21_nsrule_block_is_error", "C21_error_propagates",
            "C21_loop_error_not_overwritten"]
COQ_HEADER = ("From Coq Require Import List NArith ZArith.\nFrom RV Require Import Model.Out Model.OutDest Spec.Reach Run.C21.\n"
              "Import ListNotations.\nLocal Open Scope N_scope.")
RUN_EXPR = "Run.C21.run"
RULE = ("random programs of the statement subset placing uniquely named marker declarations, body-less at-rules and loud "
        "comments in every container kind (style rules, nested-property blocks, @media, other at-rules, @at-root, @if, @each, "
        "mixin bodies, content blocks) and @error in every statement position - also conditionally on the loop variable in one "
        "iteration of @each / @for / @while loops, raised directly, through an included mixin, through a called function or from the "
        "interpolation of a loud comment -, compiled in both styles; distinct = distinct "
        "SCSS text; non-trivial = the run reaches at least one marker or an @error")
EXHAUSTIVE = {"quick": False, "thorough": False}
TRUSTED = ["Spec/Reach.v: which leaf statements a run reaches (reference semantics of the statement subset)",
           "props/destgen.py prints the program as SCSS"]
ASSUMPTIONS = ["statement subset of Model/OutDest.v (no @use/@import of other files: loaded modules are not modelled)",
               "presence of a marker = its unique name/value text occurs in the output"]
SHARD = 120

WIT = [
    {"mixins": [], "main": [["r", [["p", "a"]], [["ns", "b", None, [["m", "print", [["d", "c", "d"]]]]]]]]},
    {"mixins": [], "main": [["r", [["p", "a"]], [["ns", "b", None, [["a", "supports", "(x: y)", [["d", "p001", "v001"]]]]]]]]},
    {"mixins": [[["e", "boom001"]]], "main": [["r", [["p", "a"]], [["inc", 0, None]]]]},
    {"mixins": [[["content"]]], "main": [["r", [["p", "a"]], [["inc", 0, [["loop", 2, [["if", True, [["e", "boom002"]], []]]]]]]]]},
]


def loop_wit(kind, inner):
    return {"mixins": [[["e", "boom800"]]],
            "main": [["each", kind, 1, 3, inner], ["r", [["p", ".tail"]], [["d", "marker", "reached"]]]]}


WIT += [
    # @error raised by a function called from a loud comment's interpolation (seeded C21-r2): must fail in BOTH styles
    {"mixins": [], "main": [["r", [["p", "a"]], [["d", "p910", "v910"], ["ce", "911"]]]]},
    {"mixins": [[["ce", "912"]]], "main": [["m", "print", [["r", [["p", "a"]], [["inc", 0, None]]]]]]},
    loop_wit("each", [["r", [["p", "a"]], [["cdfn", 1, 0, "913"], ["d", "p914", "v914"]]]]),
    # an error in a NON-FINAL iteration must not be overwritten by a later successful iteration (seeded C21-1)
    loop_wit("each", [["r", [["p", "a"]], [["d", "p901", "v901"], ["ifv", 1, 1, [["e", "boom902"]], []], ["d", "p903", "v903"]]]]),
    loop_wit("for", [["r", [["p", "a"]], [["ifv", 1, 0, [["e", "boom904"]], [["d", "p905", "v905"]]]]]]),
    loop_wit("while", [["r", [["p", "a"]], [["dfn", 1, 1, "p906", "v906"]]]]),
    loop_wit("each", [["r", [["p", "a"]], [["ifv", 1, 1, [["inc", 0, None]], []], ["d", "p907", "v907"]]]]),
    loop_wit("each", [["ifv", 1, 2, [["e", "boom908"]], [["r", [["p", "b"]], [["d", "p909", "v909"]]]]]]),
]


def gen_cases(ctx, tier):
    rng = ctx.rng
    cases = [{"src": D.program_scss(p), "prog": p} for p in WIT]
    n = 800 if tier == "quick" else 8000
    for i in range(n):
        pr = D.gen_program(rng, depth=rng.choice([2, 3, 4]), p_error=rng.choice([0.0, 0.0, 0.04, 0.1]), comments=0.12)
        cases.append({"src": D.program_scss(pr), "prog": pr})
    return cases


def impl_requests(c):
    return [("scss", "expanded", "10", c["src"]), ("scss", "compressed", "10", c["src"])]


def coq_term(c, io):
    return f"(mkCase {D.program_coq(c['prog'])} {D.impl_coq(io[0])} {D.impl_coq(io[1])})"




def judge(c, io, r):
    ce, cc, p1, p2, pe, lost = r
    corr = None if 2 in (ce, cc) else (ce == 1 and cc == 1)
    tags = ["ok" if io[0][0] == "ok" else io[0][0]]
    if lost:
        tags.append("model-swallowed-error")
    return {"corr": corr,
            "clauses": [("present/expanded", p1 == 1, None),
                        ("present/compressed", p2 == 1, None),
                        ("error-propagates", pe == 1, None)],
            "nontrivial": True, "tags": tags,
            "show": c["src"][:160], "detail": c["src"], "key": c["src"]}


def shrink(c):
    for pr in D.shrink_program(c["prog"]):
        yield {"src": D.program_scss(pr), "prog": pr}


LEVEL_TEXT = ("proof: in the model of the four destinations (with their Drop impls that log and continue) push_item fails only "
              "inside a nested-property destination, a successful push and a Drop without a nested-property ancestor preserve the "
              "multiset of leaf items, and - since rsass ac4acd7 refuses to open at-rule destinations inside a nested-property block - "
              "EVERY program of the statement subset, for every fuel and both styles, ends a successful run with no swallowed error "
              "(induction over the evaluator with the invariant `nested-property frames only on top`); a run that reaches @error in any "
              "statement position, also in a non-final loop iteration, does not succeed; the model is tied to rsass by byte-exact "
              "correspondence of whole compilations, and marker presence / error results are decided in Coq on rsass's output")
LEVEL_NOTE = ("partial: presence of every marker in the final text is decided on explored programs; loaded modules (@use/@import) "
              "are not in the model. F24 is fixed (no open finding)")
TECHNIQUE = "Coq proof (induction over fuel / frame stacks, additive measures) + translator (at-rule name tables) + differential correspondence"
