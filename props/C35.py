"""C35 - Meaning-preserving source rewrites do not change the output."""
import copy, re
from common import *
from C16 import G, b_coq

ID = "C35"
GEN = []
THEOREMS = ["C35_dash_underscore", "C35_dash_underscore_binding", "C35_debug_warn_partial"]
COQ_HEADER = ("From Coq Require Import String List ZArith NArith.\nFrom RV Require Import Model.EvScope Run.C35.\n"
              "Import ListNotations.\nLocal Open Scope string_scope.")
RUN_EXPR = "Run.C35.run"
RULE = ("generated programs (the statement language of C16: variables, rules, @media, @if/@each/@for/@while, mixins with parameters) and "
        "fixed corpus programs with functions, each with a random sequence of 1..3 rewrites out of: whitespace / silent comments between "
        "tokens, consistent renaming of variables and mixins, swapping -/_ at single occurrences of a name, hoisting an integer value "
        "into a fresh variable, inserting @debug/@warn, moving a top-level fragment into an @import-ed partial; "
        "distinct = distinct (base, rewritten) source pair; non-trivial = the rewritten source differs from the base")
EXHAUSTIVE = {"quick": False, "thorough": False}
TRUSTED = ["python: the rewriters themselves (they must be meaning-preserving in Sass); the SCSS printer of the statement language",
           "Model/EvArgs.v norm = sass/name.rs Name::from (replace('-', \"_\")), tied by the C18/C37 correspondences"]
ASSUMPTIONS = ["whitespace/comment insertion (token level: every existing whitespace, after `{ ; } , (`, before `} ; , )`, around `:`; never before `(`; selectors and @media queries get whitespace only) is parser-level: no theorem",
               "consistent renaming, hoisting and import splitting are checked by the metamorphic comparison only (no theorem)"]


# ---------------------------------------------------------------- printing with naming hooks
class P35:
    def __init__(self, rng, rename=False, swap=False):
        self.rng, self.swap = rng, swap
        self.defs, self.k = [], 0
        self.vbase = (lambda i: "zq-%d" % i) if rename else (lambda i: "va-r%d" % i)
        self.mbase = (lambda k: "other-mx%d" % k) if rename else (lambda k: "mi-x%d" % k)
        self.pairs = []

    def sp(self, name):
        """one occurrence of a name, possibly with -/_ swapped"""
        if self.swap and self.rng.random() < 0.4:
            s = name.replace("-", "_")
            self.pairs.append((name, s))
            return s
        return name

    def v(self, i):
        return self.sp(self.vbase(i))

    def e(self, e):
        if e[0] == "int":
            return str(e[1])
        if e[0] == "null":
            return "null"
        if e[0] == "hv":
            return "$" + self.sp("ho-k%d" % e[1])
        return "(if(variable-exists(%s), if($%s == null, 0, $%s), 0) + %d)" % (self.v(e[1]), self.v(e[1]), self.v(e[1]), e[2])

    def body(self, b):
        return " ".join(self.stmt(s) for s in b)

    def stmt(self, s):
        t = s[0]
        if t == "raw":
            return s[1]
        if t == "seth":
            return "$%s: %d;" % (self.sp("ho-k%d" % s[1]), s[2])
        if t == "set":
            return "$%s: %s%s%s;" % (self.v(s[1]), self.e(s[2]), " !default" if s[3] else "", " !global" if s[4] else "")
        if t == "read":
            return "q { r%d: if(variable-exists(%s), inspect($%s), undef); }" % (s[1], self.v(s[2]), self.v(s[2]))
        if t == "block":
            return ("b { %s }" if s[1] == "rule" else "@media print { %s }") % self.body(s[2])
        if t == "if":
            return "@if %s != 0 { %s } @else { %s }" % (self.e(s[1]), self.body(s[2]), self.body(s[3]))
        if t == "each":
            items = ", ".join(str(i) for i in s[2])
            if len(s[2]) == 0:
                items = "()"
            elif len(s[2]) == 1:
                items = "(%s,)" % items
            return "@each $%s in %s { %s }" % (self.v(s[1]), items, self.body(s[3]))
        if t == "for":
            return "@for $%s from %d %s %d { %s }" % (self.v(s[1]), s[2], "through" if s[4] else "to", s[3], self.body(s[5]))
        if t == "while":
            self.k += 1
            k = self.k
            return "$w%d: 0 !global; @while $w%d < %d { $w%d: $w%d + 1 !global; %s }" % (k, k, s[1], k, k, self.body(s[2]))
        if t == "mixin":
            self.k += 1
            k = self.k
            body = self.body(s[2])
            self.defs.append("@mixin %s(%s) { %s }" % (self.sp(self.mbase(k)), ", ".join("$" + self.v(p[0]) for p in s[1]), body))
            return "@include %s(%s);" % (self.sp(self.mbase(k)), ", ".join(self.e(p[1]) for p in s[1]))
        raise ValueError(t)


def bodies_of(s):
    return {"block": [2], "if": [2, 3], "each": [3], "for": [5], "while": [2], "mixin": [2]}.get(s[0], [])


def all_bodies(p):
    out = [p]
    for s in p:
        for j in bodies_of(s):
            out += all_bodies(s[j])
    return out


def rw_debug(p, rng):
    p = copy.deepcopy(p)
    for _ in range(rng.randrange(1, 4)):
        b = rng.choice(all_bodies(p))
        b.insert(rng.randrange(0, len(b) + 1),
                 ["raw", rng.choice(['@debug "dbg";', '@warn "wrn";', "@debug 1 + 1;", '@warn "a" + "b";'])])
    return p


def rw_hoist(p, rng):
    p = copy.deepcopy(p)
    k = [0]

    def go(b):
        i = 0
        while i < len(b):
            s = b[i]
            if s[0] == "set" and s[2][0] == "int" and rng.random() < 0.6:
                k[0] += 1
                b.insert(i, ["seth", k[0], s[2][1]])
                s[2] = ["hv", k[0]]
                i += 1
            elif s[0] == "mixin":
                for prm in s[1]:
                    if prm[1][0] == "int" and rng.random() < 0.6:
                        k[0] += 1
                        b.insert(i, ["seth", k[0], prm[1][1]])
                        prm[1] = ["hv", k[0]]
                        i += 1
            for j in bodies_of(s):
                go(s[j])
            i += 1
    go(p)
    return p


TOK = re.compile(r'''
    (?P<ws>\s+)
  | (?P<str>"[^"]*")
  | (?P<interp>\#\{[^}]*\})
  | (?P<var>\$[A-Za-z0-9_-]+(?:\.\.\.)?)
  | (?P<at>@[A-Za-z-]+)
  | (?P<bang>![a-z]+)
  | (?P<op>!=|==|<=|>=)
  | (?P<word>[A-Za-z0-9_.%-]+)
  | (?P<p>.)
''', re.X | re.S)

SEL_AT = {"@media"}


def tokenize(txt):
    out = []
    for m in TOK.finditer(txt):
        out.append((m.lastgroup, m.group(0)))
    return out


def is_cmp(tok):
    return tok is not None and ((tok[0] == "op") or (tok[0] == "p" and tok[1] in "<>"))


def rw_space(txt, rng, rate=0.25, tags=None):
    """insert whitespace / `// comment` + newline between adjacent tokens wherever that cannot change the meaning:
    at every existing whitespace, after `{ ; } , (`, before `} ; , )`, around the `:` of declarations, variable
    declarations, parameter defaults, keyword arguments and map entries.  Never before `(` (call syntax), never inside
    a token (strings, interpolation, `$x...`, numbers with units); selectors and @media queries get whitespace only."""
    toks = [t for t in tokenize(txt)]
    colon_ok = [False]
    # statement kinds: a statement that ends in `{` and does not start with `$` or an at-keyword other than @media is a selector
    n = len(toks)
    sel = [False] * n
    depth = 0
    start = 0
    for i, (k, t) in enumerate(toks):
        if k == "p" and t == "(":
            depth += 1
        elif k == "p" and t == ")":
            depth -= 1
        if k == "p" and t in "{;}" and depth == 0:
            if t == "{":
                first = next(((kk, tt) for kk, tt in toks[start:i] if kk != "ws"), None)
                if first and (first[0] in ("word", "p", "interp") or (first[0] == "at" and first[1] in SEL_AT)):
                    for q in range(start, i + 1):
                        sel[q] = True
            start = i + 1

    near_cmp = [False]

    def ws(comment_ok):
        r = rng.random()
        if comment_ok and r < 0.45:
            if near_cmp[0] and tags is not None:
                tags.add("comment-at-comparison")
            return rng.choice([" // note %d\n", "// n%d\n ", "  // x { y: %d }\n "]) % rng.randrange(100)
        return rng.choice([" ", "  ", "\n", "\t", " \n  "])

    nows = [(k, t) for k, t in toks if k != "ws"]
    out = []
    depth = 0
    prev = None        # previous non-ws token
    prev2 = None
    i = 0
    while i < n:
        k, t = toks[i]
        if k == "ws":
            nxt = toks[i + 1] if i + 1 < n else None
            near_cmp[0] = is_cmp(prev) or is_cmp(nxt)
            if prev is None or nxt is None or rng.random() >= rate:
                out.append(t)
            elif sel[i]:
                out.append(t + ws(False))
            else:
                comment_ok = not (prev[0] == "at" or nxt[0] == "bang" or (nxt[0] == "p" and nxt[1] == "{")
                                  or (nxt[0] == "p" and nxt[1] == "("))
                out.append(t + ws(comment_ok))
            i += 1
            continue
        # gap without whitespace between prev and this token
        if prev is not None and toks[i - 1][0] != "ws" and rng.random() < rate:
            pk, pt = prev
            ins = None
            near_cmp[0] = is_cmp(prev) or is_cmp((k, t))
            if sel[i]:
                if (pk == "p" and pt == ",") or (k == "p" and t == ","):
                    ins = ws(False)
            elif k == "p" and t == "(":
                ins = None
            elif pk == "p" and pt in "{;},(":
                ins = ws(True)
            elif k == "p" and t in "};,)":
                ins = ws(True)
            elif k == "p" and t == ":" and (pk == "var" or depth > 0 or
                                            (pk == "word" and (prev2 is None or (prev2[0] == "p" and prev2[1] in "{;}")))):
                ins = ws(True)
            elif pk == "p" and pt == ":" and depth >= 0 and out and colon_ok[-1]:
                ins = ws(True)
            if ins:
                out.append(ins)
        if k == "p" and t == ":":
            ok = (prev is not None and (prev[0] == "var" or depth > 0 or
                  (prev[0] == "word" and (prev2 is None or (prev2[0] == "p" and prev2[1] in "{;}"))))) and not sel[i]
            colon_ok.append(ok)
        if k == "p" and t == "(":
            depth += 1
        elif k == "p" and t == ")":
            depth -= 1
        out.append(t)
        prev2, prev = prev, (k, t)
        i += 1
    return "".join(out)



def split_import(p, rng):
    """(prefix, fragment, suffix) of the top-level statement list"""
    n = len(p)
    i = rng.randrange(0, n)
    j = rng.randrange(i + 1, n + 1)
    return p[:i], p[i:j], p[j:]


FIXED = [
    "@function dou-ble($n_1) { @return $n-1 * 2; } $ba-se: 4; a { b: dou_ble($ba_se); c: dou-ble(3); }",
    "@mixin bo-x($wi_dth: 10px, $re-st...) { width: $wi-dth; rest: inspect($re_st); } a { @include bo_x(1px, 2, 3); } b { @include bo-x($wi-dth: 3px); }",
    "$li-st: (1, 2, 3); @function su-m($l) { $t: 0; @each $i in $l { $t: $t + $i; } @return $t; } a { s: su_m($li_st); }",
    "$ma_p: (k-1: 1, k_2: 2); a { @each $k, $v in $ma-p { #{$k}: $v; } }",
    "@mixin pa-d($x: 1px, $y: 2px) { padding: $y $x; } @function sca-le($n, $fa_ctor: 2, $unit: 1px) { @return $n * $fa-ctor * $unit; } "
    ".box, .bo-x2 { @include pa_d($y: 4px); width: sca_le(3); height: sca-le(2, $unit: 1em); }",
    "@function pi-ck($m, $k: b, $d: (1, 2)) { @return map-get($m, $k); } $ma-p: (a: 1, b: (x: 2, y: 3), c: 4); "
    "i, j { v: inspect(pi_ck($ma_p)); w: pi-ck($ma-p, c); u: inspect(pi-ck($k: a, $m: $ma-p)); }",
]


def gen_cases(ctx, tier):
    rng = ctx.rng
    cases = []
    mult = 1 if tier == "quick" else 12
    for i in range(700 * mult):
        mode = rng.choice(["free", "own", "flagged"])
        p = G(rng, mode).program(rng.choice([2, 3, 3]))
        kinds = rng.sample(["space", "rename", "dash", "hoist", "debug", "import"], rng.randrange(1, 4))
        cases.append({"p": p, "kinds": sorted(kinds), "seed": rng.randrange(1 << 30)})
    for t in FIXED:
        for s in range(12 * mult):
            cases.append({"text": t, "kinds": ["dash", "space"], "seed": rng.randrange(1 << 30)})
    return cases


def search_cases(ctx, broken):
    return gen_cases(ctx, "quick")


def build(c):
    """-> (base files, rewritten files, name pairs, import fragment or None)"""
    import random
    rng = random.Random(c["seed"])
    kinds = c["kinds"]
    if "text" in c:
        base = c["text"]
        pairs = []

        def swp(m):
            if rng.random() < 0.5:
                return m.group(0)
            s = m.group(0)
            t = s.replace("-", "~").replace("_", "-").replace("~", "_")
            pairs.append((s, t))
            return t
        rew = re.sub(r"\b(dou[-_]ble|ba[-_]se|n[-_]1|bo[-_]x|wi[-_]dth|re[-_]st|li[-_]st|su[-_]m|ma[-_]p)\b", swp, base)
        tags = set()
        rew = rw_space(rew, rng, tags=tags)
        return {"main.scss": base}, {"main.scss": rew}, pairs, None, sorted(tags)
    p = c["p"]
    bp = P35(rng)
    main = bp.body(p)
    base = {"main.scss": "\n".join(bp.defs + [main])}
    q = p
    if "debug" in kinds:
        q = rw_debug(q, rng)
    if "hoist" in kinds:
        q = rw_hoist(q, rng)
    rp = P35(rng, rename="rename" in kinds, swap="dash" in kinds)
    frag = None
    if "import" in kinds:
        pre, fr, suf = split_import(q, rng)
        t_pre, t_fr, t_suf = rp.body(pre), rp.body(fr), rp.body(suf)
        files = {"main.scss": "\n".join(rp.defs + [t_pre, '@import "part";', t_suf]), "_part.scss": t_fr}
        frag = [s for s in fr if s[0] not in ("raw", "seth")]
        frag = strip_ext(frag)
    else:
        files = {"main.scss": "\n".join(rp.defs + [rp.body(q)])}
    tags = set()
    if "space" in kinds:
        files = {k: rw_space(v, rng, tags=tags) for k, v in files.items()}
    return base, files, rp.pairs, frag, sorted(tags)


def strip_ext(b):
    """the fragment in the pure C16 language (for the Coq class predicate): drop raw/seth, hv -> int 0"""
    out = []
    for s in b:
        if s[0] in ("raw", "seth"):
            continue
        s = copy.deepcopy(s)
        if s[0] == "set" and s[2][0] == "hv":
            s[2] = ["int", 0]
        if s[0] == "mixin":
            for prm in s[1]:
                if prm[1][0] == "hv":
                    prm[1] = ["int", 0]
        for j in bodies_of(s):
            s[j] = strip_ext(s[j])
        out.append(s)
    return out


def req(files):
    args = ["expanded", "10", "main.scss", "none"]
    for n, t in files.items():
        args += [n, t]
    return tuple(["files"] + args)


def impl_requests(c):
    base, rew = build(c)[:2]
    return [req(base), req(rew)]


def out_term(o):
    tag, f = o
    if tag == "ok":
        return "(OOk %s)" % cbytes(f[0])
    if tag == "err":
        return "OErr"
    return "OOther"


def coq_term(c, io):
    _, _, pairs, frag, tags = build(c)
    ps = clist(["(%s, %s)" % (cstring(a), cstring(b)) for a, b in pairs[:12]])
    fr = "None" if frag is None else "(Some %s)" % b_coq(frag)
    tg = clist([cstring(t) for t in tags])
    return "(mkCase %s %s %s %s %s)" % (out_term(io[0]), out_term(io[1]), ps, fr, tg)


KCLASS = {0: None, 1: "known_C35_K1_import_scope"}


def judge(c, io, r):
    corr, ok, k = r
    base, rew = build(c)[:2]
    return {
        "corr": None if corr == 2 else corr == 1,
        "clauses": [("same-output", ok == 1, KCLASS[k])],
        "nontrivial": base != rew,
        "key": json.dumps([base, rew], sort_keys=True),
        "tags": list(c["kinds"]) + [io[0][0]],
        "show": " ||| ".join("%s: %s" % (n, t.replace("\n", " ")) for n, t in list(base.items()) + list(rew.items())),
        "detail": {"base": base, "rewritten": rew},
    }


def shrink(c):
    if "p" not in c:
        return
    if len(c["kinds"]) > 1:
        for k in c["kinds"]:
            yield dict(c, kinds=[x for x in c["kinds"] if x != k])
    p = c["p"]
    for i in range(len(p)):
        if len(p) > 1:
            yield dict(c, p=p[:i] + p[i + 1:])


LEVEL_TEXT = ("metamorphic check evaluated in Coq on the implementation's two outputs (byte equality / both errors) over generated programs "
              "and rewrite sequences; proof: Name normalisation makes every -/_ spelling of a name the same key (all strings), and the "
              "argument binder is invariant under respelling (C18 model); inserting @debug/@warn between the statements of a body leaves "
              "state and CSS output unchanged in the evaluator model (partial: one nesting level); the @import rewrite has a known finding (no model)")
LEVEL_NOTE = ("partial: renaming, hoisting, whitespace/comments and @import splitting are checked by comparison only (no theorems); "
              "trusted: the python rewriters, the harness")
TECHNIQUE = "metamorphic differential check judged in Coq + Coq lemmas on name normalisation and @debug/@warn in the evaluator model"
