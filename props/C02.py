"""C02 - Module loading terminates; only real cycles are loop errors."""
import itertools
from common import *
from loadlib import *

ID = "C02"
GEN = ["Candidates"]
THEOREMS = ["C02_ok_restores_locks", "C02_loop_sound", "C02_acyclic_no_loop", "C02_ok_acyclic", "C02_terminates",
            "C02_loop_complete", "C02_every_world_terminates"]
COQ_HEADER = ("From Coq Require Import String List ZArith NArith.\nFrom RV Require Import Gen.Candidates Model.Load Model.LoadRun Run.C02.\n"
              "Import ListNotations.\nLocal Open Scope string_scope.")
RUN_EXPR = "Run.C02.run"
RULE = ("directed multigraphs over 2-4 stylesheets (root t plus a, b, c), every edge one of @import/@use/@forward/meta.load-css "
        "with the url spelled canonically, with ./, with d/../ (d existing) or through a missing directory; acyclic family (files "
        "loaded many times), cyclic canonical family, cyclic family with a non-canonical spelling or load-css on the cycle; "
        "normalising in-memory loader (loader-call log compared), exact in-memory loader and the real file system; "
        "distinct = distinct (mode, graph); non-trivial = at least two load edges")
EXHAUSTIVE = {"quick": False, "thorough": True}
TRUSTED = ["Spec/LoadRef.v: reference semantics (canonical files, stack-based loop detection) written from the property text",
           "the operating system resolves `.`/`..` as Model/LoadRun.v fs_isfile does (checked against the real file system on every run)",
           "urls are resolved lexically (`x/../a` = `a` even when x does not exist), as rsass does since d80c9be and as the "
           "reference semantics states; a run stopped by the operating system (stack overflow, PATH_MAX) would be counted as "
           "non-termination (class 9): none occurs any more"]
ASSUMPTIONS = ["loads are top-level directives with literal urls; every file of a world parses",
               "model fuel 60 nested loads: terminating runs of the generated worlds nest far less (a disagreement would be reported)"]
TIMEOUT_PER_CASE = 40.0

FILES = ["t", "a", "b", "c"]
KINDS4 = ["import", "use", "forward", "loadcss"]
SPELL = ["{}", "./{}", "d/../{}", "./d/../{}", "d/.././{}"]


def build(n, edges, mode, partial=()):
    """edges: list of (src index, dst index or None, kind, spelling template)"""
    # a file without loads of its own is sometimes a plain css file (deterministic in the graph)
    leaf_css = {i for i in range(1, n) if not any(s == i for (s, _, _, _) in edges) and (i + len(edges)) % 4 == 0}
    names = [(("_" if i in partial else "") + FILES[i] + (".css" if i in leaf_css else ".scss")) for i in range(n)]
    bodies = [[["emit", i]] for i in range(n)]
    for (s, d, k, sp) in edges:
        target = FILES[d] if d is not None else "zz"
        pos = len(bodies[s]) if (len(bodies[s]) + s + (d or 0)) % 3 else 0
        bodies[s].insert(pos, ["load", k, sp.format(target)])
    world = [[names[i], bodies[i]] for i in range(n)]
    if any("d/" in sp for (_, _, _, sp) in edges):
        world.append(["d/k.scss", []])
    if mode == "fs":
        world = [["R/" + n_, b] for n_, b in world]
        return {"mode": "fs", "bases": ["R"], "root": names[0], "rootid": "R/" + names[0], "world": world}
    return {"mode": mode, "fault": "none", "bases": [""], "root": names[0], "rootid": names[0], "world": world}


def may_diverge(n, edges):
    """static over-approximation: a cycle through a spelled edge, or a cycle of load-css edges"""
    adj = {i: set() for i in range(n)}
    for (s, d, k, sp) in edges:
        if d is not None:
            adj[s].add(d)

    def reach(a, b, g):
        seen, todo = set(), [a]
        while todo:
            x = todo.pop()
            for y in g[x]:
                if y == b:
                    return True
                if y not in seen:
                    seen.add(y)
                    todo.append(y)
        return False
    live = {0} | {i for i in range(n) if reach(0, i, adj)}       # files reachable from the root
    for (s, d, k, sp) in edges:
        if s in live and d is not None and sp != "{}" and "nodir" not in sp and (d == s or reach(d, s, adj)):
            return True
    lc = {i: set() for i in range(n)}
    for (s, d, k, sp) in edges:
        if s in live and d is not None and k == "loadcss":
            lc[s].add(d)
    return any(reach(i, i, lc) for i in live)


def gen_cases(ctx, tier):
    rng = ctx.rng
    quiet, loud = [], []

    def add(n, edges, mode=None, partial=()):
        if mode is None:
            canonical = all(sp == "{}" for (_, _, _, sp) in edges)
            r = rng.random()
            mode = "fs" if r < 0.12 else ("mem" if canonical and r < 0.3 else "norm")
        c = build(n, edges, mode, partial)
        (loud if may_diverge(n, edges) else quiet).append(c)

    # corpus / known-finding witnesses
    add(1, [(0, 0, "import", "./{}")], "norm")                       # former F5 (fixed by d80c9be)
    add(1, [(0, 0, "import", "./{}")], "fs")                         # former F5 on the real file system
    add(2, [(0, 1, "loadcss", "{}"), (1, 1, "loadcss", "{}")], "norm")   # former F6 (fixed by 2454c18)
    add(2, [(0, 1, "use", "{}"), (1, 0, "use", "d/../{}")], "norm")
    add(1, [(0, 0, "import", "{}")], "mem")
    add(1, [(0, 0, "loadcss", "{}")], "mem")
    add(2, [(0, 1, "use", "{}"), (1, 0, "use", "{}")], "mem")
    add(2, [(0, 1, "loadcss", "{}"), (1, 0, "forward", "{}")], "mem")
    add(3, [(0, 1, "loadcss", "{}"), (1, 2, "use", "{}"), (2, 1, "use", "{}")], "norm")
    add(3, [(0, 1, "use", "{}"), (1, 2, "loadcss", "{}"), (2, 1, "loadcss", "{}")], "norm")
    add(2, [(0, 1, "use", "./{}"), (1, 1, "use", "{}")], "norm")
    add(3, [(0, 1, "use", "./{}"), (1, 2, "use", "{}"), (2, 1, "use", "{}")], "norm")
    add(3, [(0, 1, "use", "{}"), (0, 1, "use", "./{}"), (0, 1, "import", "d/../{}"), (1, 2, "forward", "{}"), (0, 2, "loadcss", "./{}")], "norm")

    ncorpus = len(loud)

    def rnd_edge(s, d, canonical):
        sp = "{}" if canonical else rng.choice(SPELL + ["{}", "{}"])
        return (s, d, rng.choice(KINDS4), sp)

    na, nb, nc = (600, 400, 130) if tier == "quick" else (6000, 5000, 2000)
    # family A: acyclic (edges go from lower to higher index), any spelling, multi-edges
    for _ in range(na):
        n = rng.choice([2, 3, 3, 4, 4])
        edges = []
        for i in range(n):
            for j in range(i + 1, n):
                for _ in range(rng.choice([0, 1, 1, 2, 3])):
                    edges.append(rnd_edge(i, j, False))
        if rng.random() < 0.15:
            edges.append((rng.randrange(n), None, rng.choice(KINDS4), rng.choice(["{}", "nodir/../{}"])))
        if rng.random() < 0.1 and n > 1:
            edges.append((rng.randrange(n - 1), n - 1, rng.choice(KINDS4), "nodir/../{}"))
        rng.shuffle(edges)
        add(n, edges, partial=tuple(i for i in range(1, n) if rng.random() < 0.15))
    # family B: arbitrary digraphs, canonical spellings
    for _ in range(nb):
        n = rng.choice([1, 2, 2, 3, 3, 4])
        edges = [rnd_edge(i, j, True) for i in range(n) for j in range(n) if rng.random() < (0.45 if n <= 2 else 0.3)]
        add(n, edges)
    # family C: a cycle with a spelled edge or made of load-css edges
    for _ in range(nc * 3):
        n = rng.choice([1, 2, 2, 3, 3])
        cyc = rng.sample(range(n), rng.randint(1, n))
        edges = []
        if 0 not in cyc:
            edges.append(rnd_edge(0, cyc[0], rng.random() < 0.5))
        lconly = rng.random() < 0.3
        for x, y in zip(cyc, cyc[1:] + cyc[:1]):
            edges.append((x, y, "loadcss" if lconly else rng.choice(KINDS4), "{}" if lconly else rng.choice(SPELL)))
        add(n, edges)
    if tier == "thorough":
        # every graph on two files with at most one edge per ordered pair (13^4 configurations)
        opts = [None] + [(k, sp) for k in KINDS4 for sp in SPELL[:3]]
        for combo in itertools.product(opts, repeat=4):
            edges = [(s, d, o[0], o[1]) for (s, d), o in zip([(0, 0), (0, 1), (1, 0), (1, 1)], combo) if o]
            add(2, edges, "norm")
    # (before the fixes d80c9be / 2454c18 the `loud` graphs overflowed the stack and were rationed;
    #  now they are ordinary cases: loop errors)
    rest = loud[ncorpus:]
    rng.shuffle(rest)
    cap = 400 if tier == "quick" else 30000
    cases = loud[:ncorpus] + quiet + rest[:cap]
    return cases


def search_cases(ctx, broken):
    cases = []
    opts = [None] + [(k, "{}") for k in KINDS4]
    for combo in itertools.product(opts, repeat=4):
        edges = [(s, d, o[0], o[1]) for (s, d), o in zip([(0, 0), (0, 1), (1, 0), (1, 1)], combo) if o]
        if not may_diverge(2, edges):
            cases.append(build(2, edges, "mem"))
    return cases


def impl_requests(c):
    return requests_of(c)


def coq_term(c, io):
    d = decode(c, io[0])
    return (f"(mkCase {coq_world(c['world'])} {coq_mode(c)} {cstring(c['root'])} {cstring(c['rootid'])} {coq_impl(d)})")


KCLASS = {0: None}


def judge(c, io, r):
    corr, t1, t2, t3, t4, k, refcls = r
    d = decode(c, io[0])
    nedges = sum(1 for _, b in c["world"] for x in b if x[0] == "load")
    return {
        "corr": corr == 1,
        "clauses": [("terminates", t1 == 1, None), ("loop-reported", t2 == 1, None),
                    ("no-false-loop", t3 == 1, None), ("outcome", t4 == 1, None)],
        "nontrivial": nedges >= 2,
        "tags": [c["mode"], f"ref{refcls}", f"impl{d['cls']}"],
        "show": f"{c['mode']} " + " | ".join(f"{n}: " + scss_of(n, b).replace(chr(10), ' ') for n, b in c["world"]) + f" -> class {d['cls']} {d['markers']}",
        "detail": {"files": {n: scss_of(n, b) for n, b in c["world"]}, "impl": d},
    }


def shrink(c):
    # drop one load directive at a time
    for i, (n, b) in enumerate(c["world"]):
        for j, x in enumerate(b):
            if x[0] == "load":
                w = [[n2, list(b2)] for n2, b2 in c["world"]]
                del w[i][1][j]
                yield dict(c, world=w)


LEVEL_TEXT = ("proof, full strength since the fixes d80c9be and 2454c18: for every loader and every world - soundness (a loop "
              "error exhibits a real cycle reachable from the root: every locked key is the name of a file on the load stack), "
              "completeness (css is returned only if nothing reachable from the root lies on a cycle: when a file first finishes, "
              "every file it loads has finished before; hence a reachable cycle always ends in an error) and termination (a loader "
              "that knows finitely many names needs at most |names|+1 nested loads: no normalized name is locked twice); instance: "
              "every in-memory world terminates; tied to the code by exact loader-call-log and output correspondence over "
              "generated graphs, all two-file graphs in thorough")
LEVEL_NOTE = ("trusted: Coq kernel+vm_compute, the harness (normalising in-memory loader), Spec/LoadRef.v; F5 and F6 are fixed "
              "in /repo (d80c9be, 2454c18): no known-finding class is left")
TECHNIQUE = "Coq proof (invariants by induction on fuel and bodies; finishing-order argument) + differential correspondence against a reference interpreter"
