"""C30 - calc() simplifies soundly."""
import struct
from fractions import Fraction
from common import *

ID = "C30"
GEN = ["Units", "Operators"]
THEOREMS = ["C30_operator_rank", "C30_paren_rule", "C30_refuted_paren_right", "C30_refuted_paren_left",
            "C30_simplify", "C30_kept", "C30_reparse_small", "C30_refuted_right_div", "C30_refuted_left_sum"]
COQ_HEADER = ("From Coq Require Import String List NArith ZArith QArith Bool.\n"
              "From RV Require Import Spec.CalcSem Model.Calc Run.C30.\n"
              "Import ListNotations.\nLocal Open Scope string_scope.")
RUN_EXPR = "Run.C30.run"
RULE = ("calculation trees of up to 5 operators (+ - * /) over numbers with units (px in cm pt em % s, unitless) and var(), "
        "typed so that a reference value exists under two generated environments, printed with minimal parentheses; plus "
        "min()/max()/clamp() over 2-3 numbers; distinct = distinct text; non-trivial = at least two operators or a unit conversion")
EXHAUSTIVE = {"quick": False, "thorough": False}
TRUSTED = ["Spec/CalcSem.v: CSS calc grammar/typing and the text decoder, Spec/CssUnits.v: the CSS unit ratios",
           "Rust str::parse::<f64> is correctly rounded (numbers reach rsass as decimal text, the model as bits)",
           "functional equality of calculations is tested on two generated environments per case"]
ASSUMPTIONS = ["identifiers and functions other than var() inside calc() are outside the model",
               "model text only for numbers that are dyadic with <= 10 fractional bits (others: clauses still checked, correspondence skipped)"]
SHARD = 200

OPS = {"+": "CAdd", "-": "CSub", "*": "CMul", "/": "CDiv"}
PREC = {"+": 1, "-": 1, "*": 2, "/": 2}
NUMS = ["1", "2", "3", "4", "5", "6", "8", "10", "12", "16", "0.5", "1.5", "2.5", "0.25", "7", "100"]
LEN_UNITS = ["px", "px", "px", "in", "cm", "pt", "em", "%"]
DIVS = ["2", "4", "8", "2", "4", "3", "5", "0.5"]


def bits(x):
    return struct.unpack(">Q", struct.pack(">d", x))[0]


def num(text, unit):
    return ["n", text, unit]


def gen_tree(rng, n, ty, nvars):
    """ty 'len' or 'num'; returns tree; vars: index < nvars//2 are lengths, the others plain numbers."""
    if n == 0:
        r = rng.random()
        if r < 0.35:
            half = nvars // 2
            return ["v", rng.randrange(0, half) if ty == "len" else rng.randrange(half, nvars)]
        t = rng.choice(NUMS)
        if rng.random() < 0.12:
            t = "-" + t
        return num(t, rng.choice(LEN_UNITS) if ty == "len" else "")
    k = rng.randrange(n)
    a, b = k, n - 1 - k
    r = rng.random()
    if ty == "len":
        if r < 0.45:
            return ["b", rng.choice("+-"), gen_tree(rng, a, "len", nvars), gen_tree(rng, b, "len", nvars)]
        if r < 0.65:
            return ["b", "*", gen_tree(rng, a, "len", nvars), gen_tree(rng, b, "num", nvars)]
        if r < 0.8:
            return ["b", "*", gen_tree(rng, a, "num", nvars), gen_tree(rng, b, "len", nvars)]
        return ["b", "/", gen_tree(rng, a, "len", nvars), gen_div(rng, b, nvars)]
    if r < 0.4:
        return ["b", rng.choice("+-"), gen_tree(rng, a, "num", nvars), gen_tree(rng, b, "num", nvars)]
    if r < 0.7:
        return ["b", "*", gen_tree(rng, a, "num", nvars), gen_tree(rng, b, "num", nvars)]
    return ["b", "/", gen_tree(rng, a, "num", nvars), gen_div(rng, b, nvars)]


def gen_div(rng, n, nvars):
    """a divisor: plain number, never zero-valued by construction of leaves (sums may cancel: filtered later)."""
    if n == 0:
        if rng.random() < 0.3:
            half = nvars // 2
            return ["v", rng.randrange(half, nvars)]
        return num(rng.choice(DIVS), "")
    k = rng.randrange(n)
    return ["b", rng.choice("*/*+"), gen_div(rng, k, nvars), gen_div(rng, n - 1 - k, nvars)]


def tprec(t):
    return PREC[t[1]] if t[0] == "b" else 3


def text_of(t):
    if t[0] == "n":
        return t[1] + t[2]
    if t[0] == "v":
        return f"var(--v{t[1]})"
    _, o, l, r = t
    ls, rs = text_of(l), text_of(r)
    if tprec(l) < PREC[o]:
        ls = "(" + ls + ")"
    if tprec(r) < PREC[o] + 1:
        rs = "(" + rs + ")"
    return f"{ls} {o} {rs}"


def cq(fr):
    return f"({fr.numerator} # {fr.denominator})" if fr >= 0 else f"(({fr.numerator}) # {fr.denominator})"


def tree_term(t):
    if t[0] == "n":
        fr = Fraction(t[1])
        return f"(XNum {cq(fr)} {cz(bits(float(t[1])))} {cstring(t[2])})"
    if t[0] == "v":
        return f"(XVar {int(t[1])})"
    return f"(XBin {OPS[t[1]]} {tree_term(t[2])} {tree_term(t[3])})"


def nops(t):
    return 1 + nops(t[2]) + nops(t[3]) if t[0] == "b" else 0


def mk_envs(rng, nvars):
    envs = []
    for k in range(2):
        half = nvars // 2
        vs = []
        for i in range(nvars):
            v = Fraction(rng.randrange(2, 40) * 2 + 1, rng.choice([1, 2, 4]))
            vs.append([str(v.numerator), str(v.denominator), "length" if i < half else ""])
        envs.append({"vars": vs, "units": [["em", str(rng.choice([10, 12, 16, 18]))], ["%", str(rng.choice([3, 5, 7]))],
                                            ["rem", "14"], ["vw", "9"]]})
    return envs


CORPUS_CALC = [
    ["b", "/", ["v", 0], ["b", "/", ["v", 2], num("2", "")]],                                   # F27
    ["b", "*", ["b", "+", ["v", 0], num("1", "px")], num("2", "")],                             # left sum
    ["b", "/", ["b", "-", ["v", 0], num("1", "px")], num("2", "")],
    ["b", "*", num("2", ""), ["b", "+", ["v", 0], num("1", "px")]],
    ["b", "-", ["v", 0], ["b", "-", ["v", 1], num("1", "px")]],
    ["b", "-", ["v", 0], ["b", "+", ["v", 1], num("1", "px")]],
    ["b", "+", num("1", "px"), num("2", "px")],
    ["b", "+", num("1", "in"), num("1", "px")],
    ["b", "+", num("1", "px"), num("1", "em")],
    ["b", "*", ["b", "+", num("1", "px"), num("1", "em")], num("2", "")],
    ["b", "+", num("1", "px"), num("1", "s")],
    ["b", "/", num("10", "px"), num("4", "")],
    ["b", "/", num("10", "px"), num("3", "")],
    ["b", "+", ["v", 0], num("-2", "px")],
    ["b", "-", ["v", 0], num("-2", "px")],
    ["b", "*", ["v", 0], ["b", "/", num("2", ""), ["v", 2]]],
    ["b", "+", ["b", "*", num("1", "px"), num("2", "")], ["v", 0]],
    ["b", "*", ["b", "+", num("1", "px"), num("2", "px")], ["v", 2]],
    ["b", "+", num("50", "%"), num("10", "px")],
    ["b", "/", ["v", 0], ["b", "*", ["v", 2], num("2", "")]],
    ["b", "/", ["b", "*", ["b", "+", ["v", 0], num("1", "px")], num("3", "")], num("2", "")],
]


def gen_cases(ctx, tier):
    rng = ctx.rng
    cases = []
    for t in CORPUS_CALC:
        cases.append({"kind": 0, "args": [t], "envs": mk_envs(rng, 4)})
    ncalc = 1500 if tier == "quick" else 20000
    for _ in range(ncalc):
        n = rng.choice([1, 1, 2, 2, 2, 3, 3, 3, 4, 4, 5])
        t = gen_tree(rng, n, rng.choice(["len", "len", "num"]), 4)
        if rng.random() < 0.3:
            # numbers only: the simplification clause
            t = strip_vars(rng, t)
        cases.append({"kind": 0, "args": [t], "envs": mk_envs(rng, 4)})
    nfun = 350 if tier == "quick" else 5000
    for _ in range(nfun):
        kind = rng.choice([1, 2, 3])
        k = 3 if kind == 3 else rng.choice([2, 2, 3])
        fam = rng.choice(["abs", "abs", "same", "mixed", "none"])
        args = []
        for _ in range(k):
            if fam == "abs":
                u = rng.choice(["px", "in", "cm", "pt", "px"])
            elif fam == "same":
                u = "em"
            elif fam == "none":
                u = ""
            else:
                u = rng.choice(["px", "em", "%", "s", "", "in"])
            args.append(num(rng.choice(NUMS), u))
        cases.append({"kind": kind, "args": args, "envs": mk_envs(rng, 4)})
    seen, out = set(), []
    for c in cases:
        k = show(c)
        if k not in seen:
            seen.add(k)
            out.append(c)
    return out


def strip_vars(rng, t):
    if t[0] == "v":
        return num(rng.choice(NUMS), "px" if t[1] < 2 else "")
    if t[0] == "b":
        return ["b", t[1], strip_vars(rng, t[2]), strip_vars(rng, t[3])]
    return t


def search_cases(ctx, broken):
    rng = ctx.rng
    return [{"kind": 0, "args": [gen_tree(rng, rng.choice([2, 3, 4]), "len", 4)], "envs": mk_envs(rng, 4)} for _ in range(2500)]


FN = {0: "calc", 1: "min", 2: "max", 3: "clamp"}


def show(c):
    return FN[c["kind"]] + "(" + ", ".join(text_of(a) for a in c["args"]) + ")"


def impl_requests(c):
    return [("value", "expanded", "10", show(c))]


def env_term(e):
    vs = clist([f"(({v[0]} # {v[1]}), " + ("[(\"length\", 1%Z)]" if v[2] else "[]") + ")" for v in e["vars"]])
    us = clist([f"({cstring(u)}, ({k} # 1))" for u, k in e["units"]])
    return f"(mkEnv {vs} {us})"


def coq_term(c, io):
    tag, f = io[0]
    if tag == "ok":
        txt = f[0]
        if any(b < 32 or b > 126 for b in txt):
            impl = "IOther"
        else:
            impl = f"(IOk {cbytes(txt)})"
    elif tag == "err":
        impl = "IErr"
    else:
        impl = "IOther"
    return (f"(mkCase {cn(c['kind'])} {clist([tree_term(a) for a in c['args']])} "
            f"{clist([env_term(e) for e in c['envs']])} {impl})")


KCLASS = {0: None, 1: "known_C30_K1_right_nested_div", 2: "known_C30_K2_left_sum_under_product"}


def judge(c, io, r):
    corr, c1, c2, k, simp, typed = r
    if io[0][0] in ("panic", "crash"):
        corr = 0
    return {
        "corr": None if corr == 2 else (corr == 1),
        "clauses": [("simplify-to-sass-number", c1 == 1, None), ("same-calculation", c2 == 1, KCLASS[k])],
        "nontrivial": sum(nops(a) for a in c["args"]) >= 2 or len(c["args"]) > 1,
        "tags": [FN[c["kind"]], "simplifiable" if simp else ("typed" if typed else "untyped"), f"class{k}"],
        "show": show(c),
        "detail": show(c),
    }


def shrink(c):
    if c["kind"] != 0:
        return
    t = c["args"][0]
    def subs(t):
        if t[0] == "b":
            yield t[2]
            yield t[3]
            for s in subs(t[2]):
                yield ["b", t[1], s, t[3]]
            for s in subs(t[3]):
                yield ["b", t[1], t[2], s]
    for s in subs(t):
        yield dict(c, args=[s])


LEVEL_TEXT = ("proof: the parenthesis decision of css/binop.rs Display (derived order of enum Operator, regenerated on every run) is compared with the "
              "one CSS grouping needs for every operator pair (finite sweep; two refuted pair classes); all-number calculations whose every "
              "Operator::eval step gives a number simplify to exactly that fold (induction); exhaustive reparse sweep of small kept trees; "
              "model tied to the code by text-exact correspondence on generated calculations")
LEVEL_NOTE = ("trusted: Coq kernel+vm_compute, Flocq binary64, gen/rs2v.py + gens/Operators.py, the harness, Spec/CalcSem.v, Spec/CssUnits.v; "
              "`same calculation` is false on the pinned tree in two recorded classes (F27 and the lost parentheses of a left-hand sum)")
TECHNIQUE = "Coq proof (finite sweeps over generated operator order + structural induction) + translator + differential correspondence"
