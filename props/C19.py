"""C19 - Nested selectors combine as Sass specifies."""
import copy
from common import *
from selkit import *

ID = "C19"
GEN = []
THEOREMS = ["C19_round_robin_is_outer_major", "C19_no_ref_product", "C19_no_ref_descendant", "C19_no_ref_text",
            "C19_root_identity", "C19_ref_compound_partial", "C19_ref_product_partial", "C19_ref_suffix_name", "C19_ref_simple_added",
            "C19_suffix_error", "C19_suffix_error_sound", "C19_refuted_host_parent"]
COQ_HEADER = ("From Coq Require Import List NArith ZArith.\nFrom RV Require Import Model.Sel Run.C19.\n"
              "Import ListNotations.\nLocal Open Scope list_scope.")
RUN_EXPR = "Run.C19.run"
RULE = ("nests of 1-4 style rules, each with 1-3 complex selectors (1-3 compounds, all combinators, attributes, "
        "pseudo-classes/elements, selector pseudos, a few placeholders and leading combinators); inner levels carry `&` "
        "with probability 0.55: as a whole compound, with a type suffix (`&-x`), with added simple selectors "
        "(`&.c`, `&:hover`, `&[x]`, `&#i`), first / middle / last in the chain, inside `:not()`/`:is()` arguments, and "
        "rarely twice; distinct = distinct nest; non-trivial = at least two levels")
EXHAUSTIVE = {"quick": False, "thorough": False}
TRUSTED = ["Spec/SelNesting.v + Spec/SelVisible.v: nesting, parent selector and placeholder semantics written from the Sass documentation",
           "Model/SelNest.v comp_append: CompoundSelector::append prints both compounds and parses the text again; the "
           "model states the result of that re-parse structurally for plain ASCII names (validated by the correspondence)",
           "props/selkit.py prints the structured selectors as source text"]
ASSUMPTIONS = ["names are ASCII identifiers; declarations-in-source-order (third sentence of the statement) is not covered here",
               "resolve_ref_in_pseudo is applied once per compound (the code re-applies it to already resolved ancestors, which is idempotent)"]

SUFFIXES = ["-x", "x", "_y", "-s2"]


def mark_ref(rng, s, suffix_p=0.35):
    """turn one compound of s into a `&` compound"""
    nodes = []
    n = s
    while n is not None:
        nodes.append(n)
        n = n["rel"][1] if n["rel"] is not None else None
    node = rng.choice(nodes)
    c = node["c"]
    c["br"] = True
    r = rng.random()
    if r < suffix_p:
        c["el"] = rng.choice(SUFFIXES)
    else:
        c["el"] = None
    if rng.random() < 0.35:        # bare `&`
        c["ph"], c["cl"], c["id"], c["at"], c["ps"] = [], [], None, [], []
    return s


def gen_inner(rng, ref_p=0.55):
    l = []
    for _ in range(rng.randint(1, 3)):
        depth = rng.choice([0, 0, 0, 1])
        s = gen_sel(rng, depth, ph=0.03, lead=0.06, rich=True)
        r = rng.random()
        if r < ref_p * 0.75:
            s = mark_ref(rng, s)
            if rng.random() < 0.06:
                s = mark_ref(rng, s)
        elif r < ref_p:
            # `&` inside a selector pseudo argument
            inner = [mark_ref(rng, gen_sel(rng, 0, maxlen=2))]
            if rng.random() < 0.4:
                inner.append(gen_sel(rng, 0, maxlen=1))
            s["c"]["ps"].append([rng.choice(["not", "is", "where", "has"]), False, ["s", inner]])
        l.append(s)
    return l


def gen_outer(rng):
    return gen_sels(rng, rng.choice([0, 0, 1]), ph=0.04, nmax=3, lead=0.0)


C = comp
CORPUS = [
    [[sel(C(el="*"))], [sel(C(el="b", br=True))]],                                     # F3 (fixed)  `*{&b{x:y}}`
    [[sel(C(el="a"))], [sel(C(el="b", br=True))]],
    [[sel(C(cl=["a"]))], [sel(C(el="-x", br=True))]],
    [[sel(C(el="a", at=[["x", "", "", 0, None]]))], [sel(C(el="-s", br=True))]],
    [[sel(C(el="a", ps=[["not", False, ["s", [sel(C(el="b"))]]]]))], [sel(C(el="c", br=True))]],
    [[sel(C(el="a", ps=[["hover", False, None]]))], [sel(C(el="-s", br=True))]],
    [[sel(C(ps=[["host", False, None]]))], [sel(C(cl=["foo"], br=True))]],             # :host { &.foo }
    [[sel(C(el="a", ps=[["before", True, None]]))], [sel(C(ps=[["hover", False, None]], br=True))]],
    [[sel(C(el="a", ps=[["before", True, None], ["after", True, None]]))], [sel(C(ps=[["hover", False, None]], br=True))]],
    [[sel(C(el="a", id="j"))], [sel(C(id="k", br=True))]],
    [[sel(C(el="a", cl=["c"]))], [sel(C(cl=["c"], br=True))]],
    [[sel(C(el="a")), sel(C(el="b"))], [sel(C(el="c")), sel(C(el="d"))]],
    [[sel(C(el="a")), sel(C(el="b"))], [sel(C(el="-x", br=True)), chain(C(el="c"), "A", C(br=True))]],
    [[chain(C(el="a"), "P", C(el="b")), sel(C(el="c"))], [chain(C(el="d"), "A", C(el="-x", br=True)), sel(C(el="e"))],
     [chain(C(el="f"), "A", C(br=True))]],
    [[sel(C(el="a"))], [sel(C(ps=[["not", False, ["s", [sel(C(br=True)), chain(C(el="b"), "A", C(br=True))]]]]))]],
    [[chain(C(el="a"), "A", C(el="b"))], [chain(C(), "P", C(br=True), "A", C(el="c"))]],
    [[sel(C(el="a")), sel(C(el="b"))], [chain(C(br=True), "J", C(br=True))]],
    [[sel(C(el="a"))], [sel(C(el="b"), ["P", sel(C())]), sel(C(el="c"), ["S", sel(C())])]],
    [[sel(C(el="a"))], [sel(C(el="b")), chain(C(el="c"), "A", C(el="d")), sel(C(el="-e", br=True))]],
    [[sel(C(el="a")), sel(C(ph=["p"]))], [sel(C(el="b")), sel(C(cl=["c"], br=True))]],
    [[sel(C(el="-x", br=True))]],
]


def gen_cases(ctx, tier):
    rng = ctx.rng
    cases = [{"levels": l} for l in CORPUS]
    n = 800 if tier == "quick" else 10000
    for _ in range(n):
        depth = rng.choice([1, 2, 2, 2, 3, 3, 4])
        levels = [gen_outer(rng)]
        for _ in range(depth - 1):
            levels.append(gen_inner(rng))
        cases.append({"levels": levels})
    return cases


def search_cases(ctx, broken):
    rng = ctx.rng
    out = []
    for _ in range(2500):
        levels = [gen_outer(rng), gen_inner(rng, 0.7)]
        if rng.random() < 0.4:
            levels.append(gen_inner(rng, 0.7))
        out.append({"levels": levels})
    return out


def src_of(c):
    ls = c["levels"]
    return "".join(t_sels(l) + " {" for l in ls) + "x:y" + "}" * len(ls)


def impl_requests(c):
    return [("scss", "expanded", "10", src_of(c))]


def coq_term(c, io):
    tag, f = io[0]
    lv = clist([q_sels(l) for l in c["levels"]])
    if tag == "ok":
        return f"(mkCase {lv} 0%N {q_otext(emitted_selector(f[0]))})"
    return f"(mkCase {lv} {1 if tag == 'err' else 2}%N None)"


KCLASS = {0: None, 1: None, 2: "known_C19_K2_host_parent",
          3: "known_C19_K3_pseudo_element_parent", 4: "known_C19_K4_two_ids"}


def judge(c, io, r):
    corr, c1, k, spec_kind, has_ref = r
    return {
        "corr": None if corr == 2 else (corr == 1),
        "clauses": [("nested-selector-as-specified", c1 == 1, KCLASS.get(k))],
        "nontrivial": len(c["levels"]) > 1,
        "tags": [f"levels-{len(c['levels'])}", "ref" if has_ref else "no-ref", ["spec-na", "spec-error", "spec-ok"][spec_kind]]
                + ([f"class-{k}"] if k else []),
        "show": src_of(c),
        "detail": src_of(c),
    }


def shrink(c):
    ls = c["levels"]
    if len(ls) > 2:
        yield {"levels": ls[:-1]}
        yield {"levels": ls[1:]}
    for i, l in enumerate(ls):
        if len(l) > 1:
            for j in range(len(l)):
                yield {"levels": ls[:i] + [l[:j] + l[j + 1:]] + ls[i + 1:]}
        for j, s in enumerate(l):
            if s["rel"] is not None and not s["c"]["br"] and not comp_empty(s["rel"][1]["c"]):
                yield {"levels": ls[:i] + [l[:j] + [s["rel"][1]] + l[j + 1:]] + ls[i + 1:]}
            cc = s["c"]
            for key in ("cl", "ps", "at"):
                for k in range(len(cc[key])):
                    c2 = dict(cc)
                    c2[key] = cc[key][:k] + cc[key][k + 1:]
                    if not comp_empty(c2):
                        yield {"levels": ls[:i] + [l[:j] + [sel(c2, s["rel"])] + l[j + 1:]] + ls[i + 1:]}


LEVEL_TEXT = ("proof: over the model of Selector::nest / CssSelectorSet::nest / resolve_ref: the round-robin merge of "
              "equally long parts is the outer-major product; without `&` the nested list is [nest o i | o <- outers, "
              "i <- inners], each a descendant combination whose text is `outer inner`; nesting under the root is the "
              "identity; `&suffix` on a compound ending in a name glues the suffix, `&` plus simple selectors adds them "
              "to the outer compound; a suffix the model refuses is refused by the Sass reading too (`*{&b}` is an error since dfe7d33); the full "
              "statement is refuted on the faithful model (`:host{&.foo}`) and holds on generated nests outside three recorded classes; model tied to the code by correspondence of the emitted text")
LEVEL_NOTE = ("trusted: Coq kernel+vm_compute, the harness, the two Spec files, the python printer, the structural account of "
              "print-and-reparse in comp_append; `&` theorems are stated for single outer selectors (partial); declaration "
              "order is not covered")
TECHNIQUE = "Coq proof (structural induction, list lemmas) + differential correspondence on generated nested SCSS"
