"""C03 - Each module is executed once per compilation."""
import itertools, re
from common import *
from loadlib import *

ID = "C03"
GEN = ["Candidates"]
THEOREMS = ["C03_once_per_key", "C03_once_per_file", "C03_once_every_world", "C03_cache_hit_not_executed"]
COQ_HEADER = ("From Coq Require Import String List ZArith NArith.\nFrom RV Require Import Gen.Candidates Model.Load Model.LoadRun Run.C03.\n"
              "Import ListNotations.\nLocal Open Scope string_scope.")
RUN_EXPR = "Run.C03.run_any"
RULE = ("acyclic @use/@forward multigraphs over 2-4 stylesheets (every module emits one marker rule), urls spelled canonically, "
        "with ./, d/../ or //, modules in the root directory or in m/; exact in-memory loader, normalising in-memory loader and "
        "the real file system; distinct = distinct (mode, graph); non-trivial = some module has at least two users")
EXHAUSTIVE = {"quick": False, "thorough": True}
TRUSTED = ["Spec/LoadRef.v: reference semantics (a module is executed once per compilation, keyed by the file) written from the property text",
           "the operating system resolves `.`/`..` as Model/LoadRun.v fs_isfile does (checked against the real file system on every run)"]
ASSUMPTIONS = ["the clause `every user sees the same module variables` is checked on the implementation only, against the expectation "
               "written in Run/C03.v (one instance per module): the Coq model has no variables, so there is no theorem for it (partial)",
               "loads are top-level directives with literal urls, without `with`/`show`/`hide` clauses"]

SPELL = ["{}", "./{}", "d/../{}", ".//{}", "{}"]
SPELL_M = ["m/{}", "./m/{}", "m/../m/{}", "m//{}", "m/{}"]


def build(n, edges, mode, indir=(), partial=()):
    """edges: (src, dst, kind, spelling index); files in `indir` live in m/; files in `partial` are `_x.scss`"""
    letters = ["t", "a", "b", "c"][:n]
    leaf_css = {i for i in range(1, n) if not any(s == i for (s, _, _, _) in edges) and (i + len(edges)) % 4 == 0}
    names = [("m/" if i in indir else "") + ("_" if i in partial and i > 0 else "") + letters[i]
             + (".css" if i in leaf_css else ".scss") for i in range(n)]
    bodies = [[["emit", i]] for i in range(n)]
    for (s, d, k, sp) in edges:
        if s in indir:
            # the importer sits in m/: a sibling is `x`, a root file is `../x`
            # (a root file is also found through the unchanged-url fallback of fix 3dfdada)
            tpl = SPELL[sp] if (d in indir or (s + d + sp) % 2) else "../" + SPELL[sp]
        else:
            tpl = SPELL_M[sp] if d in indir else SPELL[sp]
        pos = len(bodies[s]) if (len(bodies[s]) + d) % 2 else 0
        bodies[s].insert(pos, ["load", k, tpl.format(letters[d])])
    world = [[names[i], bodies[i]] for i in range(n)]
    if any("d/" in x[2] for _, b in world for x in b if x[0] == "load"):
        world.append(["d/k.scss", []])
    if mode == "fs":
        world = [["R/" + n_, b] for n_, b in world]
        return {"mode": "fs", "bases": ["R"], "root": names[0], "rootid": "R/" + names[0], "world": world}
    return {"mode": mode, "fault": "none", "bases": [""], "root": names[0], "rootid": names[0], "world": world}


def canonical(edges, indir):
    return all(sp in (0, 4) for (_, _, _, sp) in edges) and not indir


def var_case(fw, fr, val, reader_first, same_user):
    """lib owns $x; a writer assigns it through fw forwarding modules, a reader reads it through fr"""
    chain = ["lib", "mid1", "mid2"]
    files = {"lib.scss": "$x: 1;\nm9{a:b}\n", "mid1.scss": '@forward "lib";\n', "mid2.scss": '@forward "mid1";\n'}
    W, R = chain[fw], chain[fr]
    if same_user:
        files["t.scss"] = f'@use "{W}" as w;\n' + (f'@use "{R}" as r;\n' if R != W else "") + f'w.$x: {val};\nr{{x: {"r" if R != W else "w"}.$x}}\n'
    else:
        files["a.scss"] = f'@use "{W}" as w;\nw.$x: {val};\n'
        uses = [f'@use "{R}" as r;', '@use "a";']
        if not reader_first:
            uses.reverse()
        files["t.scss"] = "\n".join(uses) + "\nr{x: r.$x}\n"
    return {"vars": {"fw": fw, "fr": fr, "val": val, "files": files}}


def gen_cases(ctx, tier):
    rng = ctx.rng
    cases = []
    for fw in range(3):
        for fr in range(3):
            for reader_first in (False, True):
                for same_user in (False, True):
                    cases.append(var_case(fw, fr, rng.randrange(2, 90), reader_first, same_user))

    def add(n, edges, indir=(), mode=None):
        if mode is None:
            r = rng.random()
            mode = "fs" if r < 0.15 else ("mem" if canonical(edges, indir) and r < 0.5 else "norm")
        partial = tuple(i for i in range(1, n) if rng.random() < 0.25)
        cases.append(build(n, edges, mode, indir, partial))

    # corpus: F7 witness and neighbours
    add(2, [(0, 1, "use", 0), (0, 1, "use", 1)], indir=(1,), mode="norm")          # @use "m/a"; @use "./m/a"
    add(2, [(0, 1, "use", 0), (0, 1, "use", 1)], indir=(1,), mode="fs")
    add(2, [(0, 1, "use", 0), (0, 1, "use", 0)], mode="mem")
    add(3, [(0, 1, "use", 0), (0, 2, "use", 0), (1, 2, "forward", 0)], mode="mem")
    add(3, [(0, 1, "use", 1), (0, 2, "use", 0), (1, 2, "use", 0)], mode="norm")     # second-order: a is named ./a.scss
    add(4, [(0, 1, "use", 0), (0, 2, "forward", 0), (1, 3, "use", 0), (2, 3, "use", 0), (0, 3, "forward", 0)], mode="mem")
    kinds = ["use", "forward"]
    if tier == "thorough":
        # exhaustive: every DAG on 3 files with <= 1 edge per ordered pair, kind x 3 spellings
        opts = [None] + [(k, sp) for k in kinds for sp in (0, 1, 2)]
        for combo in itertools.product(opts, repeat=3):
            edges = [(s, d, o[0], o[1]) for (s, d), o in zip([(0, 1), (0, 2), (1, 2)], combo) if o]
            add(3, edges, mode="norm")
            add(3, edges, indir=(2,), mode="norm")
    nr = 900 if tier == "quick" else 6000
    for _ in range(nr):
        n = rng.choice([2, 3, 3, 4, 4])
        canon = rng.random() < 0.45
        edges = []
        for i in range(n):
            for j in range(i + 1, n):
                for _ in range(rng.choice([0, 1, 1, 2, 2])):
                    edges.append((i, j, rng.choice(kinds), 0 if canon else rng.randrange(5)))
        indir = () if canon else tuple(i for i in range(1, n) if rng.random() < 0.3)
        rng.shuffle(edges)
        add(n, edges, indir)
    return cases


def search_cases(ctx, broken):
    cases = []
    opts = [None, ("use", 0), ("forward", 0)]
    for combo in itertools.product(opts, repeat=3):
        edges = [(s, d, o[0], o[1]) for (s, d), o in zip([(0, 1), (0, 2), (1, 2)], combo) if o]
        cases.append(build(3, edges, "mem"))
    return cases


VAL = re.compile(r"x: (\d+);")


def impl_requests(c):
    if "vars" in c:
        args = []
        for n, t in c["vars"]["files"].items():
            args += [n, t]
        return [("files", "expanded", "10", "t.scss", "none") + tuple(args)]
    return requests_of(c)


def var_value(io):
    tag, f = io[0]
    if tag != "ok":
        return None
    m = VAL.search(f[0].decode("utf-8", "replace"))
    return int(m.group(1)) if m else None


def coq_term(c, io):
    if "vars" in c:
        v = c["vars"]
        g = var_value(io)
        return f"(CVars (mkV {v['fw']} {v['fr']} {cn(v['val'])} {copt(cn(g) if g is not None else None)}))"
    d = decode(c, io[0])
    return (f"(CGraph (mkCase {coq_world(c['world'])} {coq_mode(c)} {cstring(c['root'])} {cstring(c['rootid'])} {coq_impl(d)}))")


KCLASS = {0: None, 2: "known_C03_K2_variable_through_forward"}


def judge(c, io, r):
    corr, c1, c2, k, refcls, nex = r
    if "vars" in c:
        v = c["vars"]
        return {"corr": None, "clauses": [("same-variables", c1 == 1, KCLASS[k])], "nontrivial": True,
                "tags": ["vars", f"fw{v['fw']}", f"fr{v['fr']}"],
                "show": f"write {v['val']} through {v['fw']} forwards, read through {v['fr']}: " +
                        " | ".join(f"{n}: {t}".replace(chr(10), " ") for n, t in v["files"].items()) + f" -> {var_value(io)}",
                "detail": v}
    d = decode(c, io[0])
    targets = {}
    for _, b in c["world"]:
        for x in b:
            if x[0] == "load":
                t = x[2].split("/")[-1]
                targets[t] = targets.get(t, 0) + 1
    return {
        "corr": corr == 1,
        "clauses": [("once", c1 == 1, KCLASS[k]), ("output", c2 == 1, KCLASS[k])],
        "nontrivial": any(v >= 2 for v in targets.values()),
        "tags": [c["mode"], f"ref{refcls}", "spelled" if any(x[0] == "load" and ("./" in x[2] or "//" in x[2] or "../" in x[2]) for _, b in c["world"] for x in b) else "canonical", f"impl{d['cls']}"],
        "show": f"{c['mode']} " + " | ".join(f"{n}: " + scss_of(n, b).replace(chr(10), ' ') for n, b in c["world"]) + f" -> class {d['cls']} {d['markers']}",
        "detail": {"files": {n: scss_of(n, b) for n, b in c["world"]}, "impl": d},
    }


def shrink(c):
    if "vars" in c:
        return
    for i, (n, b) in enumerate(c["world"]):
        for j, x in enumerate(b):
            if x[0] == "load":
                w = [[n2, list(b2)] for n2, b2 in c["world"]]
                del w[i][1][j]
                yield dict(c, world=w)


LEVEL_TEXT = ("proof, full strength for the execution-count clauses since fix d80c9be: for every loader and every "
              "@use/@forward-only file set no cache key is executed twice (invariant: an executed key is in the module cache or "
              "on the lock set); every key is a normalized name, so no FILE is executed twice provided the loader does not hand "
              "out one file under two normalized names; unconditional instance for every in-memory world (any graph, any "
              "spelling); a cache hit executes nothing; tied to the code by exact loader-call-log and css correspondence")
LEVEL_NOTE = ("trusted: Coq kernel+vm_compute, the harness, Spec/LoadRef.v; F7 is fixed in /repo (d80c9be); the module-variable "
              "clause is checked on the implementation only (F8 remains a known finding, no model: partial)")
TECHNIQUE = "Coq proof (invariant by induction on fuel and bodies) + differential correspondence against a reference interpreter"
