"""C25 - Selector parsing and printing round-trip."""
import re
from common import *
from selkit import *

ID = "C25"
GEN = []
THEOREMS = ["C25_plain_names_fixed_partial", "C25_escape_tokens_roundtrip_ascii_partial",
            "C25_printed_class_reparses_partial", "C25_refuted_digit_class"]
COQ_HEADER = ("From Coq Require Import List NArith ZArith.\nFrom RV Require Import Model.Sel Run.C25.\n"
              "Import ListNotations.\nLocal Open Scope list_scope.")
RUN_EXPR = "Run.C25.run"
RULE = ("selector lists (1-3 complex selectors, all combinators, selector pseudos nested to depth 2, nth arguments) whose "
        "type / class / id / placeholder / pseudo / attribute names are drawn from a pool of source spellings: plain, "
        "non-ASCII incl. astral (4-byte) letters raw and as hex escapes, digit-leading, hex escapes (1-6 digits), escaped "
        "punctuation, escaped control characters, namespaces; attribute operators = ~= |= ^= $= *= with quoted / "
        "unquoted values and modifiers; distinct = distinct source text; non-trivial = contains an escape, a non-ASCII "
        "or a digit-leading name")
EXHAUSTIVE = {"quick": False, "thorough": False}
TRUSTED = ["Model/SelParse.v treats raw non-ASCII characters as alphanumeric (the generator only uses letters)",
           "props/selkit.py prints the structured selector as source text",
           "'same selector list' is observed through is-superselector in both directions (the public API has no "
           "structural equality on selectors)"]
ASSUMPTIONS = ["only the name-level parser (css_string_nohash and its escape normalisation) is modelled; the structure of "
               "the selector comes from the generator and a wrong expectation shows up as a correspondence failure",
               "attribute values carry no escapes"]

# source spellings of names
PLAIN = ["a", "foo-bar", "_x", "x1", "b", "div"]
NONASCII = ["é", "café", "中文", "Ωx", "𠀀x", "a𝓐", "𐌰"]          # incl. raw 4-byte (astral) letters
ESC = ["\\E9m", "a\\.b", "caf\\e9 ", "\\@md", "ho\\ver", "a\\62 c", "a\\62c ", "\\1f x", "a\\ b",
       "\\000041x", "a\\+b", "x\\31 ", "a\\:b", "\\#h", "a\\7e z", "-\\31 ", "a\\(b\\)",
       "a\\20000 b", "\\1d4d0 x", "x\\10000 ", "\\020000 "]          # astral characters as hex escapes
# spellings the SCSS-level parser of a rule selector decodes differently: function route only
ESC_FN = ["\\-x", "\\31 x", "\\31\\32 ", "\\e9 ", "\\-\\-a"]
# escaped leading digits: the SCSS-level parser decodes them, which only the class printer undoes
ESC_CLASS = ["\\31 x", "\\31\\32 ", "\\39 lives"]
DIGIT = ["1x", "2", "9lives"]
ELEM_EXTRA = ["ns|a", "*|a", "|a", "ns|*", "*"]


FN_ONLY = [False]


def pick_name(rng, kind):
    r = rng.random()
    if FN_ONLY[0] and r < 0.12:
        return rng.choice(ESC_FN)
    if r < 0.35:
        return rng.choice(PLAIN)
    if r < 0.5:
        return rng.choice(NONASCII)
    if r < 0.9 and kind != "el":
        return rng.choice(ESC + ESC_CLASS if kind == "cl" else ESC)
    if kind in ("cl", "id"):
        return rng.choice(DIGIT)
    return rng.choice(PLAIN)


ATTRS25 = [["x", "", "", 0, None], ["x", "=", "y", 0, None], ["x", "~=", "v w", 1, None], ["data-a", "|=", "en", 0, None],
           ["x", "^=", "y", 0, "i"], ["y", "$=", "z z", 1, "s"], ["ns|x", "*=", "q", 0, None], ["x", "=", "1 2", 2, None]]
NTH = [["nth-child", False, ["s", [chain(comp(el="2n"), "J", comp(el="1"))]]],
       ["nth-of-type", False, ["s", [sel(comp(el="odd"))]]],
       ["nth-last-child", False, ["s", [chain(comp(el="n"), "J", comp(el="3"))]]]]


def gen_comp25(rng, depth):
    c = comp()
    r = rng.random()
    if r < 0.45:
        c["el"] = pick_name(rng, "el") if rng.random() < 0.8 else rng.choice(ELEM_EXTRA)
    for _ in range(rng.choice([0, 1, 1, 2])):
        c["cl"].append(pick_name(rng, "cl"))
    if rng.random() < 0.2:
        c["id"] = pick_name(rng, "id")
    if rng.random() < 0.2:
        c["at"].append(list(rng.choice(ATTRS25)))
    if rng.random() < 0.2:
        c["ps"].append([pick_name(rng, "ps"), rng.random() < 0.3, None])
    if rng.random() < 0.08:
        c["ps"].append(list(rng.choice(NTH)))
    if depth > 0 and rng.random() < 0.3:
        inner = [gen_sel25(rng, depth - 1) for _ in range(rng.randint(1, 2))]
        c["ps"].append([rng.choice(["not", "is", "where", "has", "-moz-any", "host"]), False, ["s", inner]])
    if comp_empty(c):
        c["cl"] = [pick_name(rng, "cl")]
    return c


def gen_sel25(rng, depth):
    s = sel(gen_comp25(rng, depth))
    for _ in range(rng.choice([0, 0, 1, 1, 2])):
        s = sel(gen_comp25(rng, depth), [rng.choice("AAPSJ"), s])
    return s


CORPUS = [
    [sel(comp(cl=["1x"]))],                       # K1 witness `.1x`
    [sel(comp(cl=["\\31 x"]))],
    [sel(comp(id="1x"))],
    [chain(comp(el="a"), "P", comp(el="b"))],      # K2 witness `a > b`
    [sel(comp(el="a", cl=["\\E9m", "caf\\e9 "]))],
    [sel(comp(cl=["a\\.b"], ps=[["ho\\ver", False, None]]))],
    [sel(comp(cl=["\\1f x"]))],
    [sel(comp(el="ns|a")), sel(comp(el="*|*")), sel(comp(el="|a"))],
    [sel(comp(el="li", ps=[list(NTH[0])]))],
    [sel(comp(at=[["x", "~=", "v w", 1, "i"]]))],
    [chain(comp(cl=["a\\62c "]), "P", comp(cl=["a\\62 c"]))],
]


def gen_cases(ctx, tier):
    rng = ctx.rng
    cases = [{"s": s, "rule": True} for s in CORPUS]
    cases += [{"s": [sel(comp(cl=["a\\20000 b"]))], "rule": True}, {"s": [sel(comp(cl=["𠀀"]))], "rule": True},
              {"s": [sel(comp(id="\\-x"))], "rule": False}, {"s": [sel(comp(el="\\31 x"))], "rule": False}]
    n = 500 if tier == "quick" else 8000
    for i in range(n):
        FN_ONLY[0] = (i % 4 == 0)
        s = [gen_sel25(rng, rng.choice([0, 0, 1, 2])) for _ in range(rng.randint(1, 3))]
        cases.append({"s": s, "rule": not any(e in t_sels(s) for e in ESC_FN)})
    FN_ONLY[0] = False
    return cases


def search_cases(ctx, broken):
    rng = ctx.rng
    return [{"s": [gen_sel25(rng, rng.choice([0, 1])) for _ in range(rng.randint(1, 2))], "rule": True} for _ in range(2500)]


def sq(text):
    return '"' + text.replace("\\", "\\\\").replace('"', '\\"') + '"'


def prog_of(c):
    return (t_sels(c["s"]) + " { p1: &; p2: selector-parse(&); s1: is-superselector(&, selector-parse(&)); "
            "s2: is-superselector(selector-parse(&), &); }\n")


def fn_prog_of(c, part):
    t = sq(t_sels(c["s"]))
    head = f"$t: unquote({t});\n$p: selector-parse($t);\n"
    if part == 0:
        return head + "a { t0: $t; a1: $p; }\n"
    if part == 1:
        return head + "a { as1: is-superselector($p, $t); as2: is-superselector($t, $p); }\n"
    return head + "a { a2: selector-parse($p); }\n"


def impl_requests(c):
    rs = [("scss", "expanded", "10", fn_prog_of(c, i)) for i in range(3)]
    if c.get("rule", True):
        rs.append(("scss", "expanded", "10", prog_of(c)))
    return rs


def field(css, name):
    m = re.search(rb"\n  " + name + rb": (.*);\n", css)
    return m.group(1) if m else None


def strip_charset(css):
    if css.startswith(b"@charset"):
        css = css[css.find(b"\n") + 1:]
    if css.startswith(b"\xef\xbb\xbf"):
        css = css[3:]
    return css


def tri(b):
    return 1 if b == b"true" else (0 if b == b"false" else 2)


def coq_term(c, io):
    p1 = p2 = emit = a1 = a2 = None
    s1 = s2 = as1 = as2 = 2
    a2st = 2
    src = t_sels(c["s"]).encode()
    if io[0][0] == "ok":
        css = strip_charset(io[0][1][0])
        if field(css, b"t0") == src:        # the string really is the text T
            a1 = field(css, b"a1")
    if a1 is not None:
        if io[1][0] == "ok":
            css = strip_charset(io[1][1][0])
            as1, as2 = tri(field(css, b"as1")), tri(field(css, b"as2"))
        a2st = 0 if io[2][0] == "ok" else (1 if io[2][0] == "err" else 2)
        if io[2][0] == "ok":
            a2 = field(strip_charset(io[2][1][0]), b"a2")
    rule = c.get("rule", True)
    if rule and io[3][0] == "ok":
        css = strip_charset(io[3][1][0])
        p1, p2 = field(css, b"p1"), field(css, b"p2")
        s1, s2 = tri(field(css, b"s1")), tri(field(css, b"s2"))
        emit = emitted_selector(css)
    return (f"(mkCase {q_sels(c['s'])} {q_otext(p1)} {q_otext(p2)} {s1}%N {s2}%N {q_otext(emit)} "
            f"{q_otext(a1)} {as1}%N {as2}%N {q_otext(a2)} {a2st}%N {cbool(rule)})")


def judge(c, io, r):
    corr, c1, c2, c3, dc, parsed, comb = r
    k = "known_C25_K1_digit_leading_class" if dc else ("known_C25_K2_combinator_in_value" if comb else None)
    src = t_sels(c["s"])
    return {
        "corr": corr == 1,
        "clauses": [("print-parse-print-fixpoint", c1 == 1, None), ("reparse-gives-same-list", c2 == 1, k),
                    ("emitted-is-printed-parse", c3 == 1, None)],
        "nontrivial": ("\\" in src) or any(ord(ch) > 127 for ch in src) or bool(re.search(r"[.#][0-9]", src)),
        "key": src,
        "tags": ["parsed" if parsed else "rejected"] + (["digit-class"] if dc else []) + (["combinator"] if comb else []),
        "show": src,
        "detail": fn_prog_of(c, 0) + fn_prog_of(c, 2) + prog_of(c),
    }


def shrink(c):
    for d in _shrink(c):
        d["rule"] = c.get("rule", True)
        yield d


def _shrink(c):
    s = c["s"]
    if len(s) > 1:
        for i in range(len(s)):
            yield {"s": s[:i] + s[i + 1:]}
    for i, x in enumerate(s):
        if x["rel"] is not None:
            yield {"s": s[:i] + [x["rel"][1]] + s[i + 1:]}
            yield {"s": s[:i] + [sel(x["c"])] + s[i + 1:]}
        cc = x["c"]
        for key in ("cl", "ps", "at", "ph"):
            for j in range(len(cc[key])):
                c2 = dict(cc)
                c2[key] = cc[key][:j] + cc[key][j + 1:]
                if not comp_empty(c2):
                    yield {"s": s[:i] + [sel(c2, x["rel"])] + s[i + 1:]}
        for key in ("el", "id"):
            if cc[key] is not None:
                c2 = dict(cc)
                c2[key] = None
                if not comp_empty(c2):
                    yield {"s": s[:i] + [sel(c2, x["rel"])] + s[i + 1:]}


LEVEL_TEXT = ("proof (partial): name-level parser css_string_nohash with its escape normalisation modelled on UTF-8 bytes; "
              "names made of plain characters parse to themselves; for every ASCII character the normalised escape token "
              "re-parses to itself (exhaustive sweep lifted with forallb_forall), the printed form of a class re-parses to "
              "itself; the structural round trip is refuted for digit-leading classes (`.1x`, reproduced); the selector "
              "structure is NOT parsed in the model: the round trip of whole selector lists is checked per case on the "
              "implementation (text fixpoint, mutual is-superselector, emitted text)")
LEVEL_NOTE = ("trusted: Coq kernel+vm_compute, the harness, the python printer; no structural parser model, so the "
              "whole-list round trip is tested, not proved")
TECHNIQUE = "Coq proof (induction on names, exhaustive sweep over ASCII escapes) + differential correspondence + per-case round-trip clauses"
