"""C29 - Math functions compute the specified values."""
import math, re, struct
from common import *

ID = "C29"
GEN = ["Units"]
THEOREMS = ["C29_rounding_fns", "C29_percentage", "C29_div", "C29_sqrt", "C29_minmax_arg", "C29_minmax_two",
            "C29_clamp", "C29_unit_guards", "C29_transcendental_partial"]
COQ_HEADER = ("From Coq Require Import String List ZArith NArith.\nFrom RV Require Import Run.C29.\n"
              "Import ListNotations.\nLocal Open Scope string_scope.\nLocal Open Scope Z_scope.")
RUN_EXPR = "Run.C29.run"
RULE = ("(function, arguments) for abs/ceil/floor/round/percentage/div/max/min/clamp/sqrt/exp/log/pow/sin/cos/tan of "
        "sass:math; pow also on the libm-free family (+-1)^n, 0^n, (+-2)^n with huge whole n; clamp/min/max also with unitless "
        "mixed with % / fr / px; magnitudes from: small integers, +-0.5 / +-1.5 / +-2.5 ties, quarter fractions, 0, huge (1e15+0.5, "
        "1e20), tiny (1e-7), random decimals; units none / px in cm / deg rad turn / s ms / % em / unknown, compatible "
        "and incompatible combinations; evaluated in a stylesheet with precision 10; distinct = distinct call text; "
        "non-trivial = an argument has a unit or a fractional part")
EXHAUSTIVE = {"quick": False, "thorough": False}
TRUSTED = ["Spec/MathRef.v + Spec/CssUnits.v: rational reference of the exactly specified functions and unit groups",
           "results are observed as printed at precision 10; the model's result is printed by the bit-exact formatter model of C10 (Model/NumFmt.v)",
           "libm oracle: exp/log/pow/sin/cos/tan values are compared with Python's libm at relative 1e-9 outside Coq (clause libm-value); accuracy of libm itself is not verified"]
ASSUMPTIONS = ["transcendental functions: only the unit guards are modelled in Coq", "NaN / infinite arguments are not generated (their printed form is property C10/C30 territory)"]


def bits(x):
    return struct.unpack(">Q", struct.pack(">d", x))[0]


def num_text(x):
    if x == int(x) and abs(x) < 1e21:
        return str(int(x)) if not (x == 0 and math.copysign(1, x) < 0) else "-0"
    r = repr(float(x))
    if "e" in r:
        r = f"{x:.12f}".rstrip("0")
    return r


MAGS = [0.0, 1.0, -1.0, 2.0, -2.0, 3.0, 5.0, 0.5, -0.5, 1.5, -1.5, 2.5, -2.5, 0.25, -0.25, 7.75, -7.75, 0.49999999999,
        0.50000000001, 123.456, -123.456, 1e15 + 0.5, 1e20, 0.0000001, 96.0, 2.54, 100.0, 4.0, 9.0, 2.25, 0.3, -0.7, 1e6 + 0.5]
LEN = ["px", "in", "cm"]
ANG = ["deg", "rad", "turn"]
TIME = ["s", "ms"]
OTHER = ["%", "fr", "em", "foo"]
ALLU = [""] + LEN + ANG + TIME + OTHER
FN1 = {"abs": 1, "ceil": 2, "floor": 3, "round": 4, "percentage": 5, "sqrt": 10}


def arg(rng, unit=None, mags=MAGS):
    x = rng.choice(mags) if rng.random() < 0.8 else round(rng.uniform(-50, 50), rng.randrange(0, 6))
    u = rng.choice(ALLU) if unit is None else unit
    return [num_text(x), u]


def group_mates(rng, u):
    for g in (LEN, ANG, TIME):
        if u in g:
            return rng.choice(g)
    return u


def gen_cases(ctx, tier):
    rng = ctx.rng
    cases = []
    # every one-argument function on every magnitude with and without a unit
    for name in FN1:
        for x in MAGS:
            for u in ("", rng.choice(ALLU[1:])):
                cases.append({"fn": name, "args": [[num_text(x), u]]})
    # witness of the open finding F39
    cases.append({"fn": "clamp", "args": [["1", "%"], ["0.25", "fr"], ["40", "%"]]})
    n = 150 if tier == "quick" else 4000
    for _ in range(n):
        # div
        a = arg(rng)
        c = rng.random()
        if c < 0.35:
            b = arg(rng, a[1])
        elif c < 0.6:
            b = arg(rng, "")
        elif c < 0.85:
            b = arg(rng, group_mates(rng, a[1]))
        else:
            b = arg(rng)
        cases.append({"fn": "div", "args": [a, b]})
    for _ in range(2 * n):
        # min / max
        k = rng.choice([1, 2, 2, 3, 4])
        u = rng.choice(ALLU)
        c = rng.random()
        args = []
        for _ in range(k):
            if c < 0.4:
                args.append(arg(rng, u))
            elif c < 0.7:
                args.append(arg(rng, group_mates(rng, u)))
            elif c < 0.85:
                args.append(arg(rng, rng.choice([u, ""])))
            else:
                args.append(arg(rng))
        if rng.random() < 0.2 and k >= 2:
            args[1] = [args[0][0], args[1][1]]      # equal magnitudes
        cases.append({"fn": rng.choice(["max", "min"]), "args": args})
    for _ in range(n):
        u = rng.choice(ALLU)
        c = rng.random()
        if c < 0.5:
            us = [u, u, u]
        elif c < 0.7:
            us = [group_mates(rng, u) for _ in range(3)]
        elif c < 0.85:
            us = [rng.choice([u, ""]) for _ in range(3)]
        else:
            us = [rng.choice(ALLU) for _ in range(3)]
        args = [arg(rng, w) for w in us]
        if rng.random() < 0.6:
            lo, hi = sorted([float(args[0][0]), float(args[2][0])])
            if us[0] == us[2]:
                args[0][0], args[2][0] = num_text(lo), num_text(hi)
        cases.append({"fn": "clamp", "args": args})
    # clamp / min / max: unitless mixed with % and fr (units without a physical dimension) and with px
    for u in ("%", "fr", "px"):
        for pat in (("", u, ""), (u, "", u), ("", "", u), (u, u, ""), ("", u, u), (u, "", "")):
            a = [arg(rng, w, [0.0, 1.0, 2.0, 10.0, 50.0, 100.0, 0.5]) for w in pat]
            cases.append({"fn": "clamp", "args": a})
            cases.append({"fn": rng.choice(["max", "min"]), "args": a})
    # min / max / clamp with 3-5 arguments over {unitless, px, in, cm, s, %, em} in any order: the running-extreme
    # definition with a unitless number between two different units, incompatible units anywhere in the list
    MIXU = ["", "", "px", "in", "cm", "s", "%", "em"]
    MIXM = [0.5, 1.0, 2.0, 3.0, 50.0, 96.0, 100.0, 2.54, 0.25, 200.0]
    for args in ([["1", ""], ["2", "px"], ["1", "in"]], [["1", ""], ["2", "px"], ["3", "s"]],
                 [["1", "px"], ["2", ""], ["3", "in"], ["100", "px"]], [["1", "px"], ["1", "in"], ["2", ""]],
                 [["2", "in"], ["3", ""], ["4", "px"]], [["1", "in"], ["96", "px"]], [["96", "px"], ["1", "in"]]):
        for fn in ("max", "min"):
            cases.append({"fn": fn, "args": args})
    for _ in range(3 * n):
        k = rng.choice([3, 3, 4, 5])
        pool = rng.choice([["", "px", "in"], ["", "px", "in", "cm"], ["px", "in", "cm"], MIXU, ["", "px", "s"], ["", "%", "em", "px"]])
        args = [arg(rng, rng.choice(pool), MIXM) for _ in range(k)]
        cases.append({"fn": rng.choice(["max", "min"]), "args": args})
    for _ in range(n // 2):
        pool = rng.choice([["px", "in", "cm"], MIXU, ["", "%"], ["s", "px"]])
        cases.append({"fn": "clamp", "args": [arg(rng, rng.choice(pool), MIXM) for _ in range(3)]})
    cases.append({"fn": "clamp", "args": [["0", ""], ["50", "%"], ["1", ""]]})
    cases.append({"fn": "clamp", "args": [["10", "%"], ["2", ""], ["100", "%"]]})
    # pow where the value is known without libm: (+-1)^n, 0^n, (+-2)^n for huge whole n (parity / overflow sign)
    HUGE = ["4294967296", "4294967297", "2147483648", "2147483649", "9007199254740992", "9007199254740993",
            "1" + "0" * 20, "1" + "0" * 300, "2000", "2001", "-4294967296", "-4294967297", "-2000", "-2001",
            "-1" + "0" * 300, "3", "4", "0", "-3"]
    for b in ("1", "-1", "0", "2", "-2"):
        for e in HUGE:
            cases.append({"fn": "powx", "args": [[b, ""], [e, ""]]})
    for _ in range(n):
        name = rng.choice(["exp", "log", "pow", "sin", "cos", "tan"])
        pos = [m for m in MAGS if 0 < m < 200]
        if name == "pow":
            args = [arg(rng, rng.choice(["", "", "px"]), pos), arg(rng, rng.choice(["", "", "s"]), [m for m in MAGS if abs(m) < 10])]
        elif name in ("exp", "log"):
            args = [arg(rng, rng.choice(["", "", "px", "%", "deg"]), pos)]
        else:
            args = [arg(rng, rng.choice(["", "deg", "rad", "turn", "px", "s", "%"]), [m for m in MAGS if abs(m) < 1000])]
        cases.append({"fn": name, "args": args})
    return cases


def call_text(c):
    return "math.%s(%s)" % ("pow" if c["fn"] == "powx" else c["fn"], ", ".join(a[0] + a[1] for a in c["args"]))


def impl_requests(c):
    reqs = [("scss", "expanded", "10", '@use "sass:math"; a{b:%s}' % call_text(c))]
    for a in c["args"]:
        reqs.append(("evalv", a[0] + a[1]))
    return reqs


FNID = dict(FN1, div=6, max=7, min=8, clamp=9, exp=11, log=11, pow=11, sin=12, cos=12, tan=12, powx=13)
NUMRE = re.compile(r"^(-?[0-9]*\.?[0-9]+)([a-zA-Z%]*)$")


def parse_impl(o):
    tag, f = o
    if tag == "err":
        return ("err", None, None)
    if tag != "ok":
        return ("other", None, None)
    m = re.fullmatch(r"a \{\n  b: (.*);\n\}\n", f[0].decode("utf-8", "replace"), re.S)
    if not m:
        return ("other", None, None)
    v = m.group(1)
    n = NUMRE.match(v)
    if n:
        return ("num", n.group(1), n.group(2))
    if v.startswith(("max(", "min(")):
        return ("kept", None, None)
    if v in ("calc(infinity)", "calc(-infinity)"):
        return ("inf", v, None)
    return ("other", v, None)


def coq_term(c, io):
    args = []
    for a, o in zip(c["args"], io[1:]):
        tag, f = o
        if not (tag == "ok" and f[0] == b"num"):
            return None
        u = f[2].decode()
        if u != a[1]:
            return None
        args.append(f"({cz(int(f[1]))}, {cstring(u)})")
    kind, t, u = parse_impl(io[0])
    impl = {"num": lambda: f"(INum {cbytes(t)} {cstring(u)})", "err": lambda: "IErr", "kept": lambda: "IKept",
            "inf": lambda: "(IInf %s)" % cbool(t.startswith("calc(-")),
            "other": lambda: "IOther"}[kind]()
    return f"(mkCase {cz(FNID[c['fn']])} {clist(args)} {impl})"


def libm_ok(c, io):
    """exp/log/pow/sin/cos/tan: value against Python's libm (outside Coq)."""
    name = c["fn"]
    if name not in ("exp", "log", "pow", "sin", "cos", "tan"):
        return True
    kind, t, u = parse_impl(io[0])
    if kind != "num":
        return True
    xs = [float(a[0]) for a in c["args"]]
    try:
        if name == "exp":
            ref = math.exp(xs[0])
        elif name == "log":
            ref = math.log(xs[0])
        elif name == "pow":
            ref = math.pow(xs[0], xs[1])
        else:
            f = {"": 1.0, "rad": 1.0, "deg": math.pi / 180, "turn": 2 * math.pi}[c["args"][0][1]]
            ref = getattr(math, name)(xs[0] * f)
    except (ValueError, OverflowError, KeyError):
        return True
    if abs(ref) > 1e14:
        return True
    return abs(float(t) - ref) <= 1e-9 * max(1.0, abs(ref)) + 0.6e-10 and u == ""


def judge(c, io, r):
    if r is None:
        return {"corr": None, "clauses": [], "nontrivial": False, "tags": ["skipped"], "show": call_text(c)}
    corr, ok = r
    # F39 (input-only class): clamp() whose arguments mix `%` and `fr`: both are "dimensionless" for
    # UnitSet::is_compatible, so the unit check passes although no conversion exists between them
    units = {a[1] for a in c["args"]}
    k1 = "known_C29_K1_clamp_percent_fr" if (c["fn"] == "clamp" and {"%", "fr"} <= units) else None
    return {
        "corr": None if corr == 2 else corr == 1,
        "clauses": [("value-units-guards", ok == 1, k1), ("libm-value", libm_ok(c, io), None)],
        "nontrivial": any(a[1] != "" or "." in a[0] for a in c["args"]),
        "tags": [c["fn"]],
        "show": call_text(c) + " -> " + str(parse_impl(io[0])), "detail": call_text(c),
    }


def shrink(c):
    if len(c["args"]) > 2 and c["fn"] in ("max", "min"):
        for i in range(len(c["args"])):
            yield dict(c, args=c["args"][:i] + c["args"][i + 1:])


LEVEL_TEXT = ("proof: abs/ceil/floor/round/percentage/div/sqrt/max/min/clamp of sass:math modelled on binary64 with unit "
              "sets; for ALL doubles and unit sets: the rounding functions apply the IEEE operation and keep the unit set, "
              "percentage multiplies by 100 with unit % and rejects units, max/min return one of their arguments "
              "(induction over the argument list), clamp returns one of its three arguments or an error, the unit guards "
              "of percentage/sqrt/exp/log/pow and of the trigonometric functions; the model is tied to the code by "
              "correspondence of the printed result through the bit-exact formatter model")
LEVEL_NOTE = ("partial: transcendental values are compared with Python libm outside Coq only; results are observed at "
              "printing precision 10, so correspondence is exact on the printed text, not on every bit")
TECHNIQUE = "Coq proof (definitional lemmas, induction over argument lists) + differential correspondence + rational reference"
