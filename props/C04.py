"""C04 - Load URLs resolve to the documented candidate file."""
import itertools
from common import *
from loadlib import *

ID = "C04"
GEN = ["Candidates"]
THEOREMS = ["C04_candidate_tables", "C04_use_names_documented", "C04_import_names_documented", "C04_code_shapes",
            "C04_first_candidate", "C04_none_iff", "C04_direct", "C04_load_paths_in_order", "C04_fallback_unchanged", "C04_spelling_irrelevant",
            "C04_root_allowed", "C04_root_none_iff", "C04_subdir_allowed", "C04_css_fallback",
            "C04_refuted_subdir_loadpath", "C04_statement_refuted"]
COQ_HEADER = ("From Coq Require Import String List ZArith NArith.\nFrom RV Require Import Gen.Candidates Model.Load Model.LoadRun Run.C04.\n"
              "Import ListNotations.\nLocal Open Scope string_scope.")
RUN_EXPR = "Run.C04.run"
RULE = ("one probed load (kind in @import/@use/@forward/load-css, url spelled plain, with a directory part, with ./ or d/../, or "
        "with an extension) from an importer at the root or in sub/, over a set of existing files drawn from the candidate names of "
        "every place (importer's directory, base directory, two load paths) plus distractors; in-memory loader (exact loader-call log "
        "compared) and real file system; distinct = distinct (mode, kind, url, importer, set of files); non-trivial = at least two "
        "candidate files exist")
EXHAUSTIVE = {"quick": False, "thorough": True}
TRUSTED = ["Spec/Resolve.v: candidate order and places written from the property text (product-order reading)",
           "the operating system resolves `.`/`..` as Model/LoadRun.v fs_isfile does (checked against the real file system on every run)"]
ASSUMPTIONS = ["files are plain rules; urls are literal strings (no interpolation, no `with`/`show`/`hide` clauses)",
               "urls ending in .sass are outside the statement (rsass has no .sass parser)"]

IMPORT_SUF = ["{b}{n}.import.scss", "{b}_{n}.import.scss", "{b}{n}.scss", "{b}_{n}.scss", "{b}{n}/index.import.scss",
              "{b}{n}/_index.import.scss", "{b}{n}/index.scss", "{b}{n}/_index.scss", "{b}{n}.css", "{b}_{n}.css"]
USE_SUF = ["{b}{n}.scss", "{b}_{n}.scss", "{b}{n}/index.scss", "{b}{n}/_index.scss", "{b}{n}.css", "{b}_{n}.css"]
DISTRACT = ["{b}{n}", "{b}{n}.sass", "{b}__{n}.scss", "{b}{n}.scss.bak", "{b}{n}/index.css", "{b}{n}/_index.css",
            "{b}{n}.import.css", "{b}{n}x.scss"]


def split_url(u):
    i = u.rfind("/")
    return (u[:i + 1], u[i + 1:]) if i >= 0 else ("", u)


def cand_files(kind, url):
    if url.endswith((".scss", ".css", ".sass")):
        return [url]
    b, n = split_url(url)
    return [t.format(b=b, n=n) for t in (IMPORT_SUF if kind == "import" else USE_SUF)]


def mk_mem(kind, url, importer, present, unq=False):
    """in-memory case: importer is the root file (possibly `sub/t.scss`)"""
    probe = ["url", url] if unq else ["load", kind, url]
    world = [[importer, [probe]]]
    for f in present:
        if f != importer and f not in [w[0] for w in world]:
            world.append([f, [["emit", len(world)]]])
    return {"mode": "mem", "fault": "none", "bases": [""], "root": importer, "rootid": importer, "world": world,
            "importer": importer, "importer_url": importer, "kind": "import" if unq else kind, "url": url, "unq": unq}


def mk_fs(kind, url, sub, present, extra_dirs=()):
    """file-system case: root R/t.scss, load paths L1 L2; sub=True: the probe sits in R/sub/a.scss"""
    bases = ["R", "L1", "L2"]
    probe = ["load", kind, url]
    if sub:
        world = [["R/t.scss", [["load", "use", "sub/a"]]], ["R/sub/a.scss", [probe]]]
        importer, iurl = "R/sub/a.scss", "sub/a.scss"
    else:
        world = [["R/t.scss", [probe]]]
        importer, iurl = "R/t.scss", "t.scss"
    have = {w[0] for w in world}
    for f in present:
        if f not in have:
            have.add(f)
            world.append([f, [["emit", len(world)]]])
    for d in extra_dirs:
        f = d + "/keep.txt"
        if f not in have:
            have.add(f)
            world.append([f, []])
    return {"mode": "fs", "bases": bases, "root": "t.scss", "rootid": "R/t.scss", "world": world,
            "importer": importer, "importer_url": iurl, "kind": kind, "url": url, "unq": False}


KINDS4 = ["import", "use", "forward", "loadcss"]


def norm(p):
    out = []
    for sg in p.split("/"):
        if sg in ("", "."):
            continue
        if sg == "..":
            if out:
                out.pop()
            continue
        out.append(sg)
    return "/".join(out)


def gen_cases(ctx, tier):
    rng = ctx.rng
    cases = []
    # corpus: known-finding witnesses
    cases.append(mk_fs("use", "b", True, ["L1/b.scss"]))                 # former F9 (fixed by 3dfdada): unchanged url in a load path
    cases.append(mk_fs("use", "c", True, ["L1/sub/c.scss"]))             # F9b: <load path>/sub/ taken as relative
    cases.append(mk_fs("use", "d", True, ["R/d.scss"]))                  # base directory not searched from sub/
    cases.append(mk_fs("import", "b", True, ["R/sub/_b.scss", "L1/sub/b.scss"]))
    # plain css fallback forms and their neighbours
    for u in ["x.css", "http://h/x", "https://h/x", "//h/x", "x", "ftp://h/x", "/h/x", "http:/h/x", "x.css2", "x.scss"]:
        cases.append(mk_mem("import", u, "t.scss", []))
        cases.append(mk_mem("use", u, "t.scss", []))
    for u in ["url(x)", "url(x.scss)", "url(http://h/x)"]:
        cases.append(mk_mem("import", u, "t.scss", [], unq=True))
    cases.append(mk_mem("import", "url(x)", "t.scss", []))           # quoted "url(x)" is not a css url
    cases.append(mk_mem("import", "x.css", "t.scss", ["x.css"]))
    cases.append(mk_mem("import", "x.sass", "t.scss", ["x.sass"]))
    # in-memory: every subset (thorough) / seeded sample (quick) of the candidate names
    urls = ["u", "d/u", "_u", "u.scss", "d/u.css"]
    for importer in ["t.scss", "sub/t.scss"]:
        pre = split_url(importer)[0]
        for kind in KINDS4:
            cf = [pre + f for f in cand_files(kind, "u")]
            if tier == "thorough":
                subsets = [[f for i, f in enumerate(cf) if (m >> i) & 1] for m in range(1 << len(cf))]
            else:
                subsets = [[f] for f in cf] + [list(p) for p in itertools.combinations(cf, 2)]
                subsets += [[f for f in cf if rng.random() < 0.5] for _ in range(12)]
            for ss in subsets:
                cases.append(mk_mem(kind, "u", importer, ss))
            for url in urls[1:]:
                cfu = [pre + f for f in cand_files(kind, url)]
                b, n = split_url(url)
                dis = [pre + t.format(b=b, n=n) for t in DISTRACT] + cand_files(kind, url)
                for _ in range(6 if tier == "quick" else 40):
                    ss = [f for f in cfu if rng.random() < 0.4] + [f for f in dis if rng.random() < 0.25]
                    cases.append(mk_mem(kind, url, importer, ss))
    # real file system: candidates spread over the places
    nfs = 260 if tier == "quick" else 2500
    for _ in range(nfs):
        kind = rng.choice(KINDS4)
        sub = rng.random() < 0.4
        url = rng.choice(["u", "u", "u", "d/u", "./u", "d/../u", "nodir/../u", "u.scss"])
        cf = cand_files(kind, norm(url) if not url.startswith("nodir") else "u")
        places = ["R/", "L1/", "L2/"] + (["R/sub/", "L1/sub/", "L2/sub/"] if sub else [])
        present = []
        k = rng.choice([1, 1, 2, 2, 3, 4])
        for _ in range(k):
            present.append(rng.choice(places) + rng.choice(cf))
        extra = []
        if url.startswith("d/"):
            extra = [(rng.choice(places) + "d").rstrip("/") for _ in range(rng.choice([0, 1, 2]))]
        cases.append(mk_fs(kind, url, sub, present, extra))
    if tier == "thorough":
        # every single- and two-place placement of every candidate pair, root and sub importer
        for kind in ("import", "use"):
            cf = cand_files(kind, "u")
            for sub in (False, True):
                places = ["R/", "L1/", "L2/"] + (["R/sub/", "L1/sub/"] if sub else [])
                for (p1, p2) in itertools.product(places, places):
                    for (c1, c2) in itertools.combinations(cf, 2):
                        cases.append(mk_fs(kind, "u", sub, [p1 + c1, p2 + c2]))
    return cases


def search_cases(ctx, broken):
    # a theorem or the translation broke: every subset of the candidates, both kinds of list
    cases = []
    for kind in ("import", "use"):
        cf = cand_files(kind, "u")
        for m in range(1 << len(cf)):
            cases.append(mk_mem(kind, "u", "t.scss", [f for i, f in enumerate(cf) if (m >> i) & 1]))
    return cases


def impl_requests(c):
    return requests_of(c)


def coq_term(c, io):
    d = decode(c, io[0])
    return (f"(mkCase {coq_world(c['world'])} {coq_mode(c)} {cstring(c['root'])} {cstring(c['rootid'])} "
            f"{cstring(c['importer'])} {cstring(c['importer_url'])} {KINDS[c['kind']]} {cstring(c['url'])} "
            f"{cbool(c['unq'])} {coq_impl(d)})")


KCLASS = {0: None, 2: "known_C04_K2_subdir_loadpath_relative"}


def judge(c, io, r):
    corr, ok, k, nexist = r
    d = decode(c, io[0])
    return {
        "corr": corr == 1,
        "clauses": [("resolution", ok == 1, KCLASS[k])],
        "nontrivial": nexist >= 2,
        "tags": [c["mode"], c["kind"], "sub" if "/" in c["importer_url"] else "root", f"exist{min(nexist, 3)}"],
        "show": f"{c['mode']} {c['importer_url']}: {c['kind']} {c['url']!r} over {[w[0] for w in c['world']]} -> {d['cls']} {d['markers']} {d['imports']}",
        "detail": {"files": {n: scss_of(n, b) for n, b in c["world"]}, "bases": c.get("bases"), "impl": d},
    }


LEVEL_TEXT = ("proof: for EVERY loader / file system (arbitrary function from paths to files) the model of Context::find_file + "
              "do_find_file + FsLoader::find_file returns the first existing name in the order of the candidate lists regenerated "
              "from context.rs, None iff none exists, load paths in order; the generated lists are proved to be the documented six "
              "(@use) and a linear extension of the documented partial order (@import), so for a root importer the result is one the "
              "property text allows; the plain-css condition regenerated from transform.rs equals the four documented forms; "
              "sub-directory importers (after fix 3dfdada): allowed outside class K2 for every file system, K2 refuted with a witness; tied to the code by the translator and by "
              "exact loader-call-log correspondence")
LEVEL_NOTE = ("trusted: Coq kernel+vm_compute, gen/gens/Candidates.py, the harness, Spec/Resolve.v; F9 is fixed (3dfdada); "
              "F9b (a <load path>/sub/ file taken as relative) remains a known-finding class")
TECHNIQUE = "Coq proof (list induction over arbitrary file systems + table sweep) + translator + differential correspondence"
