"""C07 - Output is well framed and correctly encoded."""
from common import *
import outtree as T

ID = "C07"
GEN = []
THEOREMS = ["C07_marker", "C07_final_newline_expanded", "C07_final_newline_compressed",
            "C07_balance", "C07_refuted_unquoted_brace", "C07_compressed_one_line",
            "C07_refuted_compressed_comment"]
COQ_HEADER = ("From Coq Require Import List NArith ZArith.\nFrom RV Require Import Model.Out Run.C07.\n"
              "Import ListNotations.\nLocal Open Scope N_scope.")
RUN_EXPR = "Run.C07.run"
RULE = ("(1) random CSS item trees (rules, declarations, custom properties, comments, imports, @media with structured "
        "queries, unknown at-rules; ASCII and non-ASCII leaves) fed as plain CSS in both styles: writer model == rsass and "
        "the four clauses on rsass's output; (2) spec-corpus inputs and generated SCSS compiled in both styles: clauses "
        "on rsass's output. distinct = distinct input text; non-trivial = at least one style produced non-empty output")
EXHAUSTIVE = {"quick": False, "thorough": False}
TRUSTED = ["Spec/CssTok.v: the scanner defining `outside strings, comments and url()`",
           "props/outtree.py prints a generated tree as plain CSS; the plain-CSS reader of rsass rebuilds that tree "
           "(any mismatch shows as a correspondence disagreement)"]
ASSUMPTIONS = ["writer model: no @function items, no placeholder selectors (get_indent is capped at 80 columns as in rsass f9a5d45)",
               "leaf texts (selectors, names, formatted values, at-rule arguments) are opaque byte strings"]
SHARD = 150

WITNESS = [
    {"kind": "scss", "src": 'a{x: unquote("}")}'},
    {"kind": "css", "src": "a{/* x\n      * y */b:c}"},
    {"kind": "css", "src": "/* a\n b */"},
    {"kind": "scss", "src": "a{b{/*! x\n      * y */c:d}}"},
    {"kind": "scss", "src": "@supports (a b\n  ) {c {d: e}}\n"},
    {"kind": "scss", "src": "a {\n  b: c /* d\n}\n"},
    {"kind": "scss", "src": "a{b:c}"},
    {"kind": "scss", "src": "a{b:\"é\"}"},
    {"kind": "scss", "src": ""},
    {"kind": "scss", "src": "@foo;"},
    {"kind": "scss", "src": "a{--x: {\n a\n}}"},
]


def scss_cases(ctx, n):
    try:
        import destgen
        return [{"kind": "scss", "src": destgen.gen_scss(ctx.rng)} for _ in range(n)]
    except ImportError:
        return []


def gen_cases(ctx, tier):
    import corpus
    rng = ctx.rng
    cases = list(WITNESS)
    # nesting deeper than the 80-column indent string: get_indent is capped (rsass f9a5d45)
    for depth in (39, 40, 41, 45):
        tree = [["r", [["a", "a"]], [["p", "x", ["y", "y"]], ["c", " c\n * d "]]]]
        for _ in range(depth):
            tree = [["m", ["n", "print"], tree]]
        cases.append({"kind": "tree", "tree": tree, "src": T.tree_css(tree)})
    ntree = 400 if tier == "quick" else 4000
    for i in range(ntree):
        tree = T.gen_tree(rng, maxtop=rng.choice([1, 2, 3, 5]), depth=3)
        cases.append({"kind": "tree", "tree": tree, "src": T.tree_css(tree)})
    items = [s for _, s in corpus.spec_inputs() if len(s.encode()) <= 3000]
    if tier == "quick":
        items = rng.sample(items, min(900, len(items)))
    for s in items:
        cases.append({"kind": "scss", "src": s})
    cases.extend(scss_cases(ctx, 300 if tier == "quick" else 3000))
    return cases


def search_cases(ctx, broken):
    rng = ctx.rng
    out = []
    for i in range(1500):
        tree = T.gen_tree(rng, maxtop=3, depth=3)
        out.append({"kind": "tree", "tree": tree, "src": T.tree_css(tree)})
    return out


def impl_requests(c):
    cmd = "scss" if c["kind"] == "scss" else "css"
    return [(cmd, "expanded", "10", c["src"]), (cmd, "compressed", "10", c["src"])]


def _out(o):
    tag, f = o
    if tag == "ok":
        return f"(Some {cbytes(f[0])})"
    return "None"


def coq_term(c, io):
    if any(t in ("panic", "crash") for t, _ in io):
        return None
    if c["kind"] == "tree":
        im, bo = T.split_imports(c["tree"])
        tree = f"(Some ({T.items_coq(im)}, {T.items_coq(bo)}))"
    else:
        tree = "None"
    return (f"(mkCase {tree} {cbytes(c['src'])} {cbool(c['kind'] == 'scss')} {_out(io[0])} {_out(io[1])})")


K1 = "known_C07_unquoted_brace"
K2 = "known_C07_compressed_multiline_comment"
K3 = "known_C07_compressed_multiline_at_args"
K4 = "known_C07_unterminated_comment"
NAMES = ["final-newline", "balance", "marker", "one-line"]


def judge(c, io, r):
    if r is None:
        # panic / crash: not this property's subject (C01); outside
        return {"corr": None, "clauses": [], "nontrivial": False, "tags": ["panic-or-crash"], "show": c["src"][:80]}
    ce, cc = r[0], r[1]
    corr = None if ce == 2 else (ce == 1 and cc == 1)
    k1, k2, k3, k4 = r[10], r[11], r[12], r[13]
    clauses = []
    for si, st in enumerate(("expanded", "compressed")):
        for j, nm in enumerate(NAMES):
            ok = r[2 + 4 * si + j] == 1
            kc = None
            if nm == "balance" and k4:
                kc = K4
            elif nm == "balance" and k1:
                kc = K1
            if nm == "one-line" and st == "compressed" and k2:
                kc = K2
            if nm == "one-line" and st == "compressed" and k3 and not k2:
                kc = K3
            clauses.append((f"{nm}/{st}", ok, kc))
    nonempty = any(t == "ok" and f[0] for t, f in io)
    tags = [c["kind"], "ok" if io[0][0] == "ok" else "err"]
    if any(t == "ok" and any(b >= 128 for b in f[0]) for t, f in io):
        tags.append("non-ascii")
    return {"corr": corr, "clauses": clauses, "nontrivial": nonempty, "tags": tags,
            "show": c["src"][:120], "detail": c["src"], "key": c["src"]}


def shrink(c):
    if c["kind"] != "tree":
        return
    t = c["tree"]
    for i in range(len(t)):
        s = t[:i] + t[i + 1:]
        yield {"kind": "tree", "tree": s, "src": T.tree_css(s)}
    for i, it in enumerate(t):
        if it[0] in ("r", "m") or (it[0] == "a" and it[3]):
            bi = 2 if it[0] in ("r", "m") else 3
            for j in range(len(it[bi])):
                it2 = list(it)
                it2[bi] = it[bi][:j] + it[bi][j + 1:]
                s = t[:i] + [it2] + t[i + 1:]
                yield {"kind": "tree", "tree": s, "src": T.tree_css(s)}
            if it[0] == "m":
                s = t[:i] + it[2] + t[i + 1:]
                yield {"kind": "tree", "tree": s, "src": T.tree_css(s)}


LEVEL_TEXT = ("proof: for ALL css item trees the model of CssData::into_buffer + the item writers satisfies the marker rule "
              "and (expanded) the final-newline rule unconditionally, brace/bracket balance under the hypothesis that every "
              "leaf line is balanced, and (compressed) no inner line break / the final-newline rule under leaf hypotheses; "
              "the writer model is tied to rsass by byte-exact correspondence on generated trees in both styles, and the "
              "four clauses are evaluated in Coq on every successful rsass output of generated and spec-corpus inputs")
LEVEL_NOTE = ("leaf hypotheses are explored, not proved (F10: unquoted text with a brace breaks balance; new: a multi-line "
              "comment in compressed plain-CSS output); trusted: Coq kernel+vm_compute, Spec/CssTok.v, harness, tree printer")
TECHNIQUE = "Coq proof (induction over the CSS item tree with a scanner-state invariant) + differential correspondence"
