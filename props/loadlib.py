"""Shared helpers of the loading properties C02, C03, C04, C39: worlds of small
stylesheets, their rendering as SCSS and as Coq terms, materialisation on the real
file system, and decoding of the implementation's answer."""
import hashlib, json, os, re, shutil
from common import *

KINDS = {"import": "KImport", "use": "KUse", "forward": "KForward", "loadcss": "KLoadCss"}

TMP = os.path.join(WORK, "tmp", "loadfs")


# -- rendering ---------------------------------------------------------------

def scss_of(name, body):
    """body: list of ["load", kind, url] | ["url", "url(x)"] | ["emit", m]"""
    if name.endswith(".css"):
        return "".join(f"m{d[1]}{{a:b}}\n" for d in body if d[0] == "emit")
    lines = []
    if any(d[0] == "load" and d[1] == "loadcss" for d in body):
        lines.append('@use "sass:meta";')
    n = 0
    for d in body:
        if d[0] == "emit":
            lines.append(f"m{d[1]}{{a:b}}")
        elif d[0] == "url":
            lines.append(f"@import {d[1]};")
        else:
            _, k, u = d
            if k == "import":
                lines.append(f'@import "{u}";')
            elif k == "use":
                n += 1
                lines.append(f'@use "{u}" as u{n};')
            elif k == "forward":
                lines.append(f'@forward "{u}";')
            else:
                lines.append(f'@include meta.load-css("{u}");')
    return "\n".join(lines) + "\n"


def coq_directive(d):
    if d[0] == "emit":
        return f"DEmit {cn(d[1])}"
    if d[0] == "url":
        return f"DImportUrl {cstring(d[1])}"
    return f"DLoad {KINDS[d[1]]} {cstring(d[2])}"


def coq_world(world):
    return clist([f"({cstring(n)}, {clist([coq_directive(d) for d in b])})" for n, b in world])


def coq_mode(case):
    m = case["mode"]
    if m == "mem":
        f = case.get("fault", "none")
        if f == "none":
            return "(MMem NoFault)"
        if "," in f:
            parts = [x.split(":") for x in f.split(",")]
            finds = clist([str(int(i)) for k, i in parts if k == "find"])
            reads = clist([str(int(i)) for k, i in parts if k == "read"])
            return f"(MMem (FailMany {finds} {reads}))"
        k, i = f.split(":")
        return f"(MMem ({'FailFind' if k == 'find' else 'FailRead'} {int(i)}))"
    if m == "norm":
        return "MNorm"
    return "(MFs " + clist([cstring(b) for b in case["bases"]]) + ")"


# -- implementation side -----------------------------------------------------

def case_dir(case):
    h = hashlib.sha256(json.dumps([case["world"], case.get("bases")], sort_keys=True).encode()).hexdigest()[:16]
    return os.path.join(TMP, h)


def materialise(case):
    d = case_dir(case)
    if not os.path.isdir(d):
        tmp = d + ".tmp%d" % os.getpid()
        shutil.rmtree(tmp, ignore_errors=True)
        for b in case["bases"]:
            os.makedirs(os.path.join(tmp, b), exist_ok=True)
        for n, body in case["world"]:
            p = os.path.join(tmp, n)
            os.makedirs(os.path.dirname(p), exist_ok=True)
            with open(p, "w") as f:
                f.write(scss_of(n, body))
        try:
            os.rename(tmp, d)
        except OSError:
            shutil.rmtree(tmp, ignore_errors=True)
    return d


def cleanup_tmp():
    shutil.rmtree(TMP, ignore_errors=True)


def requests_of(case, fault=None):
    """harness requests for one compilation of the case"""
    m = case["mode"]
    if m == "fs":
        d = materialise(case)
        return [("path", "expanded", "10", os.path.join(d, case["rootid"]))
                + tuple(os.path.join(d, b) for b in case["bases"][1:])]
    fault = fault or case.get("fault", "none")
    cmd = ("ffiles" if "," in fault else "files") if m == "mem" else "nfiles"
    args = []
    for n, b in case["world"]:
        args += [n, scss_of(n, b)]
    return [(cmd, "expanded", "10", case["rootid"], fault) + tuple(args)]


MARK = re.compile(r"^m(\d+) \{", re.M)
IMP = re.compile(r"^@import (.*);$", re.M)


def err_class(msg, dbg):
    if "injected lookup failure" in msg:
        return 4
    if "injected read failure" in msg:
        return 5
    if "is not a css or sass file" in msg:
        return 6
    # A chain of `./` or `x/../` spellings that grew until the OS refused the path (PATH_MAX, ~2000 nested
    # loads) is a run that was stopped from outside, like a stack overflow: before fix 3dfdada it surfaced
    # as `Can't find stylesheet`, since then the unchanged-url fallback finds the locked `./t.scss` and it
    # surfaces as a loop error; either way the message carries the multi-kilobyte path.
    stopped = len(msg) > 2500
    if msg.startswith("This file is already being loaded.") or dbg.startswith("ImportLoop(false"):
        return 9 if stopped else 1
    if msg.startswith("Module loop: this module is already being loaded.") or dbg.startswith("ImportLoop(true"):
        return 9 if stopped else 2
    if msg.startswith("Can't find stylesheet to import.") or re.match(r"^Module .* not found", msg):
        return 9 if stopped else 3
    return 7


def decode(case, out):
    """(tag, fields) -> dict(cls, markers, imports, log)"""
    tag, f = out
    has_log = case["mode"] != "fs"
    log = None
    if has_log and tag in ("ok", "err") and f:
        t = f[-1].decode("utf-8", "replace")
        log = t.split("\n") if t else []
    if tag == "ok":
        css = f[0].decode("utf-8", "replace")
        imps = []
        for x in IMP.findall(css):
            if x.startswith('"') and x.endswith('"'):
                x = x[1:-1]
            imps.append(x)
        return {"cls": 0, "markers": [int(x) for x in MARK.findall(css)], "imports": imps, "log": log}
    if tag == "err":
        msg = f[0].decode("utf-8", "replace")
        dbg = f[1].decode("utf-8", "replace") if len(f) > 1 else ""
        return {"cls": err_class(msg, dbg), "markers": [], "imports": [], "log": log, "msg": msg[:300]}
    if tag == "panic":
        return {"cls": 8, "markers": [], "imports": [], "log": None, "msg": (f[0].decode("utf-8", "replace") if f else "")[:300]}
    return {"cls": 9, "markers": [], "imports": [], "log": None}


def printable(s):
    return all(32 <= ord(c) < 127 for c in s)


HMOD = 2305843009213693951


def hash_log(log):
    h = 7
    for u in log:
        for b in u.encode("utf-8"):
            h = (h * 131 + b + 1) % HMOD
        h = (h * 131) % HMOD
    return h


def coq_impl(d):
    log = "None"
    if d["log"] is not None and all(printable(x) for x in d["log"]):
        log = f"(Some ({cn(len(d['log']))}, {cn(hash_log(d['log']))}))"
    imps = [x for x in d["imports"] if printable(x)]
    return (f"(mkImpl {cz(d['cls'])} {clist([cn(m) for m in d['markers']])} "
            f"{clist([cstring(x) for x in imps])} {log})")
