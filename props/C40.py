"""C40 - The command-line tool mirrors the library."""
import hashlib, json, os, subprocess
from common import *
import sheetgen

ID = "C40"
GEN = ["Entry"]
THEOREMS = ["C40_run", "C40_stdout", "C40_status", "C40_main_shape", "C40_style_map", "C40_args_shape"]
COQ_HEADER = ("From Coq Require Import String List ZArith NArith.\nFrom RV Require Import Run.C40.\n"
              "Import ListNotations.")
RUN_EXPR = "Run.C40.run"
RULE = ("invocations of the built rsass binary with 1..3 generated files (valid and failing, at any position), "
        "--style {none, expanded, compressed}, --precision {none, 0..12}, layouts where a dependency exists in the input's "
        "directory, only in the --load-path directory, in both, or nowhere; every file is also compiled by the library "
        "(FsContext::for_path + push_path + with_format) with the same format; distinct = distinct (files, flags, layout)")
EXHAUSTIVE = {"quick": False, "thorough": False}
TRUSTED = ["Spec/EntryDocs.v doc_cli_run: the documented behaviour of the tool",
           "harness `path style prec file loadpath*` is the library side (public API)",
           "a write to stdout succeeds (stdout is a pipe read to the end)",
           "clap parses --style/-t, --precision, --load-path/-I as declared (checked only through the generated attribute text and by running the binary)"]
ASSUMPTIONS = ["the binary is built from VERIF_REPO/rsass-cli with default features by kit build_cli()",
               "files live under .work/tmp/c40; paths are passed absolute to both sides"]
TIMEOUT_PER_CASE = 30.0

_CLI = {"path": None}


def prepare(ctx):
    p, err = build_cli()
    if p is None:
        raise RuntimeError("cannot build rsass-cli: " + err)
    _CLI["path"] = p


def cli_path():
    if _CLI["path"] is None:
        p = os.path.join(WORK, "target-cli", "debug", "rsass")
        if not os.path.exists(p):
            p, err = build_cli()
        _CLI["path"] = p
    return _CLI["path"]


def case_dir(c):
    h = hashlib.sha256(json.dumps(c["tree"], sort_keys=True).encode()).hexdigest()[:16]
    d = os.path.join(WORK, "tmp", "c40", h)
    if not os.path.isdir(d):
        for rel, content in c["tree"].items():
            p = os.path.join(d, rel)
            os.makedirs(os.path.dirname(p), exist_ok=True)
            with open(p, "w", encoding="utf-8") as f:
                f.write(content)
    return d


def gen_cases(ctx, tier):
    rng = ctx.rng
    n = 170 if tier == "quick" else 1500
    cases = []

    def flags():
        return {"style": rng.choice([None, "expanded", "compressed"]), "prec": rng.choice([None, None] + list(range(0, 13)))}

    # plain invocations: 1..3 files, failing ones at any position
    for i in range(n):
        k = rng.choice([1, 1, 2, 2, 3])
        tree, files = {}, []
        for j in range(k):
            r = rng.random()
            if r < 0.22:
                src = sheetgen.gen_sheet(rng, 0.5)
            elif r < 0.27:
                src = None                      # missing file
            else:
                src = sheetgen.gen_sheet(rng, 0.0)
            name = f"src/f{j}.scss"
            if src is not None:
                tree[name] = src
            files.append(name)
        if not tree:
            tree["src/unused.scss"] = "a{b:c}"
        c = {"tree": tree, "files": files, "lp": None, "must": [], "mustnot": []}
        c.update(flags())
        cases.append(c)
    # load layouts
    layouts = ["dir", "lp", "both", "none", "lp-unused"]
    for i in range(n // 2):
        lay = layouts[i % len(layouts)]
        form = rng.choice(["@use \"dep\";", "@import \"dep\";", "@use \"dep\" as d;", "@forward \"dep\";"])
        tree = {"src/main.scss": form + "\nmain{k:v}\n"}
        must, mustnot = [], []
        depname = rng.choice(["dep.scss", "_dep.scss"])
        if lay in ("dir", "both"):
            tree["src/" + depname] = "dep{from:srcdir}\n"
        if lay in ("lp", "both"):
            tree["lp/" + depname] = "dep{from:loadpath}\n"
        if lay == "lp-unused":
            tree["src/" + depname] = "dep{from:srcdir}\n"
            tree["lp/other.scss"] = "o{p:q}\n"
        if lay in ("dir", "both", "lp-unused"):
            must, mustnot = ["srcdir"], ["loadpath"]
        elif lay == "lp":
            must, mustnot = ["loadpath"], ["srcdir"]
        files = ["src/main.scss"]
        if rng.random() < 0.3:
            tree["src/second.scss"] = sheetgen.gen_sheet(rng, 0.0)
            files.append("src/second.scss")
        c = {"tree": tree, "files": files, "lp": None if (lay == "dir" and rng.random() < 0.5) else "lp",
             "must": must, "mustnot": mustnot, "layout": lay}
        if c["lp"] and not any(k.startswith("lp/") for k in tree):
            tree["lp/.keep"] = ""
        c.update(flags())
        cases.append(c)
    # several input files with --load-path: the load path must serve EVERY input, not only the first
    for i in range(max(8, n // 10)):
        k = rng.choice([2, 2, 3])
        needs = [rng.random() < 0.6 for _ in range(k)]
        if not any(needs[1:]):
            needs[rng.randint(1, k - 1)] = True
        tree = {"lp/_dep.scss": "dep{from:loadpath}\n", "lp/other.scss": "other{from:loadpath2}\n"}
        files = []
        for j in range(k):
            name = f"src/m{j}.scss"
            if needs[j]:
                form = rng.choice(['@use "dep";', '@import "dep";', '@use "other";', '@forward "dep";'])
                tree[name] = f"{form}\nm{j}{{k:mark{j}x}}\n"
            else:
                tree[name] = sheetgen.gen_sheet(rng, 0.0)
            files.append(name)
        # markers are demanded only for the files BEFORE the first failing one (the tool stops at the first failure)
        c = {"tree": tree, "files": files, "lp": "lp", "must": [], "mustnot": [], "layout": "multi-lp",
             "must_by_file": {str(j): [f"mark{j}x", "loadpath"] for j in range(k) if needs[j]}}
        c.update(flags())
        cases.append(c)
    # nested layouts (rsass 3dfdada): a dependency loaded from a file in a sub directory is looked up relative to that
    # file first, then unchanged in the input's directory, then in the load path
    for i in range(max(6, n // 12)):
        where = ["pkgdir", "srcdir", "lp", "none"][i % 4]
        tree = {"src/main.scss": '@use "pkg/a";\nmain{k:v}\n', "src/pkg/_a.scss": '@use "b";\na{k:v}\n', "lp/.keep": ""}
        must, mustnot = [], []
        if where == "pkgdir":
            tree["src/pkg/_b.scss"] = "b{from:pkgdir}\n"
            tree["src/b.scss"] = "b{from:srcdir}\n"
            must, mustnot = ["pkgdir"], ["srcdir", "loadpath"]
        elif where == "srcdir":
            tree["src/b.scss"] = "b{from:srcdir}\n"
            tree["lp/b.scss"] = "b{from:loadpath}\n"
            must, mustnot = ["srcdir"], ["loadpath"]
        elif where == "lp":
            tree["lp/_b.scss"] = "b{from:loadpath}\n"
            must = ["loadpath"]
        c = {"tree": tree, "files": ["src/main.scss"], "lp": "lp", "must": must, "mustnot": mustnot, "layout": "nested-" + where}
        c.update(flags())
        cases.append(c)
    return cases


def search_cases(ctx, broken):
    class C:
        pass
    c = C()
    c.rng = ctx.rng
    return gen_cases(c, "quick")


def fmt_of(c):
    return (c["style"] or "expanded", str(c["prec"] if c["prec"] is not None else 5))


def impl_requests(c):
    d = case_dir(c)
    st, pr = fmt_of(c)
    lp = [os.path.join(d, c["lp"])] if c["lp"] else []
    return [("path", st, pr, os.path.join(d, f)) + tuple(lp) for f in c["files"]]


def run_cli(c):
    d = case_dir(c)
    args = [cli_path()]
    if c["style"]:
        args += ["--style", c["style"]]
    if c["prec"] is not None:
        args += ["--precision", str(c["prec"])]
    if c["lp"]:
        args += ["-I", os.path.join(d, c["lp"])]
    args += [os.path.join(d, f) for f in c["files"]]
    try:
        p = subprocess.run(args, capture_output=True, timeout=60, cwd=d)
        return p.returncode, p.stdout, p.stderr
    except subprocess.TimeoutExpired:
        return -999, b"", b"TIMEOUT"


def coq_term(c, io):
    fs = []
    for tag, f in io:
        if tag == "ok":
            fs.append(f"(FOk {cbytes(f[0])})")
        elif tag == "err":
            fs.append(f"(FErr {cbytes(f[0])})")
        else:
            fs.append("FBad")
    first_fail = next((j for j, (tag, _) in enumerate(io) if tag != "ok"), len(io))
    must = list(c["must"])
    for j, ms in sorted(c.get("must_by_file", {}).items()):
        if int(j) < first_fail:
            must += [m for m in ms if m not in must]
    rc, so, se = run_cli(c)
    c["_cli"] = [rc, so.decode("utf-8", "replace")[:2000], se.decode("utf-8", "replace")[:2000]]
    return (f"(mkCase {clist(fs)} {cz(rc)} {cbytes(so)} {cbytes(se)} {clist([cbytes(m) for m in must])} "
            f"{clist([cbytes(m) for m in c['mustnot']])})")


def judge(c, io, r):
    corr, succ, fail, loads, allok, nfiles = r
    cli = c.pop("_cli", None)
    return {
        "corr": None if corr == 2 else (corr == 1),
        "clauses": [("stdout-and-exit-0", succ == 1, None), ("failure-exit-and-stderr", fail == 1, None),
                    ("load-resolution", loads == 1, None)],
        "nontrivial": True,
        "tags": [f"files:{nfiles}", "all-ok" if allok else "some-fail", c.get("layout", "plain"),
                 "style:" + str(c["style"]), "prec:" + ("default" if c["prec"] is None else "set")],
        "show": f"rsass {fmt_of(c)} lp={c['lp']} {c['files']} {c.get('layout', '')}",
        "detail": {"cli": cli},
    }


def shrink(c):
    if len(c["files"]) > 1:
        for i in range(len(c["files"])):
            d = dict(c, files=c["files"][:i] + c["files"][i + 1:])
            if "must_by_file" in d:         # per-file markers are keyed by position: re-key them
                names = c["files"]
                d["must_by_file"] = {str(d["files"].index(names[int(j)])): ms for j, ms in c["must_by_file"].items()
                                     if names[int(j)] in d["files"]}
            yield d
    if c["style"] or c["prec"] is not None:
        yield dict(c, style=None, prec=None)


LEVEL_TEXT = ("proof: Args::run, regenerated from rsass-cli/src/main.rs as a call-tree term and executed by an interpreter in which "
              "every library function is arbitrary, equals the documented loop for all libraries, flags and any number of inputs "
              "(induction over the input list with an environment invariant): stdout = outputs of the files before the first failure, "
              "result Ok iff all compile, else the first error; main maps Ok to SUCCESS and Err to `Error: ..` + FAILURE; StyleArg maps "
              "to the Style of the same name; tied to the binary by running it against the library on generated invocations")
LEVEL_NOTE = ("trusted: Coq kernel, gen/gens/Entry.py, Model/Entry.v interpreter, Spec/EntryDocs.v, clap's argument parsing, the harness")
TECHNIQUE = "Coq proof (symbolic execution of the extracted call tree, induction over inputs, all libraries) + translator + differential check of the built binary"
