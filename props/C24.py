"""C24 - Selector unify/extend/replace/nest/append obey their algebra."""
import re
from common import *
from selkit import *
import C23 as c23

ID = "C24"
GEN = []
THEOREMS = ["C24_nest_same", "C24_append_same", "C24_extend_keeps", "C24_extend_head", "C24_replace_nomatch"]
COQ_HEADER = ("From Coq Require Import List NArith ZArith.\nFrom RV Require Import Model.Sel Run.C24.\n"
              "Import ListNotations.\nLocal Open Scope list_scope.")
RUN_EXPR = "Run.C24.run"
RULE = ("selector lists as for C23 (no placeholders): nest(A,B) vs `A { B {x:y} }` (B with and without `&`), "
        "append(A,B) vs `A { &B {x:y} }` for B = compound of a type suffix and/or simple selectors, unify(A,B) with "
        "is-superselector(A / B, result), extend(S,X,Y) and replace(S,X,Y) with X simple selectors taken from S or "
        "unrelated; distinct = distinct call; non-trivial = all")
EXHAUSTIVE = {"quick": False, "thorough": False}
TRUSTED = ["props/selkit.py prints the structured selectors as source text",
           "clause unify-sound uses the implementation's own is-superselector (tied to the model by C23)"]
ASSUMPTIONS = ["Selector::unify (inner_unify / unify_relbox) is not modelled: extend and replace are modelled with unify as a "
               "parameter and their theorems hold for every unify; soundness of unify is tested per case (operands with descendant / "
               "child or descendant / sibling combinators and no pseudo-element, where rsass's is-superselector is a complete test), "
               "not proved"]


def sq(text):
    return '"' + text.replace("\\", "\\\\").replace('"', '\\"') + '"'


def gl(rng, nmax=2, depth=None, other=False):
    depth = rng.choice([0, 0, 1]) if depth is None else depth
    return gen_sels(rng, depth, ph=0.0, nmax=nmax, other=other)


def gen_suffix(rng):
    c = comp()
    if rng.random() < 0.4:
        c["el"] = rng.choice(["-x", "x", "_y"])
    elif rng.random() < 0.12:
        c["el"] = rng.choice(["*", "|x"])          # cant_append: selector.append must refuse these
    for _ in range(rng.choice([0, 1, 1, 2])):
        k = rng.choice(["cl", "cl", "ps", "at", "id"])
        if k == "cl":
            x = rng.choice(CLASSES + ["e"])
            if x not in c["cl"]:
                c["cl"].append(x)
        elif k == "ps":
            c["ps"].append(list(rng.choice([["hover", False, None], ["focus", False, None], ["after", True, None]])))
        elif k == "at":
            c["at"] = [list(rng.choice(ATTRS))]
        elif c["id"] is None:
            c["id"] = rng.choice(IDS)
    if comp_empty(c):
        c["cl"] = ["e"]
    return sel(c)


POOL = [".a", ".b", ".c", ".x", "p", "q", "#i"]


def small_comp(rng):
    c = comp()
    for tok in rng.sample(POOL, rng.choice([1, 1, 1, 2])):
        if tok[0] == ".":
            c["cl"].append(tok[1:])
        elif tok[0] == "#":
            c["id"] = tok[1:]
        elif c["el"] is None:
            c["el"] = tok
    if rng.random() < 0.1:
        c["ps"].append(["hover", False, None])
    return c


def ap_chain(rng, n=None, kinds="AAP"):
    n = n or rng.choice([1, 2, 2, 3, 3, 4])
    s = sel(small_comp(rng))
    for _ in range(n - 1):
        s = sel(small_comp(rng), [rng.choice(kinds), s])
    return s


def related_chain(rng, a, kinds="APP", root_kinds="AP"):
    """a chain sharing compounds with a (so that unify_relbox finds local superselectors), other combinators"""
    import copy
    nodes = []
    n = a
    while n is not None:
        nodes.append(n)
        n = n["rel"][1] if n["rel"] is not None else None
    keep = [copy.deepcopy(x["c"]) for x in nodes if rng.random() < 0.7] or [copy.deepcopy(nodes[0]["c"])]
    keep.reverse()                       # root first
    if rng.random() < 0.5:
        keep[-1] = small_comp(rng)       # a different subject compound
    for c in keep:
        if rng.random() < 0.3:
            x = rng.choice(["a", "b", "c", "x", "y"])
            if x not in c["cl"]:
                c["cl"].append(x)
    s = sel(keep[0])
    for c in keep[1:]:
        s = sel(c, [rng.choice(kinds), s])
    if rng.random() < 0.35:
        root = s
        while root["rel"] is not None:
            root = root["rel"][1]
        root["rel"] = [rng.choice(root_kinds), sel(small_comp(rng))]
    return s


def simple_of(rng, s):
    """a simple selector (as a one-compound selector) occurring in list s, or an unrelated one"""
    if rng.random() < 0.75:
        x = rng.choice(s)
        c = x["c"]
        opts = []
        if c["el"] not in (None, "*"):
            opts.append(comp(el=c["el"]))
        opts += [comp(cl=[k]) for k in c["cl"]]
        if c["id"]:
            opts.append(comp(id=c["id"]))
        opts += [comp(ps=[p]) for p in c["ps"]]
        if opts:
            return sel(rng.choice(opts))
    return sel(rng.choice([comp(cl=["zz"]), comp(el="q"), comp(cl=[rng.choice(CLASSES)]), comp(el=rng.choice(ELEMS[:-1]))]))


import C19 as c19

CORPUS = [
    {"kind": 0, "a": [sel(comp(el="a")), sel(comp(el="b"))], "b": [sel(comp(el="c")), sel(comp(el="d"))], "c": []},
    {"kind": 1, "a": [sel(comp(el="a"))], "b": [sel(comp(el="-x"))], "c": []},
    {"kind": 1, "a": [sel(comp(el="*"))], "b": [sel(comp(el="b"))], "c": []},
    {"kind": 1, "a": [sel(comp(el="a"))], "b": [sel(comp(el="*", cl=["c"]))], "c": []},
    {"kind": 1, "a": [sel(comp(el="a"))], "b": [sel(comp(el="|x"))], "c": []},
    {"kind": 1, "a": [sel(comp(el="a", ps=[["before", True, None]]))], "b": [sel(comp(ps=[["hover", False, None]]))], "c": []},
    {"kind": 1, "a": [sel(comp(ps=[["host", False, None]]))], "b": [sel(comp(cl=["foo"]))], "c": []},
    {"kind": 2, "a": [sel(comp(el="a", cl=["b"]))], "b": [sel(comp(cl=["c"]))], "c": []},
    {"kind": 2, "a": [sel(comp(ps=[["not", False, ["s", [sel(comp(cl=["a"]))]]]]))],
     "b": [sel(comp(ps=[["not", False, ["s", [sel(comp(cl=["a"])), sel(comp(cl=["b"]))]]]]))], "c": []},      # K2 witness
    {"kind": 2, "a": [chain(comp(cl=["x"]), "A", comp(cl=["a"]), "A", comp(cl=["c"]))], "b": [chain(comp(cl=["a"]), "P", comp(cl=["d"]))], "c": []},
    {"kind": 2, "a": [chain(comp(cl=["a"]), "A", comp(cl=["c"]))], "b": [chain(comp(cl=["a"]), "P", comp(cl=["d"]))], "c": []},
    {"kind": 2, "a": [chain(comp(cl=["c"]), "J", comp(cl=["s1"]))], "b": [chain(comp(cl=["y"]), "A", comp(cl=["c"]), "S", comp(cl=["s2"]))], "c": []},
    {"kind": 2, "a": [chain(comp(cl=["x"]), "A", comp(cl=["c"]), "S", comp(cl=["a"]))], "b": [chain(comp(cl=["c"]), "J", comp(cl=["a"]))], "c": []},
    {"kind": 2, "a": [chain(comp(cl=["x"]), "P", comp(cl=["a"]), "A", comp(cl=["c"]))], "b": [chain(comp(cl=["y"]), "A", comp(cl=["a", "b"]), "P", comp(cl=["c"]))], "c": []},
    {"kind": 2, "a": [chain(comp(cl=["a"]), "A", comp(cl=["b"]))], "b": [chain(comp(cl=["c"]), "A", comp(cl=["d"]))], "c": []},
    {"kind": 3, "a": [sel(comp(el="a", cl=["b"])), sel(comp(cl=["c"]))], "b": [sel(comp(cl=["b"]))], "c": [sel(comp(cl=["x"]))]},
    {"kind": 4, "a": [sel(comp(el="a", cl=["b"])), sel(comp(cl=["c"]))], "b": [sel(comp(cl=["zz"]))], "c": [sel(comp(cl=["x"]))]},
    {"kind": 4, "a": [sel(comp(el="a", cl=["b"])), sel(comp(cl=["c"]))], "b": [sel(comp(cl=["b"]))], "c": [sel(comp(cl=["x"]))]},
]


def gen_cases(ctx, tier):
    rng = ctx.rng
    cases = list(CORPUS)
    n = 1 if tier == "quick" else 8
    for _ in range(220 * n):
        a = gl(rng, 3)
        b = c19.gen_inner(rng, 0.4) if rng.random() < 0.5 else gl(rng, 3)
        for s in b:                       # no placeholders / leading combinators here
            pass
        cases.append({"kind": 0, "a": a, "b": strip_ph(b), "c": []})
    for _ in range(200 * n):
        cases.append({"kind": 1, "a": gl(rng, 2), "b": [gen_suffix(rng) for _ in range(rng.randint(1, 2))], "c": []})
    for _ in range(600 * n):
        a = gl(rng, 2, other=False)
        b = c23.spec_list(rng, a) if rng.random() < 0.4 else gl(rng, 2)
        if rng.random() < 0.4:
            b = [sel(gen_comp(rng, 0))]
        if rng.random() < 0.5:            # combinator-free operands: the only ones the unify clause judges
            a = [sel(gen_comp(rng, rng.choice([0, 1]), other=True)) for _ in range(rng.randint(1, 2))]
            b = [sel(gen_comp(rng, rng.choice([0, 1]), other=True)) for _ in range(rng.randint(1, 2))]
        r = rng.random()
        if r < 0.45:                      # descendant / child chains over a small vocabulary, often related
            a = [ap_chain(rng) for _ in range(rng.choice([1, 1, 2]))]
            b = [related_chain(rng, rng.choice(a)) if rng.random() < 0.7 else ap_chain(rng)
                 for _ in range(rng.choice([1, 1, 2]))]
            if rng.random() < 0.5:
                a, b = b, a
        elif r < 0.75:                    # descendant / sibling chains (`+`, `~`), no child combinator
            a = [ap_chain(rng, kinds="AASJ") for _ in range(rng.choice([1, 1, 2]))]
            b = [related_chain(rng, rng.choice(a), "ASJJS", "AASJ") if rng.random() < 0.7 else ap_chain(rng, kinds="AASJ")
                 for _ in range(rng.choice([1, 1, 2]))]
            if rng.random() < 0.5:
                a, b = b, a
        if ":current(" in t_sels(a) + t_sels(b):
            # :current() compares its arguments for equality and the printer drops an explicit `*` (`*#i` -> `#i`),
            # so the text of the result does not read back as the same argument
            continue
        cases.append({"kind": 2, "a": a, "b": b, "c": []})
    for _ in range(200 * n):
        s = gl(rng, 3)
        x = [simple_of(rng, s) for _ in range(rng.randint(1, 2))]
        y = gl(rng, 2, depth=0)
        cases.append({"kind": rng.choice([3, 4]), "a": s, "b": x, "c": y})
    return cases


def strip_ph(l):
    import copy
    l = copy.deepcopy(l)

    def fix(s):
        s["c"]["ph"] = []
        if comp_empty(s["c"]):
            s["c"]["cl"] = ["k"]
        for p in s["c"]["ps"]:
            if p[2] and p[2][0] == "s":
                for x in p[2][1]:
                    fix(x)
        if s["rel"] is not None:
            fix(s["rel"][1])
    for s in l:
        fix(s)
    return l


def search_cases(ctx, broken):
    rng = ctx.rng
    out = []
    for _ in range(1500):
        s = gl(rng, 3)
        out.append({"kind": rng.choice([3, 4]), "a": s, "b": [simple_of(rng, s)], "c": gl(rng, 2, depth=0)})
    return out


FN = {0: "selector-nest", 1: "selector-append", 2: "selector-unify", 3: "selector-extend", 4: "selector-replace"}


def call_of(c):
    args = [sq(t_sels(c["a"])), sq(t_sels(c["b"]))] + ([sq(t_sels(c["c"]))] if c["kind"] >= 3 else [])
    return f"{FN[c['kind']]}({', '.join(args)})"


def rule_of(c):
    if c["kind"] == 0:
        return f"{t_sels(c['a'])} {{ {t_sels(c['b'])} {{x:y}} }}"
    inner = ", ".join("&" + t_sel(s) for s in c["b"])
    return f"{t_sels(c['a'])} {{ {inner} {{x:y}} }}"


def impl_requests(c):
    k = c["kind"]
    if k in (0, 1):
        return [("scss", "expanded", "10", f"a {{ r: {call_of(c)}; }}\n"), ("scss", "expanded", "10", rule_of(c))]
    if k == 2:
        a, b = sq(t_sels(c["a"])), sq(t_sels(c["b"]))
        return [("scss", "expanded", "10",
                 f"$u: {call_of(c)};\na {{ n: $u == null; r: $u; sa: is-superselector({a}, \"#{{$u}}\"); "
                 f"sb: is-superselector({b}, \"#{{$u}}\"); }}\n")]
    return [("scss", "expanded", "10", f"a {{ n: {call_of(c)} == null; r: {call_of(c)}; }}\n")]


def field(css, name):
    m = re.search(rb"\n  " + name + rb": (.*);\n", css)
    return m.group(1) if m else None


def st(tag):
    return 0 if tag == "ok" else (1 if tag == "err" else 2)


def tri(b):
    return 1 if b == b"true" else (0 if b == b"false" else 2)


def coq_term(c, io):
    k = c["kind"]
    t1 = t2 = None
    st1, st2, f1, f2 = st(io[0][0]), 0, 2, 2
    if io[0][0] == "ok":
        css = io[0][1][0]
        t1 = field(css, b"r")
        if k == 2:
            if field(css, b"n") == b"true":
                t1 = None
            else:
                f1, f2 = tri(field(css, b"sa")), tri(field(css, b"sb"))
    if k in (0, 1):
        st2 = st(io[1][0])
        if io[1][0] == "ok":
            t2 = emitted_selector(io[1][1][0])
            if t2 is None:
                st2 = 1 if st1 != 0 else 0
    return (f"(mkCase {k}%N {q_sels(c['a'])} {q_sels(c['b'])} {q_sels(c['c'])} {q_otext(t1)} {st1}%N "
            f"{q_otext(t2)} {st2}%N {f1}%N {f2}%N)")


NAMES = {0: "nest-equals-nested-rule", 1: "append-equals-parent-suffix-rule", 2: "unify-result-below-both",
         3: "extend-keeps-originals-in-order", 4: "replace-without-match-is-identity"}


def judge(c, io, r):
    corr, ok, acls, kind, st1 = r
    return {
        "corr": None if corr == 2 else corr == 1,
        "clauses": [(NAMES[c["kind"]], ok == 1, {1: "known_C24_K1_append_route_differs",
                                                   2: "known_C24_K2_unify_keeps_general_pseudo"}.get(acls))],
        "nontrivial": True,
        "tags": [FN[c["kind"]], ["ok", "error", "panic"][st1]],
        "show": call_of(c) + (" ; " + rule_of(c) if c["kind"] < 2 else ""),
        "detail": call_of(c),
    }


LEVEL_TEXT = ("proof (partial): selector.nest is the function used for nested rules (same model function); selector.append "
              "and `&suffix` produce the same selector whenever unifying the appended compound with the empty compound is "
              "the identity; extend keeps every original complex selector as the head of its block, hence all of them in "
              "order, and replace is the identity when no original is a superselector of a member or of a member of its "
              "selector pseudos - both for EVERY unify function (unify is a parameter of the model); unify soundness is "
              "checked per case with the implementation's is-superselector, not proved")
LEVEL_NOTE = ("trusted: Coq kernel+vm_compute, the harness, the python printer; Selector::unify is not modelled")
TECHNIQUE = "Coq proof (induction over lists / nested induction, unify abstract) + differential correspondence + per-case clauses"
