"""C16 - Variable assignment follows Sass scoping."""
import re
from common import *

ID = "C16"
GEN = []
THEOREMS = ["C16_global_flag", "C16_default_flag", "C16_unflagged_writes_current", "C16_for_var_local",
            "C16_each_var_restored", "C16_params_local", "C16_block_keeps_outer", "C16_refuted_inner_update",
            "C16_refuted_soft_decl", "C16_refuted_each_alias", "C16_main_partial", "C16_main_partial_if"]
COQ_HEADER = ("From Coq Require Import List ZArith.\nFrom RV Require Import Model.EvScope Run.C16.\n"
              "Import ListNotations.\nLocal Open Scope Z_scope.")
RUN_EXPR = "Run.C16.run"
RULE = ("programs over 3 variables nesting rules, @media, @if/@else, @each, @for, @while and mixins (with parameters) to depth 4, "
        "with declarations (plain, !default, !global, both), reassignments depending on current values and reads at every level; "
        "families: free, flagged-only, own-scope-only (outside the known classes), null-shadow (explicit local null over a non-null outer "
        "variable followed by !default) and bounded-exhaustive two-level programs; "
        "distinct = distinct source text; non-trivial = at least one read executed")
EXHAUSTIVE = {"quick": False, "thorough": False}
TRUSTED = ["Spec/SassScope.v: reference interpreter written from the four sentences of the property",
           "python printer of the statement language to SCSS (reads are `q { rN: if(variable-exists(x), inspect($x), undef) }`, "
           "@while is driven by a private !global counter, mixins are hoisted to top level)"]
ASSUMPTIONS = ["where the property text is silent the reference takes the reading closest to rsass (one scope per @for iteration, "
               "one per @each / @while loop)",
               "function bodies (ScopeRef::eval_body) are not modelled; parameters are covered through mixins"]

NVARS = 3


# ---------------------------------------------------------------- generation
def gen_expr(rng):
    r = rng.random()
    if r < 0.42:
        return ["int", rng.randrange(1, 10)]
    if r < 0.5:
        return ["null"]
    return ["vp", rng.randrange(NVARS), rng.randrange(1, 4) * 10]


class G:
    def __init__(self, rng, mode):
        self.rng, self.mode, self.rid = rng, mode, 0

    def read(self, x=None):
        self.rid += 1
        return ["read", self.rid - 1, self.rng.randrange(NVARS) if x is None else x]

    def setstmt(self, declared):
        rng = self.rng
        x = rng.randrange(NVARS)
        r = rng.random()
        d, g = False, False
        if self.mode == "flagged":
            g = True
            d = rng.random() < 0.3
        elif self.mode == "own":
            # only variables already declared in this very body, or new ones in hard scopes
            if declared and rng.random() < 0.7:
                x = rng.choice(sorted(declared))
            d = rng.random() < 0.15
            g = rng.random() < 0.15
        else:
            if r < 0.15:
                g = True
            elif r < 0.3:
                d = True
            elif r < 0.35:
                d = g = True
        return ["set", x, gen_expr(rng), d, g]

    def body(self, depth, n=None, soft=False):
        rng = self.rng
        n = rng.randrange(1, 5) if n is None else n
        out = []
        declared = set()
        for _ in range(n):
            r = rng.random()
            if r < 0.35:
                s = self.setstmt(declared)
                if self.mode == "own" and not s[4]:
                    # keep the program outside the classes: in soft bodies only reassign what is visible nowhere else
                    if soft:
                        continue
                    if s[1] not in declared:
                        s[3] = False
                    declared.add(s[1])
                out.append(s)
            elif r < 0.6 or depth <= 0:
                out.append(self.read())
            else:
                k = rng.choice(["block", "block", "if", "each", "for", "while", "mixin"])
                if k == "block":
                    out.append(["block", rng.choice(["rule", "media"]), self.body(depth - 1)])
                elif k == "if":
                    out.append(["if", gen_expr(rng) if rng.random() < 0.7 else ["int", 0],
                                self.body(depth - 1, soft=True), self.body(depth - 1, rng.randrange(0, 3), soft=True)])
                elif k == "each":
                    x = rng.randrange(NVARS)
                    items = [rng.randrange(1, 10) for _ in range(rng.randrange(0, 4))]
                    out.append(["each", x, items, self.body(depth - 1, soft=True) + [self.read(x)]])
                elif k == "for":
                    x = rng.randrange(NVARS)
                    a = rng.randrange(1, 4)
                    b = a + rng.randrange(-2, 3)
                    out.append(["for", x, a, b, rng.random() < 0.6, self.body(depth - 1) + [self.read(x)]])
                elif k == "while":
                    out.append(["while", rng.randrange(0, 4), self.body(depth - 1)])
                else:
                    ps = rng.sample(range(NVARS), rng.randrange(0, 3))
                    out.append(["mixin", [[p, gen_expr(rng)] for p in ps],
                                self.body(depth - 1) + ([self.read(ps[0])] if ps else [])])
        return out

    def program(self, depth):
        p = self.body(depth, self.rng.randrange(2, 6))
        for x in range(NVARS):
            p.append(self.read(x))
        return p


CORPUS = [
    # F23 witnesses and the rule lemmas' shapes
    [["block", "rule", [["set", 0, ["int", 1], False, False], ["block", "rule", [["set", 0, ["int", 2], False, False]]],
                        ["read", 0, 0]]]],
    [["set", 0, ["int", 0], False, False], ["for", 1, 1, 3, True, [["set", 0, ["vp", 0, 1], False, False]]], ["read", 0, 0]],
    [["set", 0, ["int", 1], False, False], ["if", ["int", 1], [["set", 0, ["int", 2], False, False],
                                                                ["set", 1, ["int", 3], False, False]], []],
     ["read", 0, 0], ["read", 1, 1]],
    [["set", 0, ["int", 1], False, False], ["each", 1, [1, 2], [["set", 0, ["vp", 0, 1], False, False]]],
     ["read", 0, 0], ["read", 1, 1]],
    [["each", 0, [1, 2], [["set", 0, ["int", 7], False, True], ["read", 0, 0]]], ["read", 1, 0]],
    [["set", 0, ["int", 1], False, False],
     ["mixin", [[1, ["int", 5]], [0, ["int", 7]]], [["set", 0, ["vp", 1, 0], False, True], ["read", 0, 0]]],
     ["read", 1, 0], ["read", 2, 1]],
    [["block", "rule", [["set", 0, ["null"], False, False], ["set", 0, ["int", 2], True, False],
                        ["set", 1, ["int", 5], False, False], ["set", 1, ["int", 6], True, False],
                        ["set", 2, ["int", 7], True, False], ["read", 0, 0], ["read", 1, 1], ["read", 2, 2],
                        ["block", "rule", [["set", 0, ["int", 9], True, False], ["set", 0, ["int", 4], True, True],
                                           ["read", 3, 0]]]]], ["read", 4, 0]],
    [["block", "rule", [["set", 0, ["int", 1], False, False],
                        ["block", "media", [["set", 0, ["int", 2], False, False], ["read", 0, 0]]], ["read", 1, 0]]]],
    [["set", 0, ["int", 1], False, False], ["while", 2, [["set", 0, ["vp", 0, 1], False, False], ["read", 0, 0]]],
     ["read", 1, 0]],
    # seeded/C16-1: $x: 1; a { $x: null; $x: 2 !default; b: $x; c { $x: 3 !default; d: $x } } e { f: $x }
    [["set", 0, ["int", 1], False, False],
     ["block", "rule", [["set", 0, ["null"], False, False], ["set", 0, ["int", 2], True, False], ["read", 0, 0],
                        ["block", "rule", [["set", 0, ["int", 3], True, False], ["read", 1, 0]]]]],
     ["block", "rule", [["read", 2, 0]]]],
    [["set", 0, ["int", 1], False, False],
     ["block", "rule", [["set", 0, ["null"], False, False],
                        ["block", "media", [["set", 0, ["int", 3], True, False], ["read", 0, 0]]], ["read", 1, 0]]]],
]


def small_programs():
    """bounded-exhaustive: outer declaration, one block kind, one inner assignment form, reads."""
    out = []
    forms = [(False, False), (True, False), (False, True), (True, True)]
    for outer in ("none", "top", "rule"):
        for kind in ("rule", "media", "if", "each", "for", "while", "mixin"):
            for (d, g) in forms:
                for same in (True, False):
                    inner_x = 0 if same else 1
                    inner = [["set", inner_x, ["int", 2], d, g], ["read", 0, 0], ["read", 1, 1]]
                    if kind in ("rule", "media"):
                        blk = ["block", kind, inner]
                    elif kind == "if":
                        blk = ["if", ["int", 1], inner, []]
                    elif kind == "each":
                        blk = ["each", 2, [5, 6], inner]
                    elif kind == "for":
                        blk = ["for", 2, 1, 2, True, inner]
                    elif kind == "while":
                        blk = ["while", 2, inner]
                    else:
                        blk = ["mixin", [[2, ["int", 8]]], inner]
                    tail = [["read", 2, 0], ["read", 3, 1], ["read", 4, 2]]
                    if outer == "none":
                        p = [blk] + tail
                    elif outer == "top":
                        p = [["set", 0, ["int", 1], False, False], blk] + tail
                    else:
                        p = [["block", "rule", [["set", 0, ["int", 1], False, False], blk] + tail],
                             ["read", 5, 0], ["read", 6, 1]]
                    out.append(p)
    return out


def wrap(kind, body, rng):
    if kind in ("rule", "media"):
        return ["block", kind, body]
    if kind == "for":
        return ["for", 2, 1, rng.choice([1, 2]), True, body]
    if kind == "while":
        return ["while", rng.choice([1, 2]), body]
    if kind == "mixin":
        return ["mixin", [[2, ["int", 8]]], body]
    if kind == "if":
        return ["if", ["int", 1], body, []]
    return ["each", 2, [5], body]


def null_shadow(rng):
    """a non-null outer variable, shadowed by an explicit local `null`, then `!default` (same scope or nested):
    the visible value is null, so !default must assign (seeded change C16-1 looked past the local null)"""
    x = rng.randrange(2)
    rid = [0]

    def rd(v=None):
        rid[0] += 1
        return ["read", rid[0] - 1, x if v is None else v]
    kinds = ["rule", "media", "for", "while", "mixin"]
    k1 = rng.choice(kinds)
    inner = [["set", x, ["null"], False, False]]
    if rng.random() < 0.4:
        inner.append(rd())
    dflt = ["set", x, ["int", rng.randrange(2, 9)], True, rng.random() < 0.15]
    r = rng.random()
    if r < 0.55:
        inner += [dflt, rd()]
    elif r < 0.8:
        inner += [wrap(rng.choice(kinds + ["if", "each"]), [dflt, rd()], rng), rd()]
    else:
        inner += [["set", x, ["vp", 1 - x, 10], True, False], rd(), dflt, rd()]
    outer = [["set", x, ["int", 1], False, rng.random() < 0.3], wrap(k1, inner, rng), rd()]
    if rng.random() < 0.4:
        # the non-null outer variable lives in a rule instead of the global scope
        outer = [["block", "rule", outer + [rd()]], rd()]
    if rng.random() < 0.3:
        outer.insert(0, ["set", 1 - x, ["int", 4], False, False])
    return outer


def gen_cases(ctx, tier):
    rng = ctx.rng
    cases = [{"p": p} for p in CORPUS] + [{"p": p} for p in small_programs()]
    cases += [{"p": null_shadow(rng), "mode": "nullshadow"} for _ in range(120 if tier == "quick" else 1500)]
    mult = 1 if tier == "quick" else 15
    for mode, n, depth in (("free", 300, 3), ("free", 80, 4), ("flagged", 100, 3), ("own", 250, 3), ("own", 70, 4)):
        for _ in range(n * mult):
            cases.append({"p": G(rng, mode).program(depth), "mode": mode})
    return cases


def search_cases(ctx, broken):
    rng = ctx.rng
    return [{"p": G(rng, m).program(3), "mode": m} for m in ("free", "own", "flagged") for _ in range(500)]


# ---------------------------------------------------------------- printing
def e_src(e):
    if e[0] == "int":
        return str(e[1])
    if e[0] == "null":
        return "null"
    return "(if(variable-exists(v%d), if($v%d == null, 0, $v%d), 0) + %d)" % (e[1], e[1], e[1], e[2])


def e_coq(e):
    if e[0] == "int":
        return f"(EInt {cz(e[1])})"
    if e[0] == "null":
        return "ENull"
    return f"(EVarPlus {e[1]}%nat {cz(e[2])})"


class Printer:
    def __init__(self):
        self.defs = []
        self.k = 0

    def fresh(self):
        self.k += 1
        return self.k

    def body(self, b):
        return " ".join(self.stmt(s) for s in b)

    def stmt(self, s):
        t = s[0]
        if t == "set":
            return "$v%d: %s%s%s;" % (s[1], e_src(s[2]), " !default" if s[3] else "", " !global" if s[4] else "")
        if t == "read":
            return "q { r%d: if(variable-exists(v%d), inspect($v%d), undef); }" % (s[1], s[2], s[2])
        if t == "block":
            return ("b { %s }" if s[1] == "rule" else "@media print { %s }") % self.body(s[2])
        if t == "if":
            return "@if %s != 0 { %s } @else { %s }" % (e_src(s[1]), self.body(s[2]), self.body(s[3]))
        if t == "each":
            items = ", ".join(str(i) for i in s[2])
            if len(s[2]) == 0:
                items = "()"
            elif len(s[2]) == 1:
                items = "(%s,)" % items
            return "@each $v%d in %s { %s }" % (s[1], items, self.body(s[3]))
        if t == "for":
            return "@for $v%d from %d %s %d { %s }" % (s[1], s[2], "through" if s[4] else "to", s[3], self.body(s[5]))
        if t == "while":
            k = self.fresh()
            return "$w%d: 0 !global; @while $w%d < %d { $w%d: $w%d + 1 !global; %s }" % (k, k, s[1], k, k, self.body(s[2]))
        if t == "mixin":
            k = self.fresh()
            body = self.body(s[2])
            self.defs.append("@mixin m%d(%s) { %s }" % (k, ", ".join("$v%d" % p[0] for p in s[1]), body))
            return "@include m%d(%s);" % (k, ", ".join(e_src(p[1]) for p in s[1]))
        raise ValueError(t)


def src_of(c):
    pr = Printer()
    main = pr.body(c["p"])
    return "\n".join(pr.defs + [main])


def s_coq(s):
    t = s[0]
    if t == "set":
        return f"(SSet {s[1]}%nat {e_coq(s[2])} {cbool(s[3])} {cbool(s[4])})"
    if t == "read":
        return f"(SRead {s[1]}%nat {s[2]}%nat)"
    if t == "block":
        return f"(SBlock {'KRule' if s[1] == 'rule' else 'KMedia'} {b_coq(s[2])})"
    if t == "if":
        return f"(SIf {e_coq(s[1])} {b_coq(s[2])} {b_coq(s[3])})"
    if t == "each":
        return f"(SEach {s[1]}%nat {clist([cz(i) for i in s[2]])} {b_coq(s[3])})"
    if t == "for":
        return f"(SFor {s[1]}%nat {cz(s[2])} {cz(s[3])} {cbool(s[4])} {b_coq(s[5])})"
    if t == "while":
        return f"(SWhile {s[1]}%nat {b_coq(s[2])})"
    if t == "mixin":
        ps = clist([f"({p[0]}%nat, {e_coq(p[1])})" for p in s[1]])
        return f"(SMixin {ps} {b_coq(s[2])})"
    raise ValueError(t)


def b_coq(b):
    return clist([s_coq(s) for s in b])


def impl_requests(c):
    return [("scss", "expanded", "10", src_of(c))]


RD = re.compile(r"^\s*r(\d+): (.*);$")


def impl_term(io):
    tag, f = io[0]
    if tag == "err":
        return "IErr"
    if tag == "panic":
        return "IPanic"
    if tag != "ok":
        return "IOther"
    reads = []
    for line in f[0].decode("utf-8", "replace").split("\n"):
        m = RD.match(line)
        if m:
            v = m.group(2)
            if v == "undef":
                t = "None"
            elif v == "null":
                t = "(Some SNull)"
            elif re.fullmatch(r"-?\d+", v):
                t = f"(Some (SV {cz(int(v))}))"
            else:
                return "IOther"
            reads.append((int(m.group(1)), t))
    reads.sort(key=lambda p: p[0])
    return "(IReads " + clist([f"({i}%nat, {t})" for i, t in reads]) + ")"


def coq_term(c, io):
    return f"(mkCase {b_coq(c['p'])} {impl_term(io)})"


KCLASS = {0: None, 1: "known_C16_K1_inner_update", 2: "known_C16_K2_soft_decl", 3: "known_C16_K3_each_alias"}


def judge(c, io, r):
    corr, ok, k, same = r
    tag, f = io[0]
    return {
        "corr": corr == 1,
        "clauses": [("scoping", ok == 1, KCLASS[k])],
        "nontrivial": tag == "ok" and b": " in f[0],
        "key": src_of(c),
        "tags": [c.get("mode", "fixed"), "class%d" % k, "model=spec" if same else "model!=spec"],
        "show": src_of(c).replace("\n", " "),
        "detail": src_of(c),
    }


def shrink(c):
    p = c["p"]

    def variants(b):
        for i in range(len(b)):
            yield b[:i] + b[i + 1:]
            s = b[i]
            bodies = {"block": [2], "if": [2, 3], "each": [3], "for": [5], "while": [2], "mixin": [2]}.get(s[0], [])
            for j in bodies:
                for nb in variants(s[j]):
                    yield b[:i] + [s[:j] + [nb] + s[j + 1:]] + b[i + 1:]
                yield b[:i] + s[j] + b[i + 1:]
    for q in variants(p):
        yield dict(c, p=q)


LEVEL_TEXT = ("proof: rule lemmas about the faithful model of Scope::set_variable and the scope creation of handle_item, for all "
              "states/programs (!global writes the root scope and nothing else; !default assigns iff undefined or null; @for "
              "variables and mixin parameters never reach the caller's scopes; @each variables are restored; a block never changes "
              "an enclosing local scope - which is the refuted clause F23); refuted witnesses for the three known classes; "
              "C16_main_partial_if: model = reference interpreter for every program without @each (rules, @media, @if/@else, @for, "
              "@while, mixins, all flags) whose reference run has no known-class event; the model is tied to rsass by exact correspondence on every generated program")
LEVEL_NOTE = ("trusted: Coq kernel+vm_compute, the harness, Spec/SassScope.v, the SCSS printer; the main equivalence is partial "
              "(programs containing @each are covered by correspondence + class-free agreement checks on every run, not by proof); "
              "known findings F23 (inner update), each/if leak, top-level @each alias")
TECHNIQUE = "Coq proof (invariants over two interpreters) + differential correspondence on generated SCSS programs"
