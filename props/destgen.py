"""Shared by C36/C21/C20 (and C07/C08 as a source of SCSS inputs): generator of
programs in the statement subset of coq/theories/Model/OutDest.v, their SCSS
text and their Coq terms.

stmt := ["d", name, value] | ["c", text] | ["r", sels, body] | ["ns", name, value|None, body]
      | ["m", query, body] | ["a", name, args|None, body|None] | ["ar", sels|None, body]
      | ["e", msg] | ["if", bool, then, else] | ["loop", n, body] | ["inc", idx, content|None] | ["content"]
sel  := ["p", t] | ["s", t] | ["u", t]
program := {"mixins": [body, ...], "main": body}
Every declaration / comment / bodyless at-rule carries a unique marker number."""
from common import cbytes, clist, cbool

PLAIN = ["a", "b", ".c", "#d", "e", "li", ".f"]
SUFFIX = [".x", ".y", ".z"]
AT = [("supports", "(a: b)"), ("foo", "bar"), ("foo", None), ("font-face", None), ("keyframes", "k"),
      ("page", None), ("-moz-document", "u"), ("layer", "l")]
MEDIA = ["print", "screen", "all"]


RICH = [" x *", "*", "*** x ***", " a/x ", "/ x", " #42: x ", " x! ", "  x  ", "\tx\t", " x *\n * b *", " ! x", "**", "* x",
        " x #", " * /x", "! x *", "!*", "!", " x\n\n * y /"]


class G:
    def __init__(self, rng, depth=4, p_error=0.03, comments=0.15, silent=False):
        self.rng = rng
        self.n = 0
        self.depth = depth
        self.p_error = p_error
        self.p_comment = comments
        self.nmix = 0
        self.silent = silent      # also sprinkle // comments and /*! comments (C36)
        self.loops = []           # enclosing loops whose variable is in scope: (id, n)
        self.nloop = 0

    def mark(self):
        self.n += 1
        return self.n

    def sels(self, has_parent):
        out = []
        for _ in range(self.rng.choice([1, 1, 1, 2])):
            k = self.rng.random()
            if has_parent and k < 0.2:
                out.append(["s", self.rng.choice(SUFFIX)])
            elif has_parent and k < 0.3:
                out.append(["u", self.rng.choice(PLAIN)])
            else:
                out.append(["p", self.rng.choice(PLAIN)])
        return out

    def comment(self):
        m = self.mark()
        k = self.rng.random()
        if k < 0.30:
            # texts over a richer alphabet: leading / trailing `#`, `*`, `/`, `!`, white space,
            # interpolation at the very start / end, a `#...` value right after the blank
            tag = f"c{m:03d}"
            j = self.rng.randrange(len(RICH) + 6)
            if j < len(RICH):
                return ["c", RICH[j].replace("x", tag)]
            j -= len(RICH)
            if j == 0:
                return ["c", f"a{m:03d} mid {tag}", f"#{{a{m:03d}}} mid #{{{tag}}}"]
            if j == 1:
                return ["c", f" #33{m:03d}9 is {tag} ", f' #{{"#33{m:03d}9"}} is {tag} ']
            if j == 2:
                return ["c", f"! {tag} *", f"! #{{{tag}}} *"]
            if j == 3:
                return ["c", f"  #{tag}: follow-up "]
            if j == 4:
                return ["c", f"\t#t{m:03d} {tag}\t", f"\t#{{'#t{m:03d}'}} {tag}\t"]
            return ["c", f" {tag} */".replace("*/", "* /") + "*"]
        if self.silent and k < 0.14:
            return ["c", f"! keep{m:03d} "]
        if self.silent and k < 0.28:
            # preserved comment WITH interpolation
            return ["c", f"! keep{m:03d} lib v{m:03d} (c) ", f"! keep{m:03d} lib #{{v{m:03d}}} (c) "]
        if self.silent and k < 0.36:
            # literal `#`, `#` directly before / after an interpolation
            j = self.rng.randrange(5)
            if j == 0:
                return ["c", f" c{m:03d} issue #12 a#b # "]
            if j == 1:
                return ["c", f" c{m:03d} #x{m:03d} ", f" c{m:03d} ##{{x{m:03d}}} "]
            if j == 2:
                return ["c", f"! keep{m:03d} ##x{m:03d} ", f"! keep{m:03d} ###{{x{m:03d}}} "]
            if j == 3:
                return ["c", f" c{m:03d} y{m:03d}# #", f" c{m:03d} #{{y{m:03d}}}# #"]
            return ["c", f" c{m:03d} #a-b# ", f" c{m:03d} ##{{a}}-#{{b}}# "]
        if k < 0.5:
            return ["c", f" c{m:03d} "]
        if k < 0.7:
            return ["c", f" c{m:03d}\n * more "]
        return ["c", f" c{m:03d} ", f" #{{c{m:03d}}} "]   # interpolated in the source

    def body(self, d, in_rule, has_parent, in_mixin=False, in_content=False, lo=0, hi=3):
        return [self.stmt(d, in_rule, has_parent, in_mixin, in_content) for _ in range(self.rng.randint(lo, hi))]

    def stmt(self, d, in_rule, has_parent, in_mixin=False, in_content=False):
        rng = self.rng
        k = rng.random()
        if k < self.p_error:
            if rng.random() < 0.35:
                return ["ce", f"{self.mark():03d}"]       # a loud comment whose interpolation calls a function that @errors
            return ["e", f"boom{self.mark():03d}"]
        k = rng.random()
        if k < self.p_comment:
            return self.comment()
        # inside a loop: statements that depend on the loop variable
        if self.loops and d > 0 and rng.random() < 0.35:
            L, n = rng.choice(self.loops)
            kk = rng.randrange(n)
            j = rng.random()
            if j < 0.35:
                then = [["e", f"boom{self.mark():03d}"]]
            elif j < 0.5 and self.nmix > 0:
                then = [["inc", rng.randrange(self.nmix), None]]
            else:
                then = self.body(d - 1, in_rule, has_parent, in_mixin, in_content, 0, 2)
            return ["ifv", L, kk, then, self.body(d - 1, in_rule, has_parent, in_mixin, in_content, 0, 2)]
        if self.loops and rng.random() < 0.06:
            L, n = rng.choice(self.loops)
            return ["cdfn", L, rng.randrange(n), f"{self.mark():03d}"]
        if self.loops and in_rule and rng.random() < 0.08:
            L, n = rng.choice(self.loops)
            m = self.mark()
            return ["dfn", L, rng.randrange(n), f"p{m:03d}", f"v{m:03d}"]
        k = rng.random()
        leafy = d <= 0
        if in_rule and (k < 0.3 or leafy):
            m = self.mark()
            return ["d", f"p{m:03d}", f"v{m:03d}"]
        if leafy:
            return self.comment()
        if k < 0.45:
            return ["r", self.sels(has_parent), self.body(d - 1, True, True, in_mixin, in_content, 0, 3)]
        if k < 0.53 and in_rule:
            m = self.mark()
            val = rng.choice([None, f"v{m:03d}"])
            return ["ns", f"n{m:03d}", val, self.body(d - 1, True, has_parent, in_mixin, in_content, 0, 3)]
        if k < 0.63:
            return ["m", rng.choice(MEDIA), self.body(d - 1, in_rule, has_parent, in_mixin, in_content, 0, 3)]
        if k < 0.75:
            name, args = rng.choice(AT)
            if rng.random() < 0.25:
                m = self.mark()
                return ["a", name, f"m{m:03d}", None]
            kf = name == "keyframes"
            return ["a", name, args, self.body(d - 1, in_rule and not kf, has_parent and not kf, in_mixin, in_content, 0, 3)]
        if k < 0.83:
            j = rng.random()
            if j < 0.4:
                return ["ar", None, self.body(d - 1, in_rule, has_parent, in_mixin, in_content, 0, 3)]
            return ["ar", self.sels(has_parent), self.body(d - 1, True, True, in_mixin, in_content, 0, 3)]
        if k < 0.88:
            c = rng.random() < 0.6
            return ["if", c, self.body(d - 1, in_rule, has_parent, in_mixin, in_content, 0, 2),
                    self.body(d - 1, in_rule, has_parent, in_mixin, in_content, 0, 2)]
        if k < 0.90:
            return ["loop", rng.choice([0, 1, 2, 2, 3]), self.body(d - 1, in_rule, has_parent, in_mixin, in_content, 0, 2)]
        if k < 0.935 and not in_mixin:
            # a loop whose body looks at the loop variable (@each / @for / @while)
            self.nloop += 1
            L, n = self.nloop, rng.choice([0, 1, 2, 3, 3])
            if n > 0:
                self.loops.append((L, n))
                b = self.body(d - 1, in_rule, has_parent, in_mixin, in_content, 1, 3)
                self.loops.pop()
            else:
                b = self.body(d - 1, in_rule, has_parent, in_mixin, in_content, 0, 2)
            return ["each", rng.choice(["each", "for", "while"]), L, n, b]
        if k < 0.975 and self.nmix > 0:
            idx = rng.randrange(self.nmix)
            content = None if rng.random() < 0.4 else self.body(d - 1, in_rule, False if not in_rule else has_parent,
                                                               in_mixin, True, 0, 2)
            return ["inc", idx, content]
        if in_mixin and not in_content:
            return ["content"]
        m = self.mark()
        return ["d", f"p{m:03d}", f"v{m:03d}"] if in_rule else self.comment()

    def program(self):
        rng = self.rng
        mixins = []
        for i in range(rng.choice([0, 1, 1, 2, 3])):
            # a mixin may be included at the top level or in a rule: keep selectors plain, declarations inside own rules
            mixins.append(self.body(self.depth - 2, rng.random() < 0.5, False, True, False, 1, 3))
            self.nmix = len(mixins)
        main = self.body(self.depth, False, False, False, False, 1, 4)
        return {"mixins": mixins, "main": main}


def gen_program(rng, **kw):
    return G(rng, **kw).program()


# ---------------------------------------------------------------------------
def sel_scss(s):
    return {"p": s[1], "s": "&" + s[1], "u": s[1] + " &"}[s[0]]


SILENT = None     # a random.Random: sprinkle `// silent` comments between statements (C36)


def body_scss(l, ind):
    out = ""
    for x in l:
        if SILENT is not None and SILENT.random() < 0.25:
            out += "  " * ind + f"// silent {SILENT.randrange(1000)} /* not loud */\n"
        out += stmt_scss(x, ind)
    if SILENT is not None and SILENT.random() < 0.15:
        out += "  " * ind + "// silent tail\n"
    return out


def stmt_scss(s, ind=0):
    p = "  " * ind
    t = s[0]
    if t == "d":
        return f"{p}{s[1]}: {s[2]};\n"
    if t == "c":
        return f"{p}/*{s[2] if len(s) > 2 else s[1]}*/\n"
    if t == "r":
        return f"{p}{', '.join(sel_scss(x) for x in s[1])} {{\n{body_scss(s[2], ind + 1)}{p}}}\n"
    if t == "ns":
        v = "" if s[2] is None else " " + s[2]
        return f"{p}{s[1]}:{v} {{\n{body_scss(s[3], ind + 1)}{p}}}\n"
    if t == "m":
        return f"{p}@media {s[1]} {{\n{body_scss(s[2], ind + 1)}{p}}}\n"
    if t == "a":
        a = "" if s[2] is None else " " + s[2]
        if s[3] is None:
            return f"{p}@{s[1]}{a};\n"
        return f"{p}@{s[1]}{a} {{\n{body_scss(s[3], ind + 1)}{p}}}\n"
    if t == "ar":
        a = "" if s[1] is None else " " + ", ".join(sel_scss(x) for x in s[1])
        return f"{p}@at-root{a} {{\n{body_scss(s[2], ind + 1)}{p}}}\n"
    if t == "e":
        return f'{p}@error "{s[1]}";\n'
    if t == "if":
        return (f"{p}@if {'true' if s[1] else 'false'} {{\n{body_scss(s[2], ind + 1)}{p}}} @else {{\n"
                f"{body_scss(s[3], ind + 1)}{p}}}\n")
    if t == "loop":
        items = " ".join("abcdefg"[i] for i in range(s[1])) or "()"
        return f"{p}@each $i in {items} {{\n{body_scss(s[2], ind + 1)}{p}}}\n"
    if t == "each":
        kind, L, n, b = s[1], s[2], s[3], s[4]
        inner = body_scss(b, ind + 1)
        if kind == "each":
            items = " ".join(f"i{j}" for j in range(n)) or "()"
            return f"{p}@each $v{L} in {items} {{\n{inner}{p}}}\n"
        if kind == "for":
            return f"{p}@for $v{L} from 0 to {n} {{\n{inner}{p}}}\n"
        return (f"{p}$v{L}: -1;\n{p}@while $v{L} < {n - 1} {{\n{p}  $v{L}: $v{L} + 1;\n{inner}{p}}}\n")
    if t == "ifv":
        return (f"{p}@if $v{s[1]} == {item_text(s[1], s[2])} {{\n{body_scss(s[3], ind + 1)}{p}}} @else {{\n"
                f"{body_scss(s[4], ind + 1)}{p}}}\n")
    if t == "dfn":
        return f"{p}{s[3]}: chk($v{s[1]}, {item_text(s[1], s[2])}, {s[4]});\n"
    if t == "cdfn":
        return f"{p}/* c{s[3]} #{{chk($v{s[1]}, {item_text(s[1], s[2])}, m{s[3]})}} */\n"
    if t == "ce":
        return f"{p}/* c{s[1]} #{{boom(m{s[1]})}} */\n"
    if t == "inc":
        if s[2] is None:
            return f"{p}@include m{s[1]};\n"
        return f"{p}@include m{s[1]} {{\n{body_scss(s[2], ind + 1)}{p}}}\n"
    if t == "content":
        return f"{p}@content;\n"
    raise ValueError(s)


LOOP_KIND = {}     # loop id -> kind, filled while printing (items are names for @each, numbers otherwise)


def item_text(L, k):
    return f"i{k}" if LOOP_KIND.get(L, "each") == "each" else str(k)


def collect_kinds(l):
    for s in l:
        if s[0] == "each":
            LOOP_KIND[s[2]] = s[1]
        for x in s[1:]:
            if isinstance(x, list) and x and isinstance(x[0], list):
                collect_kinds(x)


def uses(l, tag):
    for s in l:
        if s[0] == tag:
            return True
        for x in s[1:]:
            if isinstance(x, list) and x and isinstance(x[0], list) and uses(x, tag):
                return True
    return False


CHK = '@function chk($x, $bad, $m) {\n  @if $x == $bad {\n    @error "boom#{$m}";\n  }\n  @return $m;\n}\n'


BOOM = '@function boom($m) {\n  @error "boom#{$m}";\n  @return $m;\n}\n'


def program_scss(pr):
    LOOP_KIND.clear()
    collect_kinds(pr["main"])
    for b in pr["mixins"]:
        collect_kinds(b)
    def used(tag):
        return uses(pr["main"], tag) or any(uses(b, tag) for b in pr["mixins"])
    out = CHK if (used("dfn") or used("cdfn")) else ""
    if used("ce"):
        out += BOOM
    for i, b in enumerate(pr["mixins"]):
        out += f"@mixin m{i} {{\n{body_scss(b, 1)}}}\n"
    return out + body_scss(pr["main"], 0)


def gen_scss(rng):
    return program_scss(gen_program(rng))


# ---------------------------------------------------------------------------
def sel_coq(s):
    return {"p": "SPlain", "s": "SSuffix", "u": "SUnder"}[s[0]] + " " + cbytes(s[1])


ENV = {}      # loop id -> current iteration (None while printing the body check_body sees)


def body_coq(l):
    return clist([stmt_coq(x) for x in l])


def opt(x, f):
    return "None" if x is None else f"(Some {f(x)})"


def stmt_coq(s):
    t = s[0]
    if t == "d":
        return f"(SDecl {cbytes(s[1])} {cbytes(s[2])})"
    if t == "c":
        return f"(SComment {cbytes(s[1])})"
    if t == "r":
        return f"(SRule {clist([sel_coq(x) for x in s[1]])} {body_coq(s[2])})"
    if t == "ns":
        return f"(SNs {cbytes(s[1])} {opt(s[2], cbytes)} {body_coq(s[3])})"
    if t == "m":
        return f"(SMedia {cbytes(s[1])} {body_coq(s[2])})"
    if t == "a":
        return f"(SAtR {cbytes(s[1])} {opt(s[2], cbytes)} {opt(s[3], body_coq)})"
    if t == "ar":
        return f"(SAtRoot {opt(s[1], lambda l: clist([sel_coq(x) for x in l]))} {body_coq(s[2])})"
    if t == "e":
        return f"(SError {cbytes(s[1])})"
    if t == "if":
        return f"(SIf {cbool(s[1])} {body_coq(s[2])} {body_coq(s[3])})"
    if t == "loop":
        return f"(SLoop {s[1]} {body_coq(s[2])})"
    if t == "each":
        L, n, b = s[2], s[3], s[4]
        ENV[L] = None
        proto = body_coq(b)
        bodies = []
        for j in range(n):
            ENV[L] = j
            bodies.append(body_coq(b))
        del ENV[L]
        return f"(SEach {proto} {clist(bodies)})"
    if t == "ifv":
        return f"(SIf {cbool(ENV.get(s[1]) == s[2])} {body_coq(s[3])} {body_coq(s[4])})"
    if t == "dfn":
        if ENV.get(s[1]) == s[2]:
            return f"(SError {cbytes('boom' + s[4])})"
        return f"(SDecl {cbytes(s[3])} {cbytes(s[4])})"
    if t == "cdfn":
        if ENV.get(s[1]) == s[2]:
            return f"(SError {cbytes('boomm' + s[3])})"
        return f"(SComment {cbytes(' c' + s[3] + ' m' + s[3] + ' ')})"
    if t == "ce":
        return f"(SError {cbytes('boomm' + s[1])})"
    if t == "inc":
        return f"(SInclude {s[1]} {opt(s[2], body_coq)})"
    if t == "content":
        return "SContent"
    raise ValueError(s)


def program_coq(pr):
    return f"(mkProg {clist([body_coq(b) for b in pr['mixins']])} {body_coq(pr['main'])})"


ERR_KINDS = [("This at-rule is not allowed here", 1), ("Declarations may only be used within style rules", 2),
             ("Only properties are valid inside namespace rules", 3), ("Global namespaced property not allowed", 4),
             ("boom", 5), ("Undefined mixin", 6)]


def err_kind(msg):
    """Coarse class of an rsass error message (0 = something else)."""
    for text, k in ERR_KINDS:
        if text in msg:
            return k
    return 0


def impl_coq(o):
    """(tag, fields) of one compile -> Coq `iout`."""
    tag, f = o
    if tag == "ok":
        return f"(IOk {cbytes(f[0])})"
    if tag == "err":
        return f"(IErr {err_kind(f[0].decode('utf-8', 'replace'))} {cbytes(f[0])})"
    return "ICrash"


def shrink_program(pr):
    """Smaller programs: drop one statement anywhere, or replace a block by its body."""
    def variants(l):
        for i in range(len(l)):
            yield l[:i] + l[i + 1:]
        for i, s in enumerate(l):
            subs = []
            if s[0] in ("r", "m", "ar"):
                subs = [2]
            elif s[0] in ("ns",) or (s[0] == "a" and s[3] is not None):
                subs = [3]
            elif s[0] == "if":
                subs = [2, 3]
            elif s[0] == "loop":
                subs = [2]
            elif s[0] == "inc" and s[2] is not None:
                subs = [2]
            elif s[0] == "each":
                subs = [4]
            elif s[0] == "ifv":
                subs = [3, 4]
            for j in subs:
                for v in variants(s[j]):
                    s2 = list(s)
                    s2[j] = v
                    yield l[:i] + [s2] + l[i + 1:]
    for v in variants(pr["main"]):
        yield {"mixins": pr["mixins"], "main": v}
    for k, mb in enumerate(pr["mixins"]):
        for v in variants(mb):
            ms = list(pr["mixins"])
            ms[k] = v
            yield {"mixins": ms, "main": pr["main"]}


# ---------------------------------------------------------------------------
# C20: rule trees mixing declarations, nested rules, bubbling at-rules, @at-root, @keyframes
C20_AT = [("supports", "(a: b)"), ("foo", "bar"), ("foo", None), ("-moz-document", "u"), ("layer", "l")]


class G20:
    def __init__(self, rng, depth=4, order_safe=False):
        self.rng, self.n, self.depth, self.order_safe = rng, 0, depth, order_safe
        self.g = G(rng)

    def decl(self):
        self.n += 1
        return ["d", f"p{self.n:03d}", f"v{self.n:03d}"]

    def body(self, d, has_sel, has_parent):
        rng = self.rng
        out = []
        k = rng.randint(1, 4)
        seen_block = False
        for _ in range(k):
            s = self.stmt(d, has_sel, has_parent, allow_decl=not (self.order_safe and seen_block))
            if s[0] != "d":
                seen_block = True
            out.append(s)
        return out

    def stmt(self, d, has_sel, has_parent, allow_decl=True):
        rng = self.rng
        k = rng.random()
        if d <= 0 or (has_sel and allow_decl and k < 0.4):
            if has_sel and allow_decl:
                return self.decl()
            return ["r", self.g.sels(has_parent), [self.decl()]]
        if k < 0.6:
            return ["r", self.g.sels(has_parent), self.body(d - 1, True, True)]
        if k < 0.72:
            return ["m", rng.choice(MEDIA), self.body(d - 1, has_sel, has_parent)]
        if k < 0.84:
            name, args = rng.choice(C20_AT)
            return ["a", name, args, self.body(d - 1, has_sel, has_parent)]
        if k < 0.9:
            kf = [["r", [["p", rng.choice(["from", "to", "50%"])]], [self.decl()]] for _ in range(rng.randint(1, 2))]
            return ["a", "keyframes", rng.choice(["k", "spin"]), kf]
        if k < 0.95:
            inner = []
            for _ in range(rng.randint(1, 3)):
                if has_parent and rng.random() < 0.5:
                    # `@at-root &.x` / `@at-root b &` directly inside a selector-less @at-root
                    amp = [rng.choice([["s", rng.choice(SUFFIX)], ["u", rng.choice(PLAIN)]])]
                    if rng.random() < 0.3:
                        amp.append(["p", rng.choice(PLAIN)])
                        rng.shuffle(amp)
                    inner.append(["ar", amp, self.body(d - 1, True, True)])
                else:
                    inner.append(["r", self.g.sels(has_parent), self.body(d - 1, True, True)])
            return ["ar", None, inner]
        return ["ar", self.g.sels(has_parent), self.body(d - 1, True, True)]

    def program(self):
        return {"mixins": [], "main": [self.stmt(self.depth, False, False) for _ in range(self.rng.randint(1, 3))]}


def gen_c20(rng, **kw):
    return G20(rng, **kw).program()
