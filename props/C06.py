"""C06 - unique-id() is unique and random() stays in range."""
import re, struct, resource
from common import *

# the case terms hold up to 10^5 identifiers per thread: give the coqc children a deep stack
try:
    resource.setrlimit(resource.RLIMIT_STACK, (min(1 << 30, resource.getrlimit(resource.RLIMIT_STACK)[1])
                                               if resource.getrlimit(resource.RLIMIT_STACK)[1] != resource.RLIM_INFINITY
                                               else 1 << 30, resource.getrlimit(resource.RLIMIT_STACK)[1]))
except (ValueError, OSError):
    pass

ID = "C06"
GEN = ["Consts"]
THEOREMS = ["C06_shapes", "C06_format_injective", "C06_unique", "C06_unique_pid", "C06_unique_per_thread",
            "C06_fine_refines", "C06_unique_fine", "C06_ident", "C06_counter_interval",
            "C06_random_unit", "C06_random_limit", "C06_random_limit_rejects", "C06_random_out_exact"]
COQ_HEADER = ("From Coq Require Import String List ZArith NArith Uint63.\nFrom RV Require Import Run.C06.\n"
              "Import ListNotations.\nLocal Open Scope string_scope.")
RUN_EXPR = "Run.C06.run"
RULE = ("unique-id(): (threads, calls) grids through compile_value on N OS threads (uniqueid command) and through "
        "stylesheets compiled concurrently (threads command); every returned id is checked (distinct, identifier syntax, "
        "and the per-thread sequences must be explained by ONE schedule of the counter model = contiguous interval); "
        "random(): repeated draws; random(limit): limits {1,2,3,10,2^31,2^53-1,2^53} + random integers 1..2^53 + invalid "
        "limits (0, negatives, fractions, huge); distinct = distinct request; non-trivial = more than one call / a limit")
EXHAUSTIVE = {"quick": False, "thorough": False}
TRUSTED = ["Spec/CssIdent.v: CSS Syntax 3 identifier grammar (without escapes)",
           "std::sync::Mutex gives mutual exclusion (fine model: a thread scheduled while another holds the lock does not move)",
           "fastrand::i64(range) returns a value in the range, fastrand::f64() a value in [0,1) (Section variables rng_i64 / rng_f64 with these hypotheses)",
           "format!(\"{v:x}\") prints the lower-case hexadecimal digits without leading zeros (Model/Conc.v fmt_radix)",
           "real OS schedules are only sampled; the theorems cover every schedule of the model"]
ASSUMPTIONS = ["no wrap-around: initial counter + number of calls < 2^64 (explicit hypothesis; pid*0xa01 < 2^44)",
               "random($limit) is judged for integer limits 1..2^53 (rsass also accepts limits within 2^-23 of an integer)"]
TIMEOUT_PER_CASE = 120.0
SHARD = 8


def bits(x):
    return struct.unpack(">Q", struct.pack(">d", float(x)))[0]


FIXED_LIMITS = ["1", "2", "3", "10", "2147483648", "9007199254740991", "9007199254740992"]
BAD_LIMITS = ["0", "-1", "-5", "0.5", "1.5", "2.25", "-0.5", "1e300", "-1e300", "10000000000000000000000", "0.999"]


def gen_cases(ctx, tier):
    rng = ctx.rng
    if tier == "quick":
        big = [(4, 1500), (16, 400), (8, 700), (2, 2500), (16, 250), (3, 1500)]
        grid = [(1, 1), (1, 50), (2, 1000), (3, 7), (16, 100), (5, 333)]
        extra, draws, nlim = 6, 60, 120
    else:
        big = [(4, 2500), (16, 625), (8, 1250), (2, 5000), (16, 2500), (16, 6250), (12, 5000), (1, 20000),
               (16, 1250), (3, 10000), (8, 2500), (16, 3000)]
        grid = [(1, 1), (1, 50), (2, 1000), (3, 7), (16, 100), (5, 333)]
        extra, draws, nlim = 30, 400, 1500
    cases = []
    for (n, k) in grid:
        cases.append({"kind": "uid", "threads": n, "calls": k})
    for _ in range(extra):
        cases.append({"kind": "uid", "threads": rng.randint(1, 16), "calls": rng.randint(1, 300)})
    for i in range(extra + 4):
        cases.append({"kind": "sheet", "threads": rng.randint(1, 16), "sheets": rng.randint(1, 12),
                      "k": rng.randint(1, 9), "style": rng.choice(["expanded", "compressed"])})
    for i in range(draws):
        cases.append({"kind": "unit", "i": i, "form": rng.choice(["random()", "random(null)", "random($limit: null)"])})
    for l in FIXED_LIMITS:
        for i in range(12 if l in ("1", "2", "3") else 3):
            cases.append({"kind": "limit", "limit": l, "i": i})
    for l in BAD_LIMITS:
        cases.append({"kind": "limit", "limit": l, "i": 0})
    for i in range(nlim):
        e = rng.randint(0, 53)
        v = rng.randint(1, 2 ** e)
        u = rng.choice(["", "", "", "px", "%"])
        cases.append({"kind": "limit", "limit": str(v) + u, "i": i})
    rng.shuffle(cases)
    # the big runs are spread out so that they land in different coqc shards
    step = max(SHARD + 1, len(cases) // (len(big) + 1))
    for j, (n, k) in enumerate(big):
        cases.insert(min(len(cases), j * step), {"kind": "uid", "threads": n, "calls": k})
    return cases


def search_cases(ctx, broken):
    rng = ctx.rng
    cases = [{"kind": "uid", "threads": n, "calls": k} for n in (1, 2, 16) for k in (2, 300, 5000)]
    cases += [{"kind": "limit", "limit": l, "i": 100 + i} for l in ("1", "2", "3") for i in range(60)]
    cases += [{"kind": "unit", "i": 1000 + i, "form": "random()"} for i in range(200)]
    return cases


def sheet_srcs(c):
    srcs = []
    for j in range(c["sheets"]):
        decls = ";".join(f"p{i}:unique-id()" for i in range(c["k"]))
        srcs.append("a{%s}" % decls)
    return srcs


def impl_requests(c):
    if c["kind"] == "uid":
        return [("uniqueid", str(c["threads"]), str(c["calls"]))]
    if c["kind"] == "sheet":
        return [("threads", str(c["threads"]), c["style"], "10") + tuple(sheet_srcs(c))]
    if c["kind"] == "unit":
        return [("evalv", c["form"])]
    return [("evalv", f"random({c['limit']})"), ("evalv", c["limit"])]


def printable(b):
    return all(32 <= x < 127 and x != 34 for x in b)


def coq_term(c, io):
    tag, f = io[0]
    if c["kind"] in ("uid", "sheet"):
        if tag != "ok":
            return "OUidBad"
        if c["kind"] == "uid":
            texts, calls = f, c["calls"]
            if len(texts) != c["threads"]:
                return "OUidBad"
        else:
            m = c["sheets"]
            calls = m * c["k"]
            if len(f) != c["threads"] * m:
                return "OUidBad"
            texts = []
            for t in range(c["threads"]):
                ids = []
                for out in f[t * m:(t + 1) * m]:
                    if not out.startswith(b"ok:"):
                        return "OUidBad"
                    ids += re.findall(rb"p\d+: ?([^;}\n]*)", out)
                texts.append(b" ".join(ids))
        if any(b"ERR" in t or b"PANIC" in t for t in texts):
            return "OUidBad"
        def chunks(t):
            t = t + b" " * (-len(t) % 7)
            ws = [str(int.from_bytes(t[i:i + 7], "big")) for i in range(0, len(t), 7)]
            return clist(["[" + ";".join(ws[i:i + 100]) + "]%uint63" for i in range(0, len(ws), 100)])
        return f"(OUid {cn(calls)} {clist([chunks(t) for t in texts])})"
    if c["kind"] == "unit":
        if tag == "ok" and f[0] == b"num" and f[2] == b"":
            return f"(OUnit (Some {cz(int(f[1]))}))"
        return "(OUnit None)"
    # limit
    t2, f2 = io[1]
    if t2 != "ok" or f2[0] != b"num":
        return None
    lb = int(f2[1])
    if tag == "ok" and f[0] == b"num" and f[2] == b"":
        return f"(OLimit {cz(lb)} (inl {cz(int(f[1]))}))"
    if tag == "err":
        msg = f[0]
        k = 0 if b"is not an int" in msg else 1 if b"Must be greater than" in msg else 2
        return f"(OLimit {cz(lb)} (inr {cz(k)}))"
    return f"(OLimit {cz(lb)} (inr {cz(2)}))"


def judge(c, io, r):
    if r is None:
        return {"corr": None, "clauses": [], "nontrivial": False, "tags": ["untransported"], "show": str(c)}
    corr, distinct, ident, rng_ok, count = r
    return {
        "corr": None if corr == 2 else (corr == 1),
        "clauses": [("distinct", distinct == 1, None), ("identifier", ident == 1, None), ("range", rng_ok == 1, None)],
        "nontrivial": c["kind"] == "limit" or (c["kind"] in ("uid", "sheet") and count > 1) or c["kind"] == "unit",
        "tags": [c["kind"]] + ([f"ids:{count}"] if count else []),
        "show": (f"unique-id() x {c.get('calls', c.get('k'))} on {c['threads']} threads ({c['kind']})"
                 if c["kind"] in ("uid", "sheet") else c.get("form") or f"random({c['limit']})"),
    }


def shrink(c):
    # few candidates per round: every candidate is a fresh multi-threaded run
    if c["kind"] == "uid":
        if c["threads"] > 2:
            yield dict(c, threads=2)
        if c["calls"] > 1:
            yield dict(c, calls=max(1, c["calls"] // 4))
    if c["kind"] == "sheet":
        for key in ("threads", "sheets", "k"):
            if c[key] > 1:
                yield dict(c, **{key: max(1, c[key] // 2)})


LEVEL_TEXT = ("proof: for EVERY schedule (list of thread ids, any number of threads and calls) of the Mutex-protected "
              "counter model the returned identifiers are pairwise distinct under the explicit no-wrap condition "
              "(induction over the schedule; the printed form is injective via a proved left inverse), also for the finer "
              "model with separate acquire/increment/read/unlock steps (refinement to the atomic model by induction); every "
              "id is a CSS identifier; random(limit) is an integer in [1,limit] and exactly representable under the stated "
              "rng contract. The constants (multiplier, increment, prefix, radix, range bounds, offset, comparison) are "
              "regenerated from the source on every run; the implementation's ids must be explained by one schedule of the model")
LEVEL_NOTE = ("trusted: Coq kernel+vm_compute, Flocq binary64, gen/gens/Consts.py, the harness, Spec/CssIdent.v, the Mutex and "
              "fastrand contracts; real schedules are sampled (up to 16 threads), not enumerated")
TECHNIQUE = "Coq proof (induction over schedules, refinement, injectivity by left inverse) + translator + differential correspondence"
