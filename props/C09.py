"""C09 - rsass's own CSS output reads back as the same stylesheet."""
from common import *

ID = "C09"
GEN = []
THEOREMS = ["C09_strings_roundtrip", "C09_strings_value_roundtrip", "C09_reader_inverts_display", "C09_escaped_quote_reads_back"]
COQ_HEADER = ("From Coq Require Import List NArith ZArith.\nFrom RV Require Import Run.C09.\n"
              "Import ListNotations.\nLocal Open Scope N_scope.")
RUN_EXPR = "Run.C09.run"
RULE = ("(1) generated stylesheets in the construct subset of the statement (type/class/id/attribute/pseudo selectors with "
        "combinators; declarations of identifiers, numbers with units, hex colours, quoted strings over ASCII, Latin-1, CJK, "
        "astral, private-use and escape-looking text, unquoted tokens / url() / call arguments containing `#`, identifiers with hex "
        "escapes around U+0080 / U+00A0 / U+00A1, url(), simple calls; @media, @supports, @font-face, @keyframes, comments): "
        "compile, read the expanded output back as plain CSS, compare up to blank lines (computed in Coq); (2) string probes: "
        "raw text between quotes read as plain CSS, model of reader+Display == rsass. distinct = distinct source text; "
        "non-trivial = the first compile succeeded with non-empty output")
EXHAUSTIVE = {"quick": False, "thorough": False}
TRUSTED = ["Model/CssRead.v (quoted-string reader and Display of quoted strings incl. the hex-escape terminator of rsass 71d4ea9) "
           "is tied to rsass by the string probes; Model/CssStr.v (shared with C27) supplies only the datatypes, is_private_use and pref_dquotes"]
ASSUMPTIONS = ["the plain-CSS reader as a whole (about 900 lines of nom) is not modelled: the stylesheet-level round trip is "
               "decided on explored inputs only"]
SHARD = 150
TIMEOUT_PER_CASE = 20.0

IDENT = ["a", "b", "solid", "x-y", "foo", "é", "漢字", "_u", "B2"]
UNITS = ["px", "em", "%", "", "rem", "deg", "s"]
STR_CHARS = ["a", "b", " ", "é", "ü", "漢", "😀", "\ue000", "\\", "\\\\", "\\a ", "\\41 ", "'", "-", "/", "{", "}", ";", "#", "&", "*/", "\t"]
SELS = ["a", "b", ".c", "#d", "e.f", "*", "li", "a:hover", "a::before", "p:not(.x)", "li:nth-child(2n+1)",
        "[x]", "[x=y]", '[x="y z"]', "[x~=y]", "a[href^='h']", ".é", "input:checked"]
COMB = [" ", " > ", " + ", " ~ "]


def gen_string(rng, allow_quote):
    n = rng.randint(0, 5)
    parts = [rng.choice(STR_CHARS) for _ in range(n)]
    if allow_quote and rng.random() < 0.15:
        parts.insert(rng.randint(0, len(parts)), rng.choice(['\\"', "\\'"]))
    s = "".join(parts)
    q = rng.choice(['"', "'"])
    if q in s.replace("\\" + q, ""):
        q = '"' if q == "'" else "'"
        if q in s.replace("\\" + q, ""):
            s = s.replace('"', "").replace("'", "")
    return q + s + q


def gen_number(rng):
    k = rng.random()
    if k < 0.4:
        v = str(rng.randint(0, 300))
    elif k < 0.8:
        v = f"{rng.randint(0, 20)}.{rng.randint(1, 99)}"
    else:
        v = "-" + str(rng.randint(1, 50))
    return v + rng.choice(UNITS)


HASHY = ["url(sprites#home)", "url(sprite.svg#home)", "url(#gradient)", "a#b", "x#y", "foo(x#y, 2)", "f(a#b)", "icons#iefix",
         "url(a#b#c)", "u-1#v_2"]
# escapes in identifiers around the 0x80 / 0xa0 / 0xa1 boundary (hex escape, then a space ends it)
ESCY = ["main\\a0 area", "fade\\a0 in", "\\a0 x", "x\\a0 ", "x\\9f y", "x\\80 y", "x\\7f y", "x\\20 y", "x\\ff y",
        "x\\c0 y", "x\\aa y", "x\\b5 y", "x\\ba y", "a\\a0 b\\a0 c"]
# Latin-1 symbols that are not letters: printed raw, not read back (known class)
ESC_BAD = ["x\\a1 y", "\\a1 x", "x\\bf y", "x\\d7 y", "x\\a9 y"]


def gen_atom(rng, allow_quote=True):
    k = rng.random()
    if k < 0.07:
        return rng.choice(HASHY)
    if k < 0.14:
        return rng.choice(ESCY)
    if k < 0.155:
        return rng.choice(ESC_BAD)
    k = rng.random()
    if k < 0.25:
        return rng.choice(IDENT)
    if k < 0.5:
        return gen_number(rng)
    if k < 0.62:
        return "#" + "".join(rng.choice("0123456789abcdef") for _ in range(rng.choice([3, 6])))
    if k < 0.8:
        return gen_string(rng, allow_quote)
    if k < 0.88:
        return rng.choice(["url(x.png)", 'url("a b.png")', "url(http://e.org/a?b=c)"])
    f = rng.choice(["translate", "foo", "rotate", "min"])
    return f + "(" + ", ".join(gen_number(rng) for _ in range(rng.randint(1, 3))) + ")"


def gen_value(rng):
    k = rng.random()
    if k < 0.5:
        return gen_atom(rng)
    sep = rng.choice([" ", ", "])
    return sep.join(gen_atom(rng) for _ in range(rng.randint(2, 3)))


def gen_sel(rng):
    s = rng.choice(SELS)
    for _ in range(rng.choice([0, 0, 1, 2])):
        s += rng.choice(COMB) + rng.choice(SELS)
    return s


# comment texts over a rich alphabet (leading / trailing `*`, `#`, `/`, `!`, white space); no `#{` (the first pass is SCSS)
CTEXT = [" c x ", " x *", "*", "*** banner ***", "* doc x", " a/x ", "/ x", " #42: x ", " x! ", "  x  ", "\tx\t", " x *\n   * b *",
         " ! x", "**", " x #", " * /x", "! keep x *", "!*", "!", " é x ", "****", " x ***"]


def gen_comment(rng):
    return "/*" + rng.choice(CTEXT).replace("x", rng.choice(IDENT)) + "*/"


def gen_rule(rng, ind=""):
    sels = ", ".join(gen_sel(rng) for _ in range(rng.choice([1, 1, 2])))
    body = ""
    for _ in range(rng.randint(1, 4)):
        if rng.random() < 0.12:
            body += f"{ind}  {gen_comment(rng)}\n"
        else:
            body += f"{ind}  {rng.choice(['color', 'margin', 'x', 'font-family', '-w-y'])}: {gen_value(rng)};\n"
    return f"{ind}{sels} {{\n{body}{ind}}}\n"


def gen_sheet(rng):
    out = ""
    for _ in range(rng.randint(1, 4)):
        k = rng.random()
        if k < 0.55:
            out += gen_rule(rng)
        elif k < 0.65:
            out += gen_comment(rng) + "\n"
        elif k < 0.78:
            q = rng.choice(["print", "screen and (min-width: 10px)", "(max-width: 100px)", "not print", "screen, print"])
            out += f"@media {q} {{\n" + "".join(gen_rule(rng, "  ") for _ in range(rng.randint(1, 2))) + "}\n"
        elif k < 0.86:
            out += "@supports (display: grid) {\n" + gen_rule(rng, "  ") + "}\n"
        elif k < 0.93:
            out += f"@font-face {{\n  font-family: {gen_string(rng, False)};\n  src: url(x.woff);\n}}\n"
        else:
            out += "@keyframes k {\n  from {\n    x: " + gen_number(rng) + ";\n  }\n  to {\n    x: " + gen_number(rng) + ";\n  }\n}\n"
    return out


PROBE_CHARS = ["a", "b", " ", "é", "漢", "😀", "\ue000", "\\", "\\\\", "\\a ", "\\41", "-", "{", "/*", "\t", "'", '"']


def gen_probe(rng):
    dq = rng.random() < 0.6
    q = '"' if dq else "'"
    s = "".join(rng.choice(PROBE_CHARS) for _ in range(rng.randint(0, 6)))
    if rng.random() < 0.85:
        s = s.replace(q, "")
    return {"kind": "probe", "raw": s, "dq": dq, "src": "a{b:" + q + s + q + "}"}


def gen_cases(ctx, tier):
    rng = ctx.rng
    cases = [{"kind": "sheet", "src": 'a{b:"x\\"y"}'}, {"kind": "sheet", "src": "a{b:'it\\'s'}"},
             {"kind": "sheet", "src": "a{b:\"é\" 1px #abc url(x.png) foo(1, 2)}"},
             {"kind": "sheet", "src": ".icon{background:url(sprites#home) no-repeat;mask:url(sprite.svg#home);fill:url(#gradient);c:a#b foo(x#y, 2)}"},
             {"kind": "sheet", "src": ".nbsp{grid-area:main\\a0 area;animation-name:fade\\a0 in, plain}@keyframes k{from{counter-reset:x\\a0 y 1}}"},
             {"kind": "sheet", "src": "a{b:x\\9f y x\\80 y \\a0 z x\\ff y}"},
             {"kind": "sheet", "src": "a{b:x\\a1 y}"},
             {"kind": "sheet", "src": "/* plain */\n/** doc, stars at the start */\na{color:red}\n@media screen{.box{/* section end **/width:10px}}\n/***/\n/**** banner ****/"},
             {"kind": "probe", "raw": "a\\\"b'c", "dq": True, "src": 'a{b:"a\\"b\'c"}'},
             {"kind": "sheet", "src": 'a{b:"a\\"b\'c" "t\\\\"}'}, {"kind": "sheet", "src": 'a{b:"\ue000a" "\ue000 x" "\ue000z"}'}]
    n = 700 if tier == "quick" else 7000
    for _ in range(n):
        cases.append({"kind": "sheet", "src": gen_sheet(rng)})
    for _ in range(400 if tier == "quick" else 4000):
        cases.append(gen_probe(rng))
    return cases


def prepare(ctx):
    pass


def impl_requests(c):
    # second stage depends on the first: done in two rounds inside coq_term
    if c["kind"] == "probe":
        return [("css", "expanded", "10", c["src"])]
    return [("scss", "expanded", "10", c["src"])]


def out_coq(o):
    tag, f = o
    if tag == "ok":
        return f"(IOk {cbytes(f[0])})"
    if tag == "err":
        return f"(IErr {cbytes(f[0])})"
    return "ICrash"


def coq_term(c, io):
    if c["kind"] == "probe":
        c["_o1"] = io[0]
        return (f"(mkCase {cbytes(c['src'])} ICrash ICrash (Some ({ccps(c['raw'])}, {cbool(c['dq'])}, {out_coq(io[0])})))")
    o1 = io[0]
    if o1[0] == "ok":
        o2 = run_impl([("css", "expanded", "10", o1[1][0])])[0]
    else:
        o2 = ("err", [b"not compiled"])
    c["_o2"] = (o2[0], [f.decode("utf-8", "replace") for f in o2[1]])
    return f"(mkCase {cbytes(c['src'])} {out_coq(o1)} {out_coq(o2)} None)"


K2 = "known_C09_latin1_symbol_in_identifier"
K3 = "known_C09_control_escape_respaced"


def judge(c, io, r):
    corr, p1, k2, k3 = r
    return {"corr": None if corr == 2 else corr == 1,
            "clauses": [] if c["kind"] == "probe" else [("reads-back-the-same", p1 == 1, K2 if k2 else (K3 if k3 else None))],
            "nontrivial": c["kind"] == "probe" or (io[0][0] == "ok" and bool(io[0][1][0])),
            "tags": [c["kind"], io[0][0]],
            "show": c["src"][:200], "detail": {"src": c["src"], "second": c.get("_o2")}, "key": c["src"]}


LEVEL_TEXT = ("proof (partial): for ALL code-point lists without backslash and private-use characters - the string's own quote "
              "character included - in either quoting, Display of a quoted CssString followed by the plain-CSS quoted-string reader "
              "(rsass 4637bd2) and Display again gives the same text, the reader consumes exactly the string, also through the value "
              "parser's pref_dquotes; the reader/Display models are tied to rsass by string probes, and the stylesheet-level round trip "
              "is decided in Coq on generated stylesheets of the construct subset")
LEVEL_NOTE = ("partial: only the quoted-string leaf is proved (escapes other than the escaped quote are outside the reader model); "
              "selectors, numbers, url() and at-rules are explored")
TECHNIQUE = "Coq proof (induction over code-point lists) + differential correspondence + round-trip exploration"
