"""C18 - Functions, mixins and content blocks bind arguments correctly."""
import re
from common import *
from C17 import v_src, v_coq

ID = "C18"
GEN = []
THEOREMS = ["C18_bind", "C18_refuted_only_named",
            "C18_duplicate", "C18_positional", "C18_too_many", "C18_unknown_named", "C18_missing", "C18_dash_underscore",
            "C18_first_return"]
COQ_HEADER = ("From Coq Require Import String List ZArith NArith.\n"
              "From RV Require Import Model.EvValue Model.EvArgs Run.C18.\n"
              "Import ListNotations.\nLocal Open Scope string_scope.")
RUN_EXPR = "Run.C18.run"
RULE = ("signatures with 0..4 parameters (names with -/_ variants, defaults that are literals, earlier/later parameters or a global), "
        "optional rest parameter x calls with 0..5 positional arguments, named arguments (known, unknown, -/_ swapped, the rest "
        "parameter's name), list splat (comma/space list, single value, null), a re-splatted argument list captured by a forwarding "
        "mixin (positional values + keywords, also colliding with explicit keywords) and map splat; a `later-default` family (a default "
        "naming a LATER parameter that is also a global or undefined, the later one passed by name; through mixins and functions); plus function bodies with nested @if "
        "and @return; distinct = distinct source; non-trivial = always (a binding or an error is expected)")
EXHAUSTIVE = {"quick": False, "thorough": False}
TRUSTED = ["Spec/SassArgs.v: reference binder written from the property text",
           "Model/EvValue.v inspect printer (reads the implementation's inspect() text)",
           "python printer of signatures / calls to SCSS (probe mixin printing every parameter, the rest list and keywords())"]
ASSUMPTIONS = ["argument values are atoms and space lists (evaluation of the argument expressions themselves is not part of the model)",
               "closures (lexical scope of mixin bodies) are covered by C16's model; @content/using is not modelled (not claimed)",
               "error kinds are not compared, only error presence"]

NAMES = ["a", "b", "c", "d", "x-y", "w_z"]
RESTS = ["r", "rest"]


def swap(n):
    return n.replace("-", "~").replace("_", "-").replace("~", "_")


def gen_atom(rng):
    r = rng.random()
    if r < 0.5:
        return ["int", rng.randrange(0, 30)]
    if r < 0.85:
        return ["id", rng.choice(["e1", "e2", "e3", "f4"])]
    return ["list", [["int", rng.randrange(0, 9)], ["id", rng.choice(["e1", "e2"])]], "space", False]


def gen_sig(rng):
    n = rng.choice([0, 1, 1, 2, 2, 2, 3, 3, 4])
    names = rng.sample(NAMES, n)
    params = []
    for i, nm in enumerate(names):
        r = rng.random()
        if r < 0.5:
            d = None
        elif r < 0.75:
            d = ["lit", gen_atom(rng)]
        elif r < 0.9 and i > 0:
            d = ["ref", rng.choice(names[:i]) if rng.random() < 0.7 else swap(rng.choice(names[:i]))]
        elif r < 0.95:
            d = ["ref", "g"]
        else:
            d = ["ref", rng.choice(names)]            # possibly itself / a later parameter
        params.append([nm, d])
    rest = rng.choice(RESTS) if rng.random() < 0.4 else None
    return {"params": params, "rest": rest}


def gen_call(rng, sig):
    names = [p[0] for p in sig["params"]]
    n = len(names)
    npos = rng.choice([0, 0, 1, 1, 2, 2, 3, n, n, n + 1, n + 2][:11])
    npos = min(npos, 5)
    pos = [gen_atom(rng) for _ in range(npos)]
    named = []
    pool = names + ["u", "zz"] + ([sig["rest"]] if sig["rest"] else [])
    cands = rng.sample(pool, min(len(pool), rng.choice([0, 0, 1, 1, 2, 3])))
    # mostly name the parameters that are not covered by position
    if rng.random() < 0.6:
        cands = [c for c in cands if c not in names[:npos]] + \
                [x for x in names[npos:] if rng.random() < 0.6 and x not in cands]
    seen = set()
    for c in cands:
        k = c.replace("-", "_")
        if k in seen and rng.random() < 0.9:
            continue
        seen.add(k)
        named.append([swap(c) if rng.random() < 0.25 else c, gen_atom(rng)])
    if rng.random() < 0.03 and named:
        named.append([named[0][0], gen_atom(rng)])       # explicit duplicate
    ls = None
    r = rng.random()
    if r < 0.12:
        ls = ["list", [gen_atom(rng) for _ in range(rng.randrange(2, 4))], rng.choice(["comma", "space"]), False]
    elif r < 0.16:
        ls = ["list", [], None, False]
    elif r < 0.2:
        ls = rng.choice([["null"], ["int", 5], ["list", [["int", 3]], "comma", False]])
    ms = None
    if rng.random() < 0.22:
        keys = rng.sample(pool, min(len(pool), rng.randrange(1, 3)))
        ms = [[k, gen_atom(rng)] for k in keys]
    ar = None
    if ls is None and rng.random() < 0.2:
        # a splatted argument list: the rest parameter of a forwarding mixin, with positional values and keywords
        keys = rng.sample(pool, min(len(pool), rng.choice([0, 1, 1, 2])))
        if rng.random() < 0.35 and named:
            keys = list(dict.fromkeys(keys + [named[0][0]]))       # a keyword also written explicitly
        akw, seen2 = [], set()
        for k in keys:
            if k.replace("-", "_") in seen2 or k.replace("-", "_") == "fw":
                continue
            seen2.add(k.replace("-", "_"))
            akw.append([swap(k) if rng.random() < 0.25 else k, gen_atom(rng)])
        ar = [[gen_atom(rng) for _ in range(rng.choice([0, 0, 1, 2]))], akw]
    return {"pos": pos, "named": named, "ls": ls, "ms": ms, "ar": ar}


def gen_later_default(rng):
    """a default that names a LATER parameter (which is also a global: c, d - or not: b, x-y), the later parameter is
    passed by name and the earlier one falls back to its default: defaults are evaluated left to right, so the default
    must see the global / be undefined, never the later argument (seeded change C18-1 bound all keywords first)"""
    later = rng.choice(["c", "d", "c", "d", "b", "x-y"])
    early = rng.choice([n for n in ["a", "b", "w_z"] if n.replace("-", "_") != later.replace("-", "_")])
    ref = later if rng.random() < 0.8 else swap(later)
    params = []
    npre = rng.choice([0, 1, 1])
    pre = [n for n in ["a", "b", "w_z", "x-y"] if n not in (early, later)][:npre]
    for n in pre:
        params.append([n, None])
    params.append([early, ["ref", ref]])
    if rng.random() < 0.3:
        params.append(["d" if later != "d" else "c", ["lit", gen_atom(rng)]])
    params.append([later, ["lit", gen_atom(rng)] if rng.random() < 0.8 else None])
    rest = rng.choice(RESTS) if rng.random() < 0.25 else None
    pos = [gen_atom(rng) for _ in pre]
    named = [[later if rng.random() < 0.7 else swap(later), gen_atom(rng)]]
    if rng.random() < 0.2:
        named.append(["u", gen_atom(rng)])
    return {"k": "bind", "sig": {"params": params, "rest": rest},
            "call": {"pos": pos, "named": named, "ls": None, "ms": None, "ar": None}, "fn": rng.random() < 0.5}


def gen_body(rng, depth):
    out = []
    for _ in range(rng.randrange(0, 4)):
        r = rng.random()
        if r < 0.3:
            out.append(["nop"])
        elif r < 0.55:
            out.append(["ret", ["int", rng.randrange(0, 99)]])
        elif depth > 0:
            c = rng.choice([["true"], ["false"], ["null"], ["int", 0], ["id", "e1"], ["list", [], None, False]])
            out.append(["if", c, gen_body(rng, depth - 1), gen_body(rng, depth - 1)])
    return out


def S(params, rest=None):
    return {"params": params, "rest": rest}


def C(pos=(), named=(), ls=None, ms=None, ar=None):
    return {"pos": [["int", p] for p in pos], "named": [[k, ["int", v]] for k, v in named], "ls": ls, "ms": ms, "ar": ar}


CORPUS = [
    (S([["a", None], ["b", ["lit", ["int", 2]]]], "r"), C([1, 5, 6, 7], [("x-y", 8), ("z", 9)])),
    (S([["a", None]], "r"), C([1], [("a", 2)])),                       # K1
    (S([["a", None]], "r"), C([1], [("r", 2)])),                       # K3
    (S([["a", None]], "r"), C([1, 4], [("r", 2)])),
    (S([["a", None], ["b", ["lit", ["int", 0]]]]), C([], [("a", 1)], None, [["a", ["int", 5]]])),   # K2
    (S([["a", None], ["b", ["lit", ["int", 0]]]]), C([], [], None, [["b", ["int", 5]]])),
    (S([["a", None], ["b", ["lit", ["int", 0]]]]), C([], [], ["list", [["int", 7], ["int", 8]], "space", False], None)),
    (S([["a_b", None], ["c-d", ["ref", "a-b"]]]), C([], [("a-b", 1)])),
    (S([["a", None], ["b", ["ref", "c"]], ["c", ["lit", ["int", 1]]]]), C([1])),
    (S([["a", None], ["b", ["ref", "g"]]]), C([1])),
    (S([["a", None]]), C([1, 2])), (S([["a", None]]), C([], [("b", 2)])), (S([["a", None], ["b", None]]), C([1], [("a", 3)])),
    (S([["a", None], ["b", ["lit", ["int", 5]]]]), C([1], [("a", 3)])),
    # seeded/C18-2: forward(1, $b: 2) -> pair($args..., $b: 9): duplicate argument
    (S([["a", None], ["b", ["lit", ["int", 0]]]]), C([], [("b", 9)], None, None, [[["int", 1]], [["b", ["int", 2]]]])),
    (S([["a", None], ["b", ["lit", ["int", 0]]]]), C([], [("b", 9)], None, None, [[["int", 1]], []])),
    (S([["a", None], ["b", ["lit", ["int", 0]]]]), C([], [("b", 9)], None, None, [[], [["a", ["int", 1]]]])),
    (S([["a", None]], "r"), C([7], [("b_c", 9)], None, None, [[["int", 1]], [["b-c", ["int", 2]]]])),
    (S([["a", None], ["b", ["lit", ["int", 0]]]]), C([], [], None, [["b", ["int", 5]]], [[["int", 1]], [["b", ["int", 2]]]])),
    (S([]), C([])), (S([], "r"), C([])), (S([], "r"), C([1, 2, 3])), (S([], "r"), C([], [("u", 1)])),
]


def gen_cases(ctx, tier):
    rng = ctx.rng
    cases = [{"k": "bind", "sig": s, "call": c} for s, c in CORPUS]
    mult = 1 if tier == "quick" else 15
    for _ in range(1500 * mult):
        s = gen_sig(rng)
        cases.append({"k": "bind", "sig": s, "call": gen_call(rng, s)})
    for _ in range(120 * mult):
        cases.append(gen_later_default(rng))
    # seeded/C18-1: @function box($width, $pad: $gap, $gap: 2px), global $gap -> here the global is $c
    for fn in (False, True):
        cases.append({"k": "bind", "fn": fn, "sig": S([["a", None], ["b", ["ref", "c"]], ["c", ["lit", ["int", 2]]]]),
                      "call": C([100], [("c", 5)])})
        cases.append({"k": "bind", "fn": fn, "sig": S([["a", None], ["b", ["ref", "x-y"]], ["x-y", ["lit", ["int", 2]]]]),
                      "call": C([100], [("x_y", 5)])})
    for _ in range(200 * mult):
        cases.append({"k": "ret", "body": gen_body(rng, 3)})
    return cases


def search_cases(ctx, broken):
    rng = ctx.rng
    out = []
    for _ in range(2500):
        s = gen_sig(rng)
        out.append({"k": "bind", "sig": s, "call": gen_call(rng, s)})
    return out


# ---------------------------------------------------------------- printing
def d_src(d):
    return v_src(d[1]) if d[0] == "lit" else "$" + d[1]


def body_src(b):
    out = []
    for s in b:
        if s[0] == "nop":
            out.append("$t: 1;")
        elif s[0] == "ret":
            out.append("@return %s;" % v_src(s[1]))
        else:
            out.append("@if %s { %s } @else { %s }" % (v_src(s[1]), body_src(s[2]), body_src(s[3])))
    return " ".join(out)


def src_of(c):
    if c["k"] == "ret":
        return "@function f() { %s } q { p0: inspect(f()); }" % body_src(c["body"])
    sig, call = c["sig"], c["call"]
    ps = []
    probes = []
    for i, (n, d) in enumerate(sig["params"]):
        ps.append("$" + n + (": " + d_src(d) if d else ""))
        probes.append("p%d: inspect($%s);" % (i, n))
    if sig["rest"]:
        ps.append("$%s..." % sig["rest"])
        probes.append("pr: inspect($%s); pk: inspect(keywords($%s));" % (sig["rest"], sig["rest"]))
    pre = ["$g: 77; $c: 55; $d: 66;", "@mixin m(%s) { %s }" % (", ".join(ps), " ".join(probes))]
    use_fn = c.get("fn") and call.get("ar") is None
    if use_fn:
        # the same binder through functions: one function per probe, every call binds the same arguments
        pre = ["$g: 77; $c: 55; $d: 66;"]
        for i, (n, d) in enumerate(sig["params"]):
            pre.append("@function f%d(%s) { @return inspect($%s); }" % (i, ", ".join(ps), n))
        if sig["rest"]:
            pre.append("@function fr(%s) { @return inspect($%s); }" % (", ".join(ps), sig["rest"]))
            pre.append("@function fk(%s) { @return inspect(keywords($%s)); }" % (", ".join(ps), sig["rest"]))
    args = [v_src(v) for v in call["pos"]] + ["$%s: %s" % (k, v_src(v)) for k, v in call["named"]]
    if call["ls"] is not None:
        pre.append("$l: %s;" % v_src(call["ls"]))
        args.append("$l...")
    ar = call.get("ar")
    if ar is not None:
        args.append("$fw...")
    if call["ms"] is not None:
        pre.append("$m: (%s);" % ", ".join("%s: %s" % (k, v_src(v)) for k, v in call["ms"]))
        args.append("$m...")
    if ar is not None:
        # the argument list is what a forwarding mixin captured in its rest parameter
        pre.append("@mixin fwd($fw...) { @include m(%s); }" % ", ".join(args))
        fargs = [v_src(v) for v in ar[0]] + ["$%s: %s" % (k, v_src(v)) for k, v in ar[1]]
        return " ".join(pre) + " q { @include fwd(%s); }" % ", ".join(fargs)
    if use_fn:
        al = ", ".join(args)
        calls = ["p%d: f%d(%s);" % (i, i, al) for i in range(len(sig["params"]))]
        if sig["rest"]:
            calls += ["pr: fr(%s);" % al, "pk: fk(%s);" % al]
        return " ".join(pre) + " q { %s }" % " ".join(calls)
    return " ".join(pre) + " q { @include m(%s); }" % ", ".join(args)


def impl_requests(c):
    return [("scss", "expanded", "10", src_of(c))]


DECL = re.compile(r"^  ([a-z0-9]+): (.*);$")


def impl_term(io):
    tag, f = io[0]
    if tag == "err":
        return "IErr"
    if tag == "panic":
        return "IPanic"
    if tag != "ok":
        return "IOther"
    txt = f[0].decode("utf-8", "replace")
    if txt.strip() == "":
        return "(IDecls [])"
    lines = txt.rstrip("\n").split("\n")
    if lines[0] != "q {" or lines[-1] != "}":
        return "IOther"
    ds = []
    for l in lines[1:-1]:
        m = DECL.match(l)
        if not m:
            return "IOther"
        ds.append(f"({cstring(m.group(1))}, {cbytes(m.group(2))})")
    return "(IDecls " + clist(ds) + ")"


def d_coq(d):
    if d is None:
        return "None"
    return "(Some (DLit %s))" % v_coq(d[1]) if d[0] == "lit" else "(Some (DRef %s))" % cstring(d[1])


def body_coq(b):
    out = []
    for s in b:
        if s[0] == "nop":
            out.append("FNop")
        elif s[0] == "ret":
            out.append("(FRet %s)" % v_coq(s[1]))
        else:
            out.append("(FIf %s %s %s)" % (v_coq(s[1]), body_coq(s[2]), body_coq(s[3])))
    return clist(out)


def input_term(c):
    if c["k"] == "ret":
        return "(CRet %s)" % body_coq(c["body"])
    sig, call = c["sig"], c["call"]
    s = "(mkSig %s %s)" % (clist(["(%s, %s)" % (cstring(n), d_coq(d)) for n, d in sig["params"]]),
                          copt(cstring(sig["rest"]) if sig["rest"] else None))
    kv = lambda l: clist(["(%s, %s)" % (cstring(k), v_coq(v)) for k, v in l])
    ar = call.get("ar")
    cl = "(mkCall %s %s %s %s %s)" % (clist([v_coq(v) for v in call["pos"]]), kv(call["named"]),
                                      copt(v_coq(call["ls"]) if call["ls"] is not None else None),
                                      copt(kv(call["ms"]) if call["ms"] is not None else None),
                                      copt("(%s, %s)" % (clist([v_coq(v) for v in ar[0]]), kv(ar[1])) if ar is not None else None))
    return f"(CBind {s} {cl})"


def coq_term(c, io):
    return f"(mkCase {input_term(c)} {impl_term(io)})"


KCLASS = {0: None, 3: "known_C18_K3_only_named"}


def judge(c, io, r):
    corr, ok, k, kind, experr = r
    return {
        "corr": corr == 1,
        "clauses": [("binding" if kind == 1 else "first-return", ok == 1, KCLASS[k])],
        "nontrivial": True,
        "key": src_of(c),
        "tags": ["bind" if kind == 1 else "ret", "expect-error" if experr else "expect-ok", io[0][0]],
        "show": src_of(c),
        "detail": src_of(c),
    }


def shrink(c):
    if c["k"] != "bind":
        return
    call, sig = c["call"], c["sig"]
    for key in ("pos", "named"):
        for i in range(len(call[key])):
            yield dict(c, call=dict(call, **{key: call[key][:i] + call[key][i + 1:]}))
    for key in ("ls", "ms", "ar"):
        if call.get(key) is not None:
            yield dict(c, call=dict(call, **{key: None}))
    if sig["rest"]:
        yield dict(c, sig=dict(sig, rest=None))


LEVEL_TEXT = ("proof: C18_bind - for ALL signatures and calls outside one input class found by the proof (lone keyword "
              "named like the rest parameter; the two other classes of the first version were fixed in rsass by 09ccabb / 5cd805f) the model of CallArgs::evaluate + FormalArgs::eval equals the reference binder; refuted "
              "witness for the class; error theorems (too many / unknown / missing), -/_ equivalence, first @return; the model is tied "
              "to rsass by exact-output correspondence on generated signatures x calls")
LEVEL_NOTE = ("trusted: Coq kernel+vm_compute, the harness, Spec/SassArgs.v, the inspect printer and the SCSS printer; "
              "@content/using and closures are not modelled here (closures: see C16); known finding: only_named (F32)")
TECHNIQUE = "Coq proof (list induction, invariants on ordered maps) + differential correspondence on generated SCSS programs"
