"""C22 - Placeholder selectors never reach the output."""
from common import *
from selkit import *

ID = "C22"
GEN = []
THEOREMS = ["C22_clean", "C22_clean_list", "C22_removed_top", "C22_order", "C22_rule_skipped",
            "C22_matches_sass_semantics", "C22_id", "C22_refuted_vanishing_compound"]
COQ_HEADER = ("From Coq Require Import List NArith ZArith.\nFrom RV Require Import Model.Sel Run.C22.\n"
              "Import ListNotations.\nLocal Open Scope list_scope.")
RUN_EXPR = "Run.C22.run"
RULE = ("selector lists of 1-4 complex selectors (1-3 compounds, all combinators) mixing placeholders, type/class/id/"
        "attribute/pseudo selectors and selector pseudos (:not :is :where :matches :has vendor-prefixed, ::slotted, "
        ":nth-child) nested up to 3 levels, placeholder density 0.1-0.6, compiled as `S {x:y}`; distinct = distinct "
        "selector list; non-trivial = contains a placeholder")
EXHAUSTIVE = {"quick": False, "thorough": False}
TRUSTED = ["Spec/SelVisible.v: which selectors match nothing because of a placeholder, written from the Sass documentation",
           "props/selkit.py prints the structured selector as source text; the Coq term carries the structure the "
           "rsass parser is expected to build from it (a wrong expectation shows up as a correspondence failure)"]
ASSUMPTIONS = ["names are ASCII identifiers without escapes; attribute values without escapes"]

P = lambda n: comp(ph=[n])
CORPUS = [
    [sel(comp(el="a"))],
    [sel(P("p"))],
    [sel(comp(el="a")), sel(P("p")), sel(comp(el="b"))],
    [sel(comp(ps=[["not", False, ["s", [sel(P("r"))]]]])), sel(comp(el="b"))],          # K1 witness `:not(%r), b`
    [sel(comp(ps=[["not", False, ["s", [sel(P("r"))]]]]))],
    [chain(comp(el="a"), "A", comp(ps=[["not", False, ["s", [sel(P("r"))]]]]))],
    [sel(comp(el="a", ps=[["not", False, ["s", [sel(P("r"))]]]]))],
    [sel(comp(el="a", ps=[["not", False, ["s", [sel(P("r")), sel(comp(el="d"))]]]]))],
    [sel(comp(ps=[["is", False, ["s", [sel(P("q")), sel(comp(el="b"))]]]]))],
    [sel(comp(ps=[["is", False, ["s", [sel(P("q"))]]]]))],
    [sel(comp(el="a", ps=[["where", False, ["s", [sel(P("q"))]]]])), sel(comp(el="b"))],
    [sel(comp(ps=[["not", False, ["s", [sel(comp(ps=[["is", False, ["s", [sel(P("q"))]]]]))]]]], el="a"))],
    [sel(comp(ps=[["is", False, ["s", [sel(comp(ps=[["not", False, ["s", [sel(P("q"))]]]]))]]]], el="a"))],
    [chain(comp(el="a"), "P", P("p"), "A", comp(el="b"))],
    [chain(P("p"), "J", comp(el="b")), sel(comp(cl=["c"]))],
    [sel(comp(el="a"), ["P", sel(comp())])],                                            # `> a`
    [sel(comp(el="a"), ["P", sel(comp(), ["P", sel(comp())])])],                        # `> > a`
    [chain(comp(el="a"), "P", comp(), "P", comp(el="b"))],                              # `a > > b`
    [sel(comp(ps=[["is", False, ["s", [sel(comp(el="b"), ["P", sel(comp())]), sel(comp(el="c"))]]]]))],
    [sel(comp(el="*", ps=[["not", False, ["s", [sel(P("r"))]]]])), sel(comp(el="b"))],
    [sel(comp(el="a", ph=["p"], cl=["c"]))],
    [sel(comp(el="a", ps=[["before", False, None], ["not", False, ["s", [sel(P("r"))]]]]))],
    [sel(comp(ps=[["nth-child", False, ["s", [chain(comp(el="2n"), "J", comp(el="1"))]]]], el="li"))],
]


def gen_cases(ctx, tier):
    rng = ctx.rng
    cases = [{"s": s} for s in CORPUS]
    n = 1500 if tier == "quick" else 12000
    for i in range(n):
        ph = rng.choice([0.1, 0.25, 0.4, 0.6])
        depth = rng.choice([0, 1, 1, 2, 2, 3])
        s = gen_sels(rng, depth, ph=ph, nmax=4, lead=0.04 if rng.random() < 0.3 else 0.0)
        cases.append({"s": s})
    return cases


def search_cases(ctx, broken):
    rng = ctx.rng
    return [{"s": gen_sels(rng, rng.choice([1, 2, 3]), ph=rng.choice([0.2, 0.5]), nmax=4, lead=0.05)} for _ in range(3000)]


def src_of(c):
    return t_sels(c["s"]) + " {x:y}"


def impl_requests(c):
    return [("scss", "expanded", "10", src_of(c))]


def coq_term(c, io):
    tag, f = io[0]
    if tag == "ok":
        return f"(mkCase {q_sels(c['s'])} 0%N {q_otext(emitted_selector(f[0]))})"
    return f"(mkCase {q_sels(c['s'])} {1 if tag == 'err' else 2}%N None)"


def has_ph(s):
    c = s["c"]
    return bool(c["ph"]) or any(p[2] and p[2][0] == "s" and any(has_ph(x) for x in p[2][1]) for p in c["ps"]) \
        or (s["rel"] is not None and has_ph(s["rel"][1]))


def judge(c, io, r):
    corr, c1, k1, c2, k2, plain, skipped = r
    return {
        "corr": corr == 1,
        "clauses": [("no-placeholder-in-output", c1 == 1, None),
                    ("visible-selectors-kept", c2 == 1, "known_C22_K1_vanishing_compound" if k2 == 1 else None)],
        "nontrivial": any(has_ph(s) for s in c["s"]),
        "tags": ["plain" if plain else "bogus", "skipped" if skipped else "emitted"],
        "show": src_of(c),
        "detail": src_of(c),
    }


def shrink(c):
    s = c["s"]
    if len(s) > 1:
        for i in range(len(s)):
            yield {"s": s[:i] + s[i + 1:]}
    for i, x in enumerate(s):
        if x["rel"] is not None:
            yield {"s": s[:i] + [x["rel"][1]] + s[i + 1:]}
            yield {"s": s[:i] + [sel(x["c"])] + s[i + 1:]}
        cc = x["c"]
        for key in ("cl", "ps", "at", "ph"):
            for j in range(len(cc[key])):
                c2 = dict(cc)
                c2[key] = cc[key][:j] + cc[key][j + 1:]
                if not comp_empty(c2):
                    yield {"s": s[:i] + [sel(c2, x["rel"])] + s[i + 1:]}
        for j, p in enumerate(cc["ps"]):
            if p[2] and p[2][0] == "s":
                for sub in shrink({"s": p[2][1]}):
                    c2 = dict(cc)
                    c2["ps"] = cc["ps"][:j] + [[p[0], p[1], ["s", sub["s"]]]] + cc["ps"][j + 1:]
                    yield {"s": s[:i] + [sel(c2, x["rel"])] + s[i + 1:]}


LEVEL_TEXT = ("proof: nested induction over all selectors of the model of no_placeholder (selectorset.rs, selector.rs, "
              "compound.rs, pseudo.rs, opt.rs): the result never contains a placeholder, is the identity on "
              "placeholder-free plain selectors, removes every complex selector with a top-level placeholder, is an "
              "order-preserving filter-map of the list, and agrees with the Sass notion of selectors that match "
              "nothing outside the recorded class; the model is tied to the code by correspondence of the emitted "
              "selector text on generated rules")
LEVEL_NOTE = ("trusted: Coq kernel+vm_compute, the harness, Spec/SelVisible.v, the python printer of structured "
              "selectors; one clause is false on the pinned tree (compound consisting only of vanishing :not())")
TECHNIQUE = "Coq proof (nested structural induction) + differential correspondence on generated SCSS"
