"""C14 - `not`, `and`, `or` follow Sass truthiness."""
import re, struct
from common import *

ID = "C14"
GEN = []
THEOREMS = ["C14_truthy", "C14_and", "C14_or", "C14_short_circuit", "C14_not", "C14_not_number_partial",
            "C14_refuted_not", "C14_agrees_with_reference"]
COQ_HEADER = ("From Coq Require Import List ZArith NArith.\nFrom RV Require Import Model.Truth Run.C14.\n"
              "Import ListNotations.\nLocal Open Scope N_scope.")
RUN_EXPR = "Run.C14.run"
RULE = ("expressions over an operand table (null, true, false, numbers 0/1/1px/0.5/-0/huge, quoted/unquoted/empty "
        "strings, empty/non-empty/bracketed lists, map, colour) built with not / and / or (chains of one operator, "
        "`not` prefixes, and chains of 2-4 operators mixing `and` and `or`); operands are plain, or wrapped in a function that records an effect in a global, or replaced "
        "by a failing call / an undefined variable; evaluated inside a stylesheet that prints inspect(expr) and the "
        "effect log; quick = every `not X`, every `X op Y` over the table with every right-operand variant, plus random "
        "chains; distinct = distinct expression text; non-trivial = contains an effectful or failing operand or a `not`")
EXHAUSTIVE = {"quick": False, "thorough": False}
TRUSTED = ["Spec/Truthiness.v: Sass truthiness and on-demand evaluation written from the Sass documentation",
           "the operand table gives for each source text its css::Value variant and its inspect() text; both are "
           "validated by the correspondence check (a wrong entry is a correspondence failure)"]
ASSUMPTIONS = ["and/or chains are generated without parentheses; chains mixing `and` and `or` are judged on the grouping rsass parses (every sequence nests to the right: `a and b or c` = `a and (b or c)`, finding F22a of C15): C14 is about the evaluation of that tree, C15 about the grouping"]


def bits(x):
    return struct.unpack(">Q", struct.pack(">d", x))[0]


# source text, kind, inspect text
OPERANDS = [
    ("null", "null", "null"), ("true", "true", "true"), ("false", "false", "false"),
    ("0", ("num", 0.0), "0"), ("1", ("num", 1.0), "1"), ("1px", ("num", 1.0), "1px"), ("0.5", ("num", 0.5), "0.5"),
    ("1e300", ("num", 1e300), None), ("x", "unq", "x"), ('"x"', "other", '"x"'), ('""', "other", '""'),
    ("(1 2)", "other", "1 2"), ("()", "other", "()"), ("(a: 1)", "other", "(a: 1)"), ("red", "other", "red"),
    ("[]", "other", "[]"), ("(1, 2)", "other", "1, 2"),
]
OPERANDS = [o for o in OPERANDS if o[2] is not None]
PRE = ('$log: "";\n'
       '@function eff($id, $v) { $log: "#{$log}#{$id}" !global; @return $v; }\n'
       '@function boom($id) { $log: "#{$log}#{$id}" !global; @error "boom#{$id}"; }\n')


def leaf(i):
    return ["leaf", i]


def variants(i, ident):
    return [["leaf", i], ["eff", ident, i]]


def gen_cases(ctx, tier):
    rng = ctx.rng
    cases = []
    n = len(OPERANDS)
    for i in range(n):
        cases.append({"e": ["not", ["leaf", i]]})
        cases.append({"e": ["not", ["eff", 1, i]]})
        cases.append({"e": ["not", ["not", ["leaf", i]]]})
    for op in ("and", "or"):
        for i in range(n):
            for j in range(n):
                v = rng.randrange(3)
                a = ["leaf", i] if v == 0 else ["eff", 1, i]
                b = ["leaf", j] if v == 2 else ["eff", 2, j]
                cases.append({"e": [op, a, b]})
            for b in (["boom", 2], ["undef"]):
                cases.append({"e": [op, ["leaf", i], b]})
                cases.append({"e": [op, ["eff", 1, i], b]})
            cases.append({"e": [op, ["boom", 1], ["eff", 2, i]]})
            cases.append({"e": [op, ["undef"], ["eff", 2, i]]})
            cases.append({"e": [op, ["not", ["eff", 1, i]], ["eff", 2, 4]]})
            cases.append({"e": [op, ["eff", 1, 4], ["not", ["eff", 2, i]]]})
    m = 500 if tier == "quick" else 20000
    for _ in range(m):
        op = rng.choice(["and", "or"])
        k = rng.choice([2, 3, 3, 4])
        items = []
        for t in range(k):
            r = rng.random()
            i = rng.randrange(n) if rng.random() < 0.5 else rng.choice([0, 1, 2, 3])
            if r < 0.6:
                x = ["eff", t + 1, i]
            elif r < 0.8:
                x = ["leaf", i]
            elif r < 0.9:
                x = ["boom", t + 1]
            else:
                x = ["undef"]
            if rng.random() < 0.25 and x[0] in ("eff", "leaf"):
                x = ["not", x]
            items.append(x)
        # rsass nests every and/or sequence to the right, whatever the operators: a op1 (b op2 (c op3 d));
        # half of the chains mix the two operators (grouping = the one rsass parses; precedence itself is C15)
        ops = [op] * (k - 1) if rng.random() < 0.5 else [rng.choice(["and", "or"]) for _ in range(k - 1)]
        e = items[-1]
        for x, o in zip(reversed(items[:-1]), reversed(ops)):
            e = [o, x, e]
        cases.append({"e": e})
    # every mixed three-operand chain over the decisive operands, with an effectful and a failing last operand
    small = [0, 1, 2, 3, 8]          # null true false 0 x
    for o1 in ("and", "or"):
        for o2 in ("and", "or"):
            for i in small:
                for j in small:
                    for last in (["eff", 3, 4], ["boom", 3]):
                        cases.append({"e": [o1, ["eff", 1, i], [o2, ["eff", 2, j], last]]})
    for (o1, o2, o3) in (("and", "or", "and"), ("or", "and", "or"), ("and", "and", "or"), ("or", "or", "and")):
        for i in small:
            for j in small:
                cases.append({"e": [o1, ["leaf", i], [o2, ["eff", 2, j], [o3, ["eff", 3, rng.choice(small)], ["eff", 4, 4]]]]})
    return cases


def src(e):
    k = e[0]
    if k == "leaf":
        return OPERANDS[e[1]][0]
    if k == "eff":
        return f"eff({e[1]}, {OPERANDS[e[2]][0]})"
    if k == "boom":
        return f"boom({e[1]})"
    if k == "undef":
        return "$undefined"
    if k == "not":
        return "not " + src(e[1])
    return f"{src(e[1])} {k} {src(e[2])}"


def cval(i):
    s, kind, insp = OPERANDS[i]
    if isinstance(kind, tuple):
        kt = f"(KNum {cz(bits(kind[1]))})"
    else:
        kt = {"null": "KNull", "true": "KTrue", "false": "KFalse", "unq": "KUnq", "other": "KOther"}[kind]
    return f"(mkV {kt} {cbytes(insp)})"


def eterm(e):
    k = e[0]
    if k == "leaf":
        return f"(ELeaf {cval(e[1])})"
    if k == "eff":
        return f"(EEff {cn(e[1])} {cval(e[2])})"
    if k == "boom":
        return f"(EBoom {cn(e[1])})"
    if k == "undef":
        return "EUndef"
    if k == "not":
        return f"(ENot {eterm(e[1])})"
    return f"({'EAnd' if k == 'and' else 'EOr'} {eterm(e[1])} {eterm(e[2])})"


def impl_requests(c):
    return [("scss", "expanded", "10", PRE + "a{r:inspect(%s);log:$log}" % src(c["e"]))]


def coq_term(c, io):
    tag, f = io[0]
    impl = "IOther"
    if tag == "ok":
        m = re.fullmatch(r'a \{\n  r: (.*);\n  log: "(\d*)";\n\}\n', f[0].decode("utf-8", "replace"), re.S)
        if m:
            impl = f"(IOk {cbytes(m.group(1))} {clist([cn(int(ch)) for ch in m.group(2)])})"
    elif tag == "err":
        msg = f[0].decode("utf-8", "replace")
        m = re.match(r'"boom(\d+)"', msg)
        if m:
            impl = f"(IErr {cn(int(m.group(1)))})"
        elif msg.startswith("Undefined variable"):
            impl = "(IErr 0%N)"
    return f"(mkCase {eterm(c['e'])} {impl})"


K = {0: None, 1: "known_C14_K1_not_non_boolean"}


def has(e, kinds):
    return e[0] in kinds or any(isinstance(x, list) and has(x, kinds) for x in e[1:])


def judge(c, io, r):
    corr, v, kv, ef, ke = r
    return {
        "corr": corr == 1,
        "clauses": [("value", v == 1, K[kv]), ("effects-on-demand", ef == 1, K[ke])],
        "nontrivial": has(c["e"], ("eff", "boom", "undef", "not")),
        "tags": [c["e"][0]],
        "show": src(c["e"]), "detail": src(c["e"]),
    }


def shrink(c):
    e = c["e"]
    if e[0] in ("and", "or"):
        yield {"e": e[1]}
        yield {"e": e[2]}
    if e[0] == "not":
        yield {"e": e[1]}


LEVEL_TEXT = ("proof: Value::do_evaluate's Not arms and BinOp::eval's And/Or branches modelled with an effect trace; for "
              "ALL operand expressions (values, effects, failures): `a and b` / `a or b` return a or evaluate b exactly "
              "as Sass truthiness demands, b's effects and failures occur iff b's value is needed; `not` is correct on "
              "booleans (and on numbers when Number::eq(v,0) is false); the model agrees with the independent "
              "reference semantics on every expression free of `not`-on-non-boolean (structural induction); refuted: "
              "`not null`, `not \"x\"`, `not (1 2)` ... are kept as `not ...` (F21)")
LEVEL_NOTE = ("trusted: Coq kernel, harness, Spec/Truthiness.v, operand table; precedence/parentheses are C15; "
              "`not <number>` relies on Number::eq(v, 0) being false for every v (checked by vm_compute on examples and by "
              "correspondence, not proved for all doubles)")
TECHNIQUE = "Coq proof (structural induction over expressions with effect traces) + differential correspondence"
