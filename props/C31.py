"""C31 - Colour channels stay in range and conversions round-trip."""
import struct, re
from common import *

ID = "C31"
GEN = ["Colors"]
THEOREMS = ["C31_rgb_range", "C31_hsl_alpha_range", "C31_hsl_sat_nonneg", "C31_hwb_alpha_range", "C31_hue_shape_partial",
            "C31_refuted_hue", "C31_named", "C31_eq_same_rgba", "C31_roundtrip_named_partial", "C31_roundtrip_gray_partial",
            "C31_yellow_fixed"]
COQ_HEADER = ("From Coq Require Import String List ZArith Bool.\n"
              "From RV Require Import Model.Color Run.C31.\nImport ListNotations.\nLocal Open Scope string_scope.")
RUN_EXPR = "Run.C31.run"
RULE = ("rgb()/hsl()/hwb() calls with random and boundary channel values (in range, out of range, tiny negative hue, "
        "fractional), hwb-form colours with hues outside [0,360) each compared with itself moved by whole turns, all named colours, random hex colours; distinct = distinct expression; non-trivial = not a named colour")
EXHAUSTIVE = {"quick": False, "thorough": False}
TRUSTED = ["Rust str::parse::<f64> is correctly rounded (arguments reach rsass as decimal text, the model as bits)",
           "Base/FMod.v: exact fmod on the binary64 representation"]
ASSUMPTIONS = ["only the numeric argument paths of rgb()/hsl()/hwb() are modelled (no percent alpha, no special values)"]
SHARD = 150


def bits(x):
    return struct.unpack(">Q", struct.pack(">d", x))[0]


def fl(b):
    return struct.unpack(">d", struct.pack(">Q", b))[0]


def ntext(x):
    """decimal text that Rust parses back to exactly x (no exponent form)."""
    if x == int(x) and abs(x) < 1e15:
        s = str(int(x))
        if x == 0 and str(x).startswith("-"):
            s = "-0"
        return s
    s = repr(float(x))
    if "e" in s or "E" in s:
        s = format(x, ".40f").rstrip("0")
    return s


CH = [0, 255, 128, 127.5, 1, 254.5, 63.75, 300, -5, 255.0000001, 17, 200, 99.9]
AL = [1, 1, 1, 0.5, 0, 0.25, 1.5, -0.2, 0.9999999]
HUE = [0, 120, 240, 359.9999, 360, 400, -40, 720, -0.00000000000000001, -0.0, 180, 30.5, 359.99999999999994, -360, 1e-17]
PCT = [0, 100, 50, 25, 75, 12.5, 33, 150, -20, 100.0000001, 99.5]


def gen_cases(ctx, tier):
    rng = ctx.rng
    cases = []
    # corpus
    for e in [("rgb", [300, -5, 128.5, 1]), ("hsl", [-1e-17, 50, 50, 1]), ("hsl", [-0.0, 50, 50, 1]), ("hsl", [0, 50, 150, 1]),
              ("hsl", [0, 150, 50, 1]), ("hwb", [400, 10, 10, 1]), ("hwb", [0, 150, 20, 1]), ("hwb", [0, 80, 80, 1]),
              ("hwb", [0, -10, 20, 1]), ("hsl", [120, 50, 50, 0.5]), ("rgb", [127.5, 0, 0, 1]), ("hsl", [0, 100, 50, 1]),
              ("rgb", [255, 255, 0, 1]), ("rgb", [128, 128, 0, 0.5]), ("rgb", [245, 245, 220, 1])]:
        cases.append({"k": e[0], "in": [float(x) for x in e[1]]})
    n = 450 if tier == "quick" else 9000
    for _ in range(n):
        k = rng.choice(["rgb", "hsl", "hsl", "hwb"])
        a = rng.choice(AL) if rng.random() < 0.5 else round(rng.random(), 3)
        if k == "rgb":
            v = [rng.choice(CH) if rng.random() < 0.4 else float(rng.randrange(0, 256)) for _ in range(3)]
            if rng.random() < 0.15:
                v[rng.randrange(3)] = round(rng.uniform(-20, 280), 2)
        else:
            h = rng.choice(HUE) if rng.random() < 0.4 else round(rng.uniform(-400, 800), 1)
            p = [rng.choice(PCT) if rng.random() < 0.5 else float(rng.randrange(0, 101)) for _ in range(2)]
            v = [h] + p
        cases.append({"k": k, "in": [float(x) for x in v] + [float(a)]})
    # hwb-form colours (non-integer rgb channels) whose hue is outside [0, 360) or fractional
    for e in [[10, 20.5, 30, 1], [370, 20.5, 30, 1], [-350, 20.5, 30, 1], [30, 10, 20, 1], [725.5, 12.5, 33, 0.5], [-40, 7, 61, 1]]:
        cases.append({"k": "hwb", "in": [float(x) for x in e]})
    for _ in range(70 if tier == "quick" else 1200):
        h = rng.choice([10, 30.5, 200, 359.5, 370, 400, 725.5, -40, -350, -700.25, 1090])
        w = rng.choice([20.5, 10, 7, 12.5, 33, 0.5, 41])
        b = rng.choice([30, 20, 61, 12.5, 3, 45.5])
        cases.append({"k": "hwb", "in": [float(h), float(w), float(b), float(rng.choice([1, 1, 0.5]))]})
    for name, _ in color_names():
        cases.append({"k": "named", "name": name})
    cases.append({"k": "named", "name": "transparent"})
    for _ in range(40 if tier == "quick" else 1500):
        cases.append({"k": "hex", "in": [rng.randrange(256), rng.randrange(256), rng.randrange(256)]})
    seen, out = set(), []
    for c in cases:
        s = expr_of(c)
        if s not in seen:
            seen.add(s)
            if c["k"] == "hwb":
                c["turns"] = rng.choice([1, -1, 2, -2, 3])
            out.append(c)
    return out


_names = None


def color_names():
    global _names
    if _names is None:
        txt = open(os.path.join(COQ, "theories", "Gen", "Colors.v")).read()
        _names = [(m.group(1), int(m.group(2))) for m in re.finditer(r'\("([a-z]+)", (\d+)%Z\)', txt)]
    return _names


def expr_of(c):
    k = c["k"]
    if k == "named":
        return c["name"]
    if k == "hex":
        return "#%02x%02x%02x" % tuple(c["in"])
    v = c["in"]
    if k == "rgb":
        return f"rgb({ntext(v[0])}, {ntext(v[1])}, {ntext(v[2])}, {ntext(v[3])})"
    if k == "hsl":
        return f"hsl({ntext(v[0])}, {ntext(v[1])}%, {ntext(v[2])}%, {ntext(v[3])})"
    return f"hwb({ntext(v[0])} {ntext(v[1])}% {ntext(v[2])}% / {ntext(v[3])})"


def shifted(c):
    """the same hwb() colour with its hue argument moved by whole turns (only for hwb cases)."""
    v = list(c["in"])
    v[0] = v[0] + 360.0 * c.get("turns", 1)
    return expr_of(dict(c, **{"in": v}))


def impl_requests(c):
    e = expr_of(c)
    turn = ("evalv", f"{e} == {shifted(c)}") if c["k"] == "hwb" else ("evalv", "1 == 1")
    return [("color", e),
            ("evalv", f"rgb(red({e}), green({e}), blue({e}), alpha({e})) == {e}"),
            ("evalv", f"hsl(hue({e}), saturation({e}), lightness({e}), alpha({e})) == {e}"),
            ("scss", "expanded", "10", f"@use \"sass:color\";\n$c: {e};\na {{b: color.hwb(color.hue($c), color.whiteness($c), color.blackness($c), alpha($c)) == $c}}\n"),
            ("coloreq", e), turn]


def prepare(ctx):
    pass


def eq_answer(io):
    tag, f = io
    if tag == "ok" and len(f) >= 3 and f[0] == b"val" and f[1] == b"bool":
        return 1 if f[2] == b"true" else 0
    if tag == "ok" and len(f) == 2 and f[0] in (b"true", b"false"):      # coloreq
        return 1 if f[0] == b"true" else 0
    if tag == "ok" and len(f) == 1:      # scss output
        m = re.search(rb"b: (true|false);", f[0])
        if m:
            return 1 if m.group(1) == b"true" else 0
    return 2


def coq_term(c, io):
    k = c["k"]
    kind = {"rgb": "KRgb", "hsl": "KHsl", "hwb": "KHwb", "hex": "KHex"}.get(k) or f"(KNamed {cstring(c['name'])})"
    if k == "hex":
        ins = clist([cz(x) for x in c["in"]])
    elif k == "named":
        ins = "[]"
    else:
        ins = clist([cz(bits(x)) for x in c["in"]])
    tag, f = io[0]
    if tag == "ok":
        kz = {b"rgba": 0, b"hsla": 1, b"hwba": 2}[f[0]]
        nums = [int(x) for x in f[1:17]]
        rep = (f"(Some (mkReport {cz(kz)} {clist([cz(x) for x in nums[0:4]])} {clist([cz(x) for x in nums[4:8]])} "
               f"{clist([cz(x) for x in nums[8:12]])} {clist([cz(x) for x in nums[12:16]])}))")
    else:
        rep = "None"
    eqs = clist([cz(eq_answer(x)) for x in io[1:4]] + [cz(eq_answer(io[4]) if len(io) > 4 else 2)])
    return f"(mkCase {kind} {ins} {rep} {eqs})"


def judge(c, io, r):
    corr, rgb, hue, sl, wb, k1, k2, k3, k4, k5, is_hsla = r
    eqs = [eq_answer(x) for x in io[1:6]]
    if io[0][0] in ("panic", "crash"):
        corr = 0
    K1, K2, K3, K4, K5 = ("known_C31_K1_hue_360", "known_C31_K2_hsl_unclamped", "known_C31_K3_hwb_unclamped",
                          "known_C31_K4_rounded_rgb_channels", "known_C31_K5_hsl_exact_compare")
    def first(*ks):
        for flag, name in ks:
            if flag:
                return name
        return None
    cl = [("rgb-alpha-range", rgb == 1, None),
          ("hue-range", hue == 1, first((k1, K1))),
          ("saturation-lightness-range", sl == 1, first((k2, K2), (k3, K3))),
          ("whiteness-blackness-range", wb == 1, first((k3, K3), (k2, K2))),
          ("rebuild-rgb-equal", eqs[0] == 1, first((k4, K4))),
          ("rebuild-hsl-equal", eqs[1] == 1, first((k5, K5))),
          # two hwb-form colours are compared through their rgba channels: K5 only concerns colours kept in hsl form
          ("rebuild-hwb-equal", eqs[2] == 1, first((is_hsla, K5))),
          ("same-rgba-equal", eqs[3] == 1, None),
          ("hue-whole-turns-equal", eqs[4] == 1, None)]
    show = expr_of(c) + (f" vs {shifted(c)}" if c["k"] == "hwb" else "")
    return {"corr": corr == 1, "clauses": cl, "nontrivial": c["k"] != "named",
            "tags": [c["k"]] + [f"K{i+1}" for i, k in enumerate([k1, k2, k3, k4, k5]) if k],
            "show": show, "detail": show}


def shrink(c):
    if c["k"] in ("rgb", "hsl", "hwb"):
        v = c["in"]
        for i in range(4):
            for nv in (0.0, 1.0, 50.0, 100.0):
                if v[i] != nv:
                    w = list(v); w[i] = nv
                    yield dict(c, **{"in": w})


LEVEL_TEXT = ("proof: range theorems for Rgba::new / Hsla::new / Hwba::new over ALL binary64 inputs (NaN and infinities included) by "
              "case analysis on Flocq comparisons; equality of equal rgba channels for all f64; named-colour table laws and round trips "
              "of all named colours and greys by finite sweep over the table regenerated from rgba.rs; the model is tied to the code by "
              "bit-exact correspondence of all 16 channel values (own, rgba, hsla, hwba) on every generated constructor call")
LEVEL_NOTE = ("trusted: Coq kernel+vm_compute, Flocq binary64, gen/gens/Colors.py, harness command `color`; hue range and general round trip "
              "are partial; the statement is false on the pinned tree in five recorded classes (hue 360, unclamped hsl/hwb arguments, rounded "
              "channel functions, exact hsl comparison); F33 (red = green > blue) is fixed upstream by e465284")
TECHNIQUE = "Coq proof (case analysis on binary64 comparisons, finite sweeps over generated table) + translator + bit-exact differential correspondence"
