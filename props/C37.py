"""C37 - @use/@forward configuration and visibility rules hold."""
import re
from common import *

ID = "C37"
GEN = []
THEOREMS = ["C37_namespace", "C37_last_segment", "C37_forward_filter", "C37_show_hide",
            "C37_forwarded_builtin", "C37_forwarded_builtin_plain_guard", "C37_refuted_forwarded_builtin", "C37_with_default_only", "C37_refuted_with", "C37_config_twice", "C37_builtin_guard"]
COQ_HEADER = ("From Coq Require Import String List ZArith.\nFrom RV Require Import Model.EvModule Run.C37.\n"
              "Import ListNotations.\nLocal Open Scope string_scope.")
RUN_EXPR = "Run.C37.run"
RULE = ("module graphs of 2-3 in-memory files: @use URLs (directories, partial underscore, extension, -/_ in the name) probed through the "
        "reference namespace; @forward with every combination of prefix x show/hide lists over variables/functions/mixins (incl. "
        "cross-kind and unknown names), members observed with meta.module-variables/-functions/mixin-exists; @use with(...) over "
        "modules with 1..4 declarations (default / non-default) and configurations of known, non-default, unknown and repeated "
        "names; built-in guards, also through a user module that forwards sass:math (plain / prefixed / show / hide) with assignment to or "
        "configuration of the forwarded variable and of the module's own variable; distinct = distinct file set; non-trivial = always")
EXHAUSTIVE = {"quick": False, "thorough": False}
TRUSTED = ["Spec/SassModule.v: reference rules written from the property text",
           "python: printing of the module graphs, parsing of inspect() maps/lists of the probes"]
ASSUMPTIONS = ["one forwarding level (main -> mid -> lib); `as *` merging and explicit `as name` are exercised by the correspondence only",
               "module member values are small integers"]

SEP = "\x00"


def spec_ns(url):
    seg = url.split(":")[-1].split("/")[-1]
    if seg.startswith("_"):
        seg = seg[1:]
    parts = seg.split(".")
    if len(parts) == 2 and parts[1] in ("scss", "sass", "css"):
        seg = parts[0]
    return seg


def gen_ns(rng):
    d = rng.choice(["", "", "sub/", "sub/deep/", "x_y/"])
    base = rng.choice(["lib", "my_lib", "my-lib", "l2"])
    us = rng.random() < 0.3
    ext = rng.random() < 0.3
    url = d + ("_" if us else "") + base + (".scss" if ext else "")
    if ext:
        fname = url
    else:
        partial = us or rng.random() < 0.3
        fname = d + ("_" if partial else "") + base + ".scss"
    return {"k": "ns", "url": url, "file": fname}


CAND_F = ["f", "g", "m", "n", "zz", "v"]
CAND_V = ["v", "w", "zz", "f"]


def gen_fwd(rng):
    pfx = rng.choice([None, None, "p-", "q"])
    r = rng.random()
    if r < 0.2:
        e = ["all"]
    else:
        p = pfx or ""
        fl = [p + x for x in rng.sample(CAND_F, rng.randrange(0, 4))]
        vl = [p + x for x in rng.sample(CAND_V, rng.randrange(0, 3))]
        if rng.random() < 0.15 and pfx:
            fl.append(rng.choice(["f", "m"]))          # an unprefixed name in the list
            vl.append("v")
        if not fl and not vl:
            fl = [p + "f"]
        e = [rng.choice(["show", "hide"]), fl, vl]
    return {"k": "fwd", "pfx": pfx, "e": e}


FB_ACTS = ["assign-builtin", "assign-own", "config-builtin", "read-builtin", "config-own"]


def gen_fwdb(rng):
    """a user module forwarding sass:math (plain / prefixed / show / hide); the root assigns to or configures
    the forwarded built-in variable (or the module's own variable) through the user module's namespace"""
    pfx = rng.choice([None, None, "m-"])
    p = pfx or ""
    r = rng.random()
    if r < 0.35:
        e = ["all"]
    else:
        fl = [p + x for x in rng.sample(["floor", "ceil", "zz"], rng.randrange(0, 3))]
        vl = [p + x for x in rng.sample(["pi", "e", "zz"], rng.randrange(0, 3))]
        if not fl and not vl:
            vl = [p + "pi"]
        e = [rng.choice(["show", "hide"]), fl, vl]
    return {"k": "fwdb", "act": rng.choice(FB_ACTS), "pfx": pfx, "e": e}


def gen_cfg(rng):
    decls = [[rng.choice(["v", "w", "u"]), rng.randrange(1, 5), rng.random() < 0.6] for _ in range(rng.randrange(1, 5))]
    names = rng.sample(["v", "w", "u", "zz"], rng.randrange(0, 4))
    cfg = [[n, rng.randrange(5, 10)] for n in names]
    if cfg and rng.random() < 0.08:
        cfg.append([cfg[0][0], 9])
    return {"k": "cfg", "decls": decls, "cfg": cfg}


def gen_cases(ctx, tier):
    rng = ctx.rng
    cases = []
    for url, f in [("lib", "lib.scss"), ("lib", "_lib.scss"), ("_lib", "_lib.scss"), ("lib.scss", "lib.scss"),
                   ("sub/lib", "sub/lib.scss"), ("sub/_lib.scss", "sub/_lib.scss"), ("my_lib", "my_lib.scss")]:
        cases.append({"k": "ns", "url": url, "file": f})
    for pfx, e in [(None, ["all"]), (None, ["show", ["f"], ["v"]]), (None, ["hide", ["f", "m"], ["v"]]), ("p-", ["all"]),
                   ("p-", ["show", ["p-f"], ["p-v"]]), ("p-", ["hide", ["p-f"], ["p-v"]]), ("p-", ["hide", ["p-v"], ["p-f"]]),
                   (None, ["hide", ["v"], ["f"]]), (None, ["show", ["m"], []])]:
        cases.append({"k": "fwd", "pfx": pfx, "e": e})
    for decls, cfg in [([["v", 1, True], ["w", 2, False]], [["v", 5]]), ([["v", 1, True], ["w", 2, False]], [["w", 5]]),
                       ([["v", 1, True]], [["zz", 5]]), ([["v", 1, True]], [["v", 5], ["v", 6]]),
                       ([["v", 1, True], ["v", 2, False]], [["v", 5]]), ([["v", 1, False], ["v", 2, True]], [["v", 5]]),
                       ([["v", 1, True]], [])]:
        cases.append({"k": "cfg", "decls": decls, "cfg": cfg})
    for k in (0, 1, 2):
        cases.append({"k": "builtin", "n": k})
    for act in FB_ACTS:
        for pfx in (None, "m-"):
            p = pfx or ""
            for e in (["all"], ["show", [p + "floor"], [p + "pi"]], ["show", [p + "floor"], []], ["hide", [], [p + "pi"]],
                      ["hide", [p + "floor"], [p + "e"]]):
                cases.append({"k": "fwdb", "act": act, "pfx": pfx, "e": e})
    for _ in range(120 * (1 if tier == "quick" else 10)):
        cases.append(gen_fwdb(rng))
    mult = 1 if tier == "quick" else 10
    for _ in range(150 * mult):
        cases.append(gen_ns(rng))
    for _ in range(500 * mult):
        cases.append(gen_fwd(rng))
    for _ in range(400 * mult):
        cases.append(gen_cfg(rng))
    return cases


def search_cases(ctx, broken):
    rng = ctx.rng
    return [gen_fwd(rng) for _ in range(800)] + [gen_cfg(rng) for _ in range(600)] + [gen_ns(rng) for _ in range(200)]


LIB = ("$v: 1; $w: 2; @function f() { @return 1 } @function g() { @return 1 } "
       "@mixin m() { x: y } @mixin n() { x: y }")


def files_of(c):
    k = c["k"]
    if k == "ns":
        return {"main.scss": '@use "%s"; a { v: %s.$v }' % (c["url"], spec_ns(c["url"])), c["file"]: "$v: 1;"}
    if k == "fwd":
        fw = '@forward "lib"'
        if c["pfx"]:
            fw += " as %s*" % c["pfx"]
        e = c["e"]
        if e[0] != "all":
            fw += " %s %s" % (e[0], ", ".join(e[1] + ["$" + v for v in e[2]]))
        p = c["pfx"] or ""
        mix = [p + "m", p + "n"] + (["m", "n"] if p else [])
        probes = " ".join('x%d: meta.mixin-exists("%s", "mid");' % (i, n) for i, n in enumerate(mix))
        main = ('@use "sass:meta"; @use "sass:map"; @use "mid"; a { k: inspect(meta.module-variables("mid")); '
                'f: inspect(map.keys(meta.module-functions("mid"))); %s }' % probes)
        return {"main.scss": main, "mid.scss": fw + ";", "lib.scss": LIB}
    if k == "fwdb":
        fw = '@forward "sass:math"'
        if c["pfx"]:
            fw += " as %s*" % c["pfx"]
        e = c["e"]
        if e[0] != "all":
            fw += " %s %s" % (e[0], ", ".join(e[1] + ["$" + v for v in e[2]]))
        numbers = fw + "; $own: 1 !default;"
        pi = (c["pfx"] or "") + "pi"
        act = c["act"]
        main = {"assign-builtin": '@use "numbers"; numbers.$%s: 3; a { x: numbers.$%s }' % (pi, pi),
                "assign-own": '@use "numbers"; numbers.$own: 3; a { x: numbers.$own }',
                "config-builtin": '@use "numbers" with ($%s: 3); a { x: numbers.$%s }' % (pi, pi),
                "read-builtin": '@use "numbers"; a { x: numbers.$%s }' % pi,
                "config-own": '@use "numbers" with ($own: 3); a { x: numbers.$own }'}[act]
        return {"main.scss": main, "numbers.scss": numbers}
    if k == "cfg":
        lib = " ".join("$%s: %d%s;" % (n, v, " !default" if d else "") for n, v, d in c["decls"])
        w = (" with (%s)" % ", ".join("$%s: %d" % (n, v) for n, v in c["cfg"])) if c["cfg"] else ""
        main = '@use "sass:meta"; @use "lib"%s; a { k: inspect(meta.module-variables("lib")) }' % w
        return {"main.scss": main, "lib.scss": lib}
    n = c["n"]
    main = ['@use "sass:math" with ($pi: 3); a { x: math.$pi }', '@use "sass:math"; math.$pi: 3; a { x: math.$pi }',
            '@use "sass:math"; a { x: math.floor(math.$pi) }'][n]
    return {"main.scss": main}


def impl_requests(c):
    fs = files_of(c)
    args = ["expanded", "10", "main.scss", "none"]
    for name, content in fs.items():
        args += [name, content]
    return [tuple(["files"] + args)]


def parse_map(txt):
    """`("p-v": 1, "w": 2)` / `()` -> [(name, int)]"""
    txt = txt.strip()
    if txt == "()":
        return []
    assert txt[0] == "(" and txt[-1] == ")", txt
    out = []
    for part in txt[1:-1].split(", "):
        k, v = part.split(": ")
        out.append((k.strip('"'), int(v)))
    return out


def parse_list(txt):
    txt = txt.strip()
    if txt == "()":
        return []
    txt = txt.strip("()")
    return [x.strip().strip('"') for x in txt.split(",") if x.strip()]


def decls_of(css):
    out = {}
    for line in css.decode("utf-8", "replace").split("\n"):
        m = re.match(r"^\s*([a-z0-9]+): (.*);$", line)
        if m:
            out[m.group(1)] = m.group(2)
    return out


def kv(l):
    return clist(["(%s, %s)" % (cstring(k), cz(v)) for k, v in l])


def impl_term(c, io):
    tag, f = io[0]
    if tag == "err":
        return "IErr"
    if tag != "ok":
        return "IOther"
    try:
        d = decls_of(f[0])
        k = c["k"]
        if k == "ns":
            return "IOkNs" if d.get("v") == "1" else "IOther"
        if k == "fwd":
            p = c["pfx"] or ""
            mix = [p + "m", p + "n"] + (["m", "n"] if p else [])
            mx = [n for i, n in enumerate(mix) if d["x%d" % i] == "true"]
            return "(IView %s %s %s)" % (kv(parse_map(d["k"])), clist([cstring(x) for x in parse_list(d["f"])]),
                                        clist([cstring(x) for x in mx]))
        if k == "cfg":
            return "(IVars %s)" % kv(parse_map(d["k"]))
        if k == "fwdb":
            v = d["x"]
            return "(IVal %s)" % cz(0 if v.startswith("3.14159") else int(v))
        return "IOk"
    except Exception:
        return "IOther"


def e_coq(e):
    if e[0] == "all":
        return "EAll"
    sl = lambda l: clist([cstring(x) for x in l])
    return "(%s %s %s)" % ("EShow" if e[0] == "show" else "EHide", sl(e[1]), sl(e[2]))


def input_term(c):
    k = c["k"]
    if k == "ns":
        return "(CNs %s)" % cstring(c["url"])
    if k == "fwd":
        return "(CFwd %s %s)" % (copt(cstring(c["pfx"]) if c["pfx"] else None), e_coq(c["e"]))
    if k == "fwdb":
        act = {"assign-builtin": "FAssignBuiltin", "assign-own": "FAssignOwn", "config-builtin": "FConfigBuiltin",
               "read-builtin": "FReadBuiltin", "config-own": "FConfigOwn"}[c["act"]]
        return "(CFwdB %s %s %s)" % (act, copt(cstring(c["pfx"]) if c["pfx"] else None), e_coq(c["e"]))
    if k == "cfg":
        ds = clist(["(%s, %s, %s)" % (cstring(n), cz(v), cbool(d)) for n, v, d in c["decls"]])
        return "(CCfg %s %s)" % (ds, kv(c["cfg"]))
    return "(CBuiltin %d%%nat)" % c["n"]


def coq_term(c, io):
    return f"(mkCase {input_term(c)} {impl_term(c, io)})"


KCLASS = {0: None, 2: "known_C37_K2_with_not_default",
          4: "known_C37_K4_forwarded_builtin_guard"}
KIND = {1: "namespace", 2: "forward-filter", 3: "with-config", 4: "builtin-guard", 5: "forwarded-builtin"}


def show(c):
    return " | ".join("%s: %s" % (n, s) for n, s in files_of(c).items())


def judge(c, io, r):
    corr, ok, k, kind = r
    return {
        "corr": corr == 1,
        "clauses": [(KIND[kind], ok == 1, KCLASS[k])],
        "nontrivial": True,
        "key": show(c),
        "tags": [KIND[kind], io[0][0]],
        "show": show(c),
        "detail": show(c),
    }


def shrink(c):
    if c["k"] == "fwd" and c["e"][0] != "all":
        e = c["e"]
        for j in (1, 2):
            for i in range(len(e[j])):
                ne = [e[0], list(e[1]), list(e[2])]
                del ne[j][i]
                if ne[1] or ne[2]:
                    yield dict(c, e=ne)
    if c["k"] == "cfg":
        for i in range(len(c["decls"])):
            if len(c["decls"]) > 1:
                yield dict(c, decls=c["decls"][:i] + c["decls"][i + 1:])
        for i in range(len(c["cfg"])):
            yield dict(c, cfg=c["cfg"][:i] + c["cfg"][i + 1:])


LEVEL_TEXT = ("proof: the model of do_use's default namespace is the base name for every directory part, base name, optional partial "
              "underscore and optional .scss/.sass/.css extension (F33 fixed by 18a59ef); ScopeRef::expose equals the reference show/hide filter for all "
              "member sets, prefixes and lists (F29 fixed by 2f8ada8); `with` "
              "configuration equals the reference for every module and every configuration of !default variables (refuted for "
              "non-default/unknown names), twice-configured is an error; tied to rsass by correspondence on generated module graphs")
LEVEL_NOTE = ("trusted: Coq kernel+vm_compute, the harness (in-memory loader), Spec/SassModule.v, probe parsing; "
              "one forwarding level; `as *`/`as name` and module identity are not part of the theorems")
TECHNIQUE = "Coq proof (list induction; invariants over environments) + differential correspondence on generated module graphs"
