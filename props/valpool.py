"""Value descriptions shared by C13/C28: python description -> SCSS source text and Coq ValueLite term.
A description is a tuple:
  ('num', src, float, unit, shown)   ('str', text, q)  q in 'none','double','single' (single evaluates to double)
  ('bool', b)  ('null',)  ('list', [items], sep, bracketed)  sep in None,'space','comma','slash'
  ('map', [(k, v), ...])      ('args', [items])  an argument list (only written through a `$a...` function parameter)
"""
import struct
from common import cz, cn, cbool, clist, cstring, ccps


def bits(x):
    return struct.unpack(">Q", struct.pack(">d", x))[0]


def num(src, unit="", shown=None):
    val = float(src[:len(src) - len(unit)] if unit else src)
    if shown is None:
        shown = src
    return ("num", src, val, unit, shown)


def s(text, q="none"):
    return ("str", text, q)


def lst(items, sep="space", br=False):
    return ("list", list(items), sep, br)


def mp(entries):
    return ("map", list(entries))


T, F, NULL = ("bool", True), ("bool", False), ("null",)
SEPTXT = {"space": " ", "comma": ", ", "slash": " / ", None: " "}
SEPCOQ = {"space": "(Some SSpace)", "comma": "(Some SComma)", "slash": "(Some SSlash)", None: "None"}


def src(v, top=False):
    """SCSS source text evaluating to v (always safely parenthesised for nesting)."""
    k = v[0]
    if k == "num":
        return v[1]
    if k == "str":
        t, q = v[1], v[2]
        if q == "none":
            return t
        qc = '"' if q == "double" else "'"
        return qc + t + qc
    if k == "bool":
        return "true" if v[1] else "false"
    if k == "null":
        return "null"
    if k == "list":
        items, sep, br = v[1], v[2], v[3]
        if not items:
            if sep is None:
                return "[]" if br else "()"
            # an empty list with a separator of its own can only be built
            e = "[]" if br else "()"
            return f"list.join({e}, {e}, $separator: {sep})"
        if sep == "slash" and len(items) >= 2:
            inner = "list.slash(" + ", ".join(src(i) for i in items) + ")"
            assert not br
            return inner
        if len(items) == 1:
            if sep == "comma":
                body = src(items[0]) + ","
            elif sep is None:
                # a one-element unbracketed list without separator is the element itself
                assert br, v
                body = src(items[0])
                assert body != "()", "`[()]` is read as `[]` by rsass; build this value another way"
            else:
                # one element with the separator space / slash: only through append
                return f"list.append({'[]' if br else '()'}, {src(items[0])}, $separator: {sep})"
        else:
            body = SEPTXT[sep].join(src(i) for i in items)
        return "[" + body + "]" if br else "(" + body + ")"
    if k == "map":
        if not v[1]:
            return "()"
        return "(" + ", ".join(src(a) + ": " + src(b) for a, b in v[1]) + ")"
    raise ValueError(v)


def coq(v):
    k = v[0]
    if k == "num":
        return f"(VNum {cz(bits(v[2]))} {cstring(v[3])} {ccps(v[4])})"
    if k == "str":
        q = {"none": "QNone", "double": "QDouble", "single": "QDouble"}[v[2]]
        return f"(VStr (mkStr {ccps(v[1])} {q}))"
    if k == "bool":
        return f"(VBool {cbool(v[1])})"
    if k == "null":
        return "VNull"
    if k == "list":
        return f"(VList {clist([coq(i) for i in v[1]])} {SEPCOQ[v[2]]} {cbool(v[3])})"
    if k == "args":
        return f"(VArgs {clist([coq(i) for i in v[1]])})"
    if k == "map":
        if not v[1]:
            return "(VList [] None false)"
        return "(VMap " + clist([f"({coq(a)}, {coq(b)})" for a, b in v[1]]) + ")"
    raise ValueError(v)
