"""C15 - Operators follow Sass precedence and associativity."""
import itertools, re
from common import *

ID = "C15"
GEN = ["Operators"]
THEOREMS = []   # filled below
COQ_HEADER = ("From Coq Require Import List NArith ZArith Bool.\n"
              "From RV Require Import Base.F64 Spec.SassExpr Model.ExprParse Model.ExprEval Run.C15.\n"
              "Import ListNotations.")
RUN_EXPR = "Run.C15.run"
RULE = ("expression trees over operands {0,1,2,true,false} with unary -/not and the 12 binary operators, printed with "
        "minimal parentheses: all trees with <= 1 binary operator (quick) / <= 2 (thorough), a seeded sample of trees with "
        "2-4 operators and random larger trees; distinct = distinct tree; non-trivial = at least two binary operators")
EXHAUSTIVE = {"quick": False, "thorough": False}
TRUSTED = ["Spec/SassExpr.v: precedence table, node semantics (incl. dart-sass moduloLikeSass) and minimal-parenthesis printer written from the Sass reference",
           "the token-level lexing of the canonical text (checked against parse_value_data's Debug output on every case)",
           "Base/FMod.v: exact fmod on the binary64 representation"]
ASSUMPTIONS = ["operands are small unitless integers and booleans; strings produced by `+`/`-` on booleans are outside the property (no claim)"]
SHARD = 250

OPS = {"or": "BOr", "and": "BAnd", "==": "BEq", "!=": "BNe", "<": "BLt", "<=": "BLe", ">": "BGt", ">=": "BGe",
       "+": "BPlus", "-": "BMinus", "*": "BMul", "%": "BMod"}
PREC = {"or": 1, "and": 2, "==": 3, "!=": 3, "<": 4, "<=": 4, ">": 4, ">=": 4, "+": 5, "-": 5, "*": 6, "%": 6}
LEAVES = [["n", 0], ["n", 1], ["n", 2], ["b", True], ["b", False]]
OPL = list(OPS)


# ---- independent printer (python side) ----
def tprec(t):
    return PREC[t[1]] if t[0] == "bin" else 7


def text_of(t):
    k = t[0]
    if k == "n":
        return str(t[1])
    if k == "b":
        return "true" if t[1] else "false"
    if k == "neg":
        if t[1][0] == "n":
            return "-" + str(t[1][1])
        return "-(" + text_of(t[1]) + ")"
    if k == "not":
        s = text_of(t[1])
        return "not " + ("(" + s + ")" if tprec(t[1]) < 7 else s)
    _, o, l, r = t
    ls, rs = text_of(l), text_of(r)
    if tprec(l) < PREC[o]:
        ls = "(" + ls + ")"
    if tprec(r) < PREC[o] + 1:
        rs = "(" + rs + ")"
    return f"{ls} {o} {rs}"


def tree_term(t):
    k = t[0]
    if k == "n":
        return f"(TNum {cn(t[1])})"
    if k == "b":
        return f"(TBool {cbool(t[1])})"
    if k == "neg":
        return f"(TNeg {tree_term(t[1])})"
    if k == "not":
        return f"(TNot {tree_term(t[1])})"
    return f"(TBin {OPS[t[1]]} {tree_term(t[2])} {tree_term(t[3])})"


def nbin(t):
    if t[0] == "bin":
        return 1 + nbin(t[2]) + nbin(t[3])
    if t[0] in ("neg", "not"):
        return nbin(t[1])
    return 0


def shapes(n):
    """all binary tree shapes with n internal nodes (None = leaf)."""
    if n == 0:
        return [None]
    out = []
    for k in range(n):
        for l in shapes(k):
            for r in shapes(n - 1 - k):
                out.append((l, r))
    return out


def fill(shape, ops, leaves):
    """instantiate a shape with iterators of operators and leaves."""
    if shape is None:
        return next(leaves)
    o = next(ops)
    l = fill(shape[0], ops, leaves)
    r = fill(shape[1], ops, leaves)
    return ["bin", o, l, r]


def all_trees(n):
    for sh in shapes(n):
        for ops in itertools.product(OPL, repeat=n):
            for lv in itertools.product(LEAVES, repeat=n + 1):
                yield fill(sh, iter(ops), iter(lv))


def rand_tree(rng, n, unary=0.15):
    if n == 0:
        t = rng.choice(LEAVES)
    else:
        k = rng.randrange(n)
        t = ["bin", rng.choice(OPL), rand_tree(rng, k, unary), rand_tree(rng, n - 1 - k, unary)]
    while rng.random() < unary:
        t = [rng.choice(["neg", "not"]), t]
    return t


def typed_tree(rng, n, ty, unary=0.12):
    """a tree whose Sass value is a number (ty='n') or a boolean (ty='b')."""
    if ty == "n":
        if n == 0:
            t = ["n", rng.choice([0, 1, 2, 2, 3])]
            if rng.random() < 0.25:
                t = ["neg", t]
            return t
        k = rng.randrange(n)
        t = ["bin", rng.choice(["+", "-", "*", "%"]), typed_tree(rng, k, "n", unary), typed_tree(rng, n - 1 - k, "n", unary)]
        if rng.random() < unary:
            t = ["neg", t]
        return t
    if n == 0:
        t = ["b", rng.random() < 0.5]
    else:
        k = rng.randrange(n)
        kind = rng.random()
        if kind < 0.3:
            t = ["bin", rng.choice(["<", "<=", ">", ">="]), typed_tree(rng, k, "n", unary), typed_tree(rng, n - 1 - k, "n", unary)]
        elif kind < 0.55:
            ty2 = rng.choice(["n", "b"])
            t = ["bin", rng.choice(["==", "!="]), typed_tree(rng, k, ty2, unary), typed_tree(rng, n - 1 - k, rng.choice([ty2, ty2, "n", "b"]), unary)]
        else:
            t = ["bin", rng.choice(["and", "or"]), typed_tree(rng, k, rng.choice(["b", "b", "n"]), unary),
                 typed_tree(rng, n - 1 - k, rng.choice(["b", "b", "n"]), unary)]
    if rng.random() < unary:
        t = ["not", t]
    return t


CORPUS = [
    ["bin", "or", ["bin", "and", ["b", False], ["b", False]], ["b", True]],                  # F22 a
    ["bin", "==", ["b", True], ["bin", "<", ["n", 1], ["n", 2]]],                          # F22 b
    ["bin", "%", ["neg", ["n", 2]], ["n", 2]],                                               # -2 % 2
    ["bin", "%", ["n", 2], ["neg", ["n", 2]]],
    ["bin", "==", ["bin", "<", ["b", True], ["n", 1]], ["bin", "<", ["b", True], ["n", 1]]],  # K4
    ["bin", "or", ["bin", "or", ["b", False], ["bin", "and", ["b", False], ["n", 1]]], ["n", 2]],
    ["bin", "and", ["bin", "or", ["b", False], ["b", True]], ["n", 2]],
    ["bin", "-", ["n", 1], ["bin", "-", ["n", 2], ["n", 1]]],
    ["bin", "-", ["bin", "-", ["n", 2], ["n", 1]], ["n", 1]],
    ["bin", "*", ["bin", "+", ["n", 1], ["n", 2]], ["n", 2]],
    ["bin", "+", ["n", 1], ["bin", "*", ["n", 2], ["n", 2]]],
    ["bin", "%", ["bin", "*", ["n", 2], ["n", 2]], ["bin", "+", ["n", 1], ["n", 2]]],
    ["bin", "<", ["bin", "+", ["n", 1], ["n", 1]], ["bin", "*", ["n", 2], ["n", 2]]],
    ["bin", "==", ["bin", "<", ["n", 1], ["n", 2]], ["b", True]],
    ["bin", "!=", ["bin", "==", ["n", 1], ["n", 2]], ["b", True]],
    ["not", ["bin", "==", ["n", 1], ["n", 2]]],
    ["bin", "==", ["not", ["n", 1]], ["n", 2]],
    ["neg", ["neg", ["n", 1]]],
    ["neg", ["not", ["b", True]]],
    ["not", ["not", ["b", True]]],
    ["not", ["neg", ["bin", "+", ["n", 1], ["n", 2]]]],
    ["bin", "-", ["n", 1], ["neg", ["n", 2]]],
    ["bin", "%", ["n", 1], ["n", 0]],
    ["bin", "and", ["bin", "and", ["n", 1], ["b", False]], ["bin", "*", ["b", True], ["n", 1]]],
    ["bin", "or", ["n", 1], ["bin", "*", ["b", True], ["n", 1]]],
]


def gen_cases(ctx, tier):
    rng = ctx.rng
    cases = [{"t": t} for t in CORPUS]
    for t in all_trees(0):
        cases.append({"t": t})
        cases.append({"t": ["neg", t]})
        cases.append({"t": ["not", t]})
    one = list(all_trees(1))
    cases += [{"t": t} for t in one]
    for t in one[::7]:
        cases.append({"t": [rng.choice(["neg", "not"]), t]})
    if tier == "quick":
        n2, n3, n4, nbig = 900, 500, 250, 150
    else:
        cases += [{"t": t} for t in all_trees(2)]
        n2, n3, n4, nbig = 0, 25000, 12000, 4000
    sh2, sh3, sh4 = shapes(2), shapes(3), shapes(4)
    for (n, shs, cnt) in ((2, sh2, n2), (3, sh3, n3), (4, sh4, n4)):
        for _ in range(cnt):
            sh = rng.choice(shs)
            t = fill(sh, iter([rng.choice(OPL) for _ in range(n)]), iter([rng.choice(LEAVES) for _ in range(n + 1)]))
            cases.append({"t": t})
    for _ in range(nbig):
        cases.append({"t": rand_tree(rng, rng.randrange(2, 8))})
    # trees that are well typed in Sass (a number or a boolean results)
    for _ in range(1800 if tier == "quick" else 30000):
        cases.append({"t": typed_tree(rng, rng.choice([1, 2, 2, 3, 3, 3, 4, 4, 5, 6, 8]), rng.choice(["n", "b", "b"]))})
    # chains that stress the two merged levels
    for _ in range(150 if tier == "quick" else 1500):
        n = rng.randrange(2, 6)
        ops = [rng.choice(["and", "or"]) for _ in range(n)] if rng.random() < 0.5 else \
              [rng.choice(["==", "!=", "<", "<=", ">", ">="]) for _ in range(n)]
        t = fill(rng.choice(shapes(n)), iter(ops), iter([rng.choice(LEAVES) for _ in range(n + 1)]))
        cases.append({"t": t})
    seen, out = set(), []
    for c in cases:
        k = json.dumps(c["t"])
        if k not in seen:
            seen.add(k)
            out.append(c)
    return out


def search_cases(ctx, broken):
    rng = ctx.rng
    return [{"t": t} for t in itertools.islice(all_trees(2), 0, None, 9)] + \
           [{"t": rand_tree(rng, rng.randrange(2, 6))} for _ in range(1500)]


def impl_requests(c):
    s = text_of(c["t"])
    return [("evalv", s), ("parsedbg", s)]


# ---- reading parse_value_data's Debug output back ----
DBG_OPS = {"Or": "BOr", "And": "BAnd", "Equal": "BEq", "NotEqual": "BNe", "Lesser": "BLt", "LesserE": "BLe",
           "Greater": "BGt", "GreaterE": "BGe", "Plus": "BPlus", "Minus": "BMinus", "Multiply": "BMul", "Modulo": "BMod"}


class DbgErr(Exception):
    pass


def parse_dbg(s):
    pos = 0

    def eat(lit):
        nonlocal pos
        if not s.startswith(lit, pos):
            raise DbgErr(f"expected {lit!r} at {pos}: {s[pos:pos+40]!r}")
        pos += len(lit)

    def val():
        nonlocal pos
        if s.startswith("BinOp(BinOp { a: ", pos):
            pos += len("BinOp(BinOp { a: ")
            a = val()
            m = re.compile(r", s1: (true|false), op: (\w+), s2: (true|false), b: ").match(s, pos)
            if not m or m.group(2) not in DBG_OPS:
                raise DbgErr("binop fields at %d" % pos)
            op = DBG_OPS[m.group(2)]
            pos = m.end()
            b = val()
            m2 = re.compile(r', pos: OwnedSpan \{ range: \d+\.\.\d+, data: "[^"]*" \} \}\)').match(s, pos)
            if not m2:
                raise DbgErr("binop pos at %d" % pos)
            pos = m2.end()
            return f"(ABin {op} {a} {b})"
        m = re.compile(r"Numeric\(Number\((-?)(\d+)\.0\); UnitSet \[\]\)").match(s, pos)
        if m:
            pos = m.end()
            return f"(ANum {cbool(m.group(1) == '-')} {cn(int(m.group(2)))})"
        if s.startswith("True", pos):
            pos += 4
            return "(ABool true)"
        if s.startswith("False", pos):
            pos += 5
            return "(ABool false)"
        if s.startswith("Paren(", pos):
            pos += 6
            a = val()
            eat(", false)")
            return f"(AParen {a})"
        m = re.compile(r"UnaryOp\((Minus|Not), ").match(s, pos)
        if m:
            pos = m.end()
            a = val()
            eat(")")
            return f"(AUn {'UNeg' if m.group(1) == 'Minus' else 'UNot'} {a})"
        raise DbgErr(f"unknown value at {pos}: {s[pos:pos+40]!r}")

    r = val()
    if pos != len(s):
        raise DbgErr("trailing text")
    return r


def impl_val(io):
    tag, f = io
    if tag == "ok" and f[0] == b"num":
        if f[2] != b"":
            return "VOther"
        return f"(VNum (of_bits {cz(int(f[1]))}))"
    if tag == "ok" and f[0] == b"val":
        if f[1] == b"bool":
            return f"(VBool {cbool(f[2] == b'true')})"
        return "VOther"
    if tag == "err":
        return "VErr"
    return "VUnmod"          # panic / crash: agrees with nothing


def coq_term(c, io):
    s = text_of(c["t"])
    tag, f = io[1]
    p = "None"
    if tag == "ok":
        try:
            p = f"(Some {parse_dbg(f[0].decode())})"
        except DbgErr:
            p = "(Some (AParen (AParen (ABool true))))"   # unreadable: cannot equal a model tree of this text
    return f"(mkCase {tree_term(c['t'])} {cbytes(s)} {p} {impl_val(io[0])})"


KCLASS = {0: None, 1: "known_C15_K1_and_before_or", 2: "known_C15_K2_eq_before_rel",
          4: "known_C15_K4_relational_on_bool"}


def judge(c, io, r):
    text_ok, cp, cv, clause, k, defined = r
    if io[0][0] in ("panic", "crash") or io[1][0] in ("panic", "crash"):
        corr = False
    elif text_ok == 0 or cp == 0 or cv == 0:
        corr = False
    elif cv == 2:
        corr = None
    else:
        corr = True
    t = c["t"]
    return {
        "corr": corr,
        "clauses": [("value-as-sass-groups", clause == 1, KCLASS[k])],
        "nontrivial": nbin(t) >= 2,
        "tags": [f"ops{min(nbin(t), 5)}", "defined" if defined else "error-or-string", f"class{k}"],
        "show": text_of(t),
        "detail": text_of(t),
    }


def shrink(c):
    t = c["t"]
    def subs(t):
        if t[0] in ("neg", "not"):
            yield t[1]
            for s in subs(t[1]):
                yield [t[0], s]
        elif t[0] == "bin":
            yield t[2]
            yield t[3]
            for s in subs(t[2]):
                yield ["bin", t[1], s, t[3]]
            for s in subs(t[3]):
                yield ["bin", t[1], t[2], s]
    for s in subs(t):
        yield {"t": s}


THEOREMS = ["C15_operators_tie", "C15_parse_print", "C15_chain_value", "C15_grouping", "C15_nodes_small", "C15_main",
            "C15_refuted_and_or", "C15_refuted_eq_rel", "C15_mod_fixed", "C15_refuted_rel_bool", "C15_small_trees"]

LEVEL_TEXT = ("proof: parse(print t) = canon t by induction on ALL trees over a fuelled model of the nom layering (outside class K2); the right-nested "
              "and/or chain has Sass's value outside K1; per-node operators agree with the reference on a small operand set by finite sweep "
              "(outside K3/K4); exhaustive vm_compute sweep of all small trees; the model is tied to the code by translating the operator / "
              "parser-layer tables on every run and by correspondence of BOTH the parse tree (Debug output) and the value on every case")
LEVEL_NOTE = ("trusted: Coq kernel+vm_compute, Flocq binary64, gen/gens/Operators.py, the harness, Spec/SassExpr.v; the full statement is false "
              "on the pinned tree in four recorded classes (F22a, F22b, F31; F30 fixed upstream by cc06893)")
TECHNIQUE = "Coq proof (induction on expression trees over a fuelled recursive-descent parser model) + translator + differential correspondence"
