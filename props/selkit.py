"""Shared helpers of the selector properties (C19, C22-C25): structured selectors as JSON-able
dicts, their source text, their Coq terms (Model/Sel.v), and random generators.

selector  = {"rel": None | [kind, selector], "c": compound}          kind in A P S J  (J = adjacent `+`)
compound  = {"br": bool, "el": str|None, "ph": [str], "cl": [str], "id": str|None,
             "at": [[name, op, val, quotes(0/1/2), mod|None]], "ps": [[name, is_element, arg]]}
arg       = None | ["o", text] | ["s", [selector, ...]]
"""
from common import cbytes, clist, cbool, copt, cn

KINDS = {"A": "Ancestor", "P": "Parent", "S": "Sibling", "J": "Adjacent"}
SYM = {"A": None, "P": ">", "S": "~", "J": "+"}


def comp(el=None, cl=(), id=None, ph=(), at=(), ps=(), br=False):
    return {"br": br, "el": el, "ph": list(ph), "cl": list(cl), "id": id,
            "at": [list(a) for a in at], "ps": [list(p) for p in ps]}


def sel(c, rel=None):
    return {"rel": rel, "c": c}


def chain(*parts):
    """chain(c0, 'P', c1, 'A', c2) = `c0 > c1 c2`."""
    s = sel(parts[0])
    i = 1
    while i < len(parts):
        s = sel(parts[i + 1], [parts[i], s])
        i += 2
    return s


def comp_empty(c):
    return not (c["br"] or c["el"] is not None or c["ph"] or c["cl"] or c["id"] is not None or c["at"] or c["ps"])


# ---------------------------------------------------------------- source text
def t_attr(a):
    name, op, val, q, mod = a
    v = val if q == 0 else ('"' + val + '"' if q == 1 else "'" + val + "'")
    return "[" + name + op + v + ((" " + mod) if mod else "") + "]"


def t_arg(arg, sep=", "):
    if arg is None:
        return ""
    if arg[0] == "o":
        return "(" + arg[1] + ")"
    return "(" + sep.join(t_sel(s) for s in arg[1]) + ")"


def t_pseudo(p):
    name, el, arg = p
    return (":" if not el else "::") + name + t_arg(arg)


def t_comp(c):
    out = "&" if c["br"] else ""
    if c["el"] is not None:
        out += c["el"]
    out += "".join("%" + p for p in c["ph"])
    if c["id"] is not None:
        out += "#" + c["id"]
    out += "".join("." + x for x in c["cl"])
    out += "".join(t_attr(a) for a in c["at"])
    out += "".join(t_pseudo(p) for p in c["ps"])
    return out


def t_sel(s):
    out = ""
    if s["rel"] is not None:
        k, r = s["rel"]
        left = t_sel(r)
        if SYM[k] is None:
            out = left + " "
        else:
            out = (left + " " if left else "") + SYM[k] + " "
    return out + t_comp(s["c"])


def t_sels(l):
    return ", ".join(t_sel(s) for s in l)


# ---------------------------------------------------------------- Coq terms
def q_text(s):
    return cbytes(s)


def q_attr(a):
    name, op, val, q, mod = a
    m = "None" if not mod else f"(Some {ord(mod)}%N)"
    return f"(mkAttr {q_text(name)} {q_text(op)} {q_text(val)} {q}%N {m})"


def q_arg(arg):
    if arg is None:
        return "ArgNone"
    if arg[0] == "o":
        return f"(ArgOther {q_text(arg[1])})"
    return f"(ArgSel {q_sels(arg[1])})"


def q_pseudo(p):
    name, el, arg = p
    return f"(Pseudo {q_text(name)} {cbool(el)} {q_arg(arg)})"


def q_comp(c):
    el = "None" if c["el"] is None else f"(Some {q_text(c['el'])})"
    i = "None" if c["id"] is None else f"(Some {q_text(c['id'])})"
    base = (f"(mkBase {cbool(c['br'])} {el} {clist([q_text(x) for x in c['ph']])} "
            f"{clist([q_text(x) for x in c['cl']])} {i} {clist([q_attr(a) for a in c['at']])})")
    return f"(Comp {base} {clist([q_pseudo(p) for p in c['ps']])})"


def q_sel(s):
    if s["rel"] is None:
        r = "None"
    else:
        r = f"(Some ({KINDS[s['rel'][0]]}, {q_sel(s['rel'][1])}))"
    return f"(Sel {r} {q_comp(s['c'])})"


def q_sels(l):
    return clist([q_sel(s) for s in l])


def q_otext(b):
    return "None" if b is None else f"(Some {cbytes(b)})"


# ---------------------------------------------------------------- generators
ELEMS = ["a", "b", "div", "span", "*"]
CLASSES = ["c", "d", "foo", "x1"]
IDS = ["i", "j"]
PHS = ["p", "q"]
ATTRS = [["x", "", "", 0, None], ["x", "=", "y", 0, None], ["x", "=", "v w", 1, None], ["lang", "~=", "1", 2, None],
         ["x", "=", "y", 0, "i"], ["y", "^=", "z z", 1, "s"]]
PLAIN_PS = [["hover", False, None], ["focus", False, None], ["first-child", False, None], ["before", False, None],
            ["after", True, None], ["root", False, None]]
OTHER_PS = [["foo", False, ["o", "x/y"]], ["bar", False, ["o", "a=b"]]]     # not accepted by the SCSS-level parser
SEL_PS = ["not", "is", "where", "matches", "has", "-moz-any", "-webkit-not", "host", "current", "slotted", "nth-child"]


def gen_comp(rng, depth, ph=0.0, sel_ps=0.4, allow_star=True, rich=True, other=False):
    c = comp()
    r = rng.random()
    if r < 0.55:
        c["el"] = rng.choice(ELEMS if allow_star else ELEMS[:-1])
    if rng.random() < ph:
        c["ph"] = rng.sample(PHS, rng.choice([1, 1, 2]))
    if rng.random() < 0.15:
        c["id"] = rng.choice(IDS)
    n = rng.choice([0, 0, 1, 1, 2])
    c["cl"] = rng.sample(CLASSES, n)
    if rich and rng.random() < 0.15:
        c["at"] = [list(rng.choice(ATTRS))]
    if rich and rng.random() < 0.2:
        c["ps"].append(list(rng.choice(PLAIN_PS + OTHER_PS if other else PLAIN_PS)))
    if depth > 0:
        while rng.random() < sel_ps and len(c["ps"]) < 3:
            name = rng.choice(SEL_PS if rich else SEL_PS[:5])
            inner = gen_sels(rng, depth - 1, ph=min(0.7, ph * 1.6), nmax=2, lead=0.0, rich=rich, other=other)
            c["ps"].append([name, name == "slotted", ["s", inner]])
    if comp_empty(c):
        c["cl"] = [rng.choice(CLASSES)]
    return c


def gen_sel(rng, depth, ph=0.0, lead=0.0, maxlen=3, **kw):
    n = rng.choice([1, 1, 1, 2, 2, 3][:max(1, 2 * maxlen)])
    s = sel(gen_comp(rng, depth, ph, **kw))
    if rng.random() < lead:
        s = sel(s["c"], [rng.choice("PSJ"), sel(comp())])
    for _ in range(n - 1):
        s = sel(gen_comp(rng, depth, ph, **kw), [rng.choice("AAPSJ"), s])
    return s


def gen_sels(rng, depth, ph=0.0, nmax=3, lead=0.0, **kw):
    return [gen_sel(rng, depth, ph, lead, **kw) for _ in range(rng.randint(1, nmax))]


def emitted_selector(css):
    """Selector text of the single rule in expanded output; None when nothing was emitted."""
    if css.strip() == b"":
        return None
    i = css.find(b" {\n")
    if i < 0:
        return None
    return css[:i]
