"""C28 - List functions follow the Sass list model."""
import re
from common import *
from valpool import *

ID = "C28"
GEN = ["Units"]
THEOREMS = ["C28_index_of", "C28_nth", "C28_set_nth", "C28_append", "C28_join", "C28_index", "C28_zip",
            "C28_length_separator_bracketed", "C28_map_as_pairs", "C28_refines", "C28_list_eq", "C28_short_list_sep_matters"]
COQ_HEADER = ("From Coq Require Import String List NArith ZArith.\nFrom RV Require Import Model.CssStr Model.ValueLite Run.C28.\n"
              "Import ListNotations.\nLocal Open Scope list_scope.")
RUN_EXPR = "Run.C28.run"
RULE = ("one call of length/separator/is-bracketed/nth/set-nth/append/join/index/zip on generated values: lists of 0-6 items "
        "(numbers in several spellings, quoted/unquoted strings, null, booleans, nested lists and maps) with every "
        "separator (space, comma, slash, none) x bracket combination that can be written or built (0- and 1-element lists with an "
        "explicit separator through append/join; outer lists of such short lists searched by index; == between them in both orders), singleton values, maps of 0-3 "
        "entries, argument lists (through a `$a...` parameter; empty and non-empty ones also as first list of append/join "
        "with the separator left to auto); nth/set-nth with every index in [-len-2, len+2] plus huge "
        "ones; distinct = distinct call; non-trivial = the list argument is not a plain unbracketed space list")
EXHAUSTIVE = {"quick": False, "thorough": False}
TRUSTED = ["Spec/SassLists.v: reference list semantics written from the Sass documentation",
           "Model/ValueLite.v inspect (the introspection formatter of css/valueformat.rs) is shared by model and reference",
           "number printing is taken from rsass (the `shown` text of pool numbers)"]
ASSUMPTIONS = ["indices are integer literals; the index argument is modelled as the i64 obtained from the literal's f64",
               "list.slash and argument lists with keyword arguments / trailing comma are not modelled"]

ITEMS = [num("1"), num("2"), num("3"), num("1.0", shown="1"), num("1px", "px"), s("a"), s("a", "double"), s("b"), s("c", "single"),
         NULL, T, F,
         lst([num("1"), num("2")]), lst([s("a"), s("b")], "comma"), lst([s("c")], None, True), lst([num("1")], "comma"),
         lst([], None), lst([], None, True), mp([(s("a"), num("1"))]), mp([(s("a"), num("1")), (s("b"), num("2"))]),
         lst([lst([num("1"), num("2")]), num("3")], "comma"), lst([s("a"), s("b")], "slash")]


def rand_list(rng, maxn=6):
    """a value used as list argument"""
    r = rng.random()
    if r < 0.10:
        return rng.choice(ITEMS)                      # singleton value / pool list / map
    if r < 0.20:
        n = rng.randint(0, 3)
        keys = rng.sample([s("a"), s("b"), num("1"), s("c", "double"), lst([num("1"), num("2")])], n)
        return mp([(k, rng.choice(ITEMS)) for k in keys])
    if r < 0.30:
        return ("args", [rng.choice(ITEMS) for _ in range(rng.randint(0, 4))])
    n = rng.choice([0, 1, 1, 2, 2, 3, 3, 4, 5, 6][:maxn + 4])
    items = [rng.choice(ITEMS) for _ in range(n)]
    br = rng.random() < 0.4
    if n == 0:
        return lst([], None, br)
    if n == 1:
        # `[()]` cannot be used for the one-element bracketed list holding an empty list: rsass reads it as `[]`
        # (a parser matter outside this property, reported in notes/C28.md)
        writes_as_empty_parens = items[0] in (lst([], None), mp([]))
        if rng.random() < 0.5 or not br or writes_as_empty_parens:
            return lst(items, "comma", br)
        return lst(items, None, True)
    sep = rng.choice(["space", "comma", "space", "comma", "slash"])
    if sep == "slash":
        br = False
    return lst(items, sep, br)


# 0- and 1-element lists that differ only in separator / brackets (== must tell them apart)
def shorts():
    out = []
    for br in (False, True):
        for sep in (None, "space", "comma", "slash"):
            out.append(lst([], sep, br))
            for x in (s("a"), num("1")):
                if sep is None and not br:
                    continue
                out.append(lst([x], sep, br))
    return out


SHORTS = shorts()


def rand_short_outer(rng):
    """an outer list of 2-4 short lists (mostly the same content with different separators) and a probe among them"""
    base = rng.choice([[], [s("a")], [num("1")]])
    same = [v for v in SHORTS if v[1] == base]
    n = rng.randint(2, 4)
    items = [rng.choice(same) if rng.random() < 0.8 else rng.choice(SHORTS + [s("a"), s("b")]) for _ in range(n)]
    probe = rng.choice(items[1:] if rng.random() < 0.7 else items + same)
    return lst(items, rng.choice(["comma", "space"]), rng.random() < 0.3), probe


def length_of(v):
    k = v[0]
    if k in ("list", "args"):
        return len(v[1])
    if k == "map":
        return len(v[1])
    return 1


SEPV = [None, None, None, s("comma"), s("space"), s("slash"), s("auto"), s("comma", "double"), s("foo"), num("1")]
BRAV = [None, None, None, T, F, NULL, s("auto"), s("foo"), s("auto", "double"), num("0")]


def gen_cases(ctx, tier):
    rng = ctx.rng
    cases = []
    # corpus: known-finding witnesses, boundary shapes
    A3 = ("args", [num("1"), num("2"), num("3")])
    cases += [{"fn": "index", "l": A3, "x": num("2")}, {"fn": "length", "l": NULL},
              {"fn": "nth", "l": lst([num("1"), num("2")]), "n": 9223372036854775807},
              {"fn": "nth", "l": lst([num("1"), num("2")]), "n": -9223372036854775808},
              {"fn": "nth", "l": NULL, "n": 1}, {"fn": "zip", "ls": []},
              {"fn": "zip", "ls": [mp([(s("a"), num("1")), (s("b"), num("2"))]), num("1")]},
              {"fn": "set_nth", "l": mp([(s("a"), num("1")), (s("b"), num("2"))]), "n": -1, "x": s("c")},
              {"fn": "join", "l1": lst([], None), "l2": lst([], None), "sep": s("comma"), "bra": None},
              {"fn": "append", "l": lst([], None), "x": num("1"), "sep": s("comma")},
              {"fn": "join", "l1": NULL, "l2": NULL, "sep": None, "bra": None},
              {"fn": "index", "l": mp([(s("a"), num("1"))]), "x": lst([s("a", "double"), num("1.0", shown="1")])},
              {"fn": "index", "l": lst([num("1"), num("1.0", shown="1")]), "x": num("1.0", shown="1")}]
    nl = 45 if tier == "quick" else 500
    for _ in range(nl):
        l = rand_list(rng)
        n = length_of(l)
        for i in range(-n - 2, n + 3):
            cases.append({"fn": "nth", "l": l, "n": i})
        for i in rng.sample(range(-n - 2, n + 3), min(4, 2 * n + 5)):
            cases.append({"fn": "set_nth", "l": l, "n": i, "x": rng.choice(ITEMS)})
        cases.append({"fn": "nth", "l": l, "n": rng.choice([2 ** 31, -2 ** 31, 2 ** 53 + 1, -2 ** 63, 2 ** 63, 10 ** 19, 2 ** 32 + 1])})
    # seeded change C28-1: the separator of a short list is part of its identity
    SP1, CM1 = lst([s("a")], "space"), lst([s("a")], "comma")
    cases += [{"fn": "index", "l": lst([SP1, CM1, s("b")], "comma"), "x": CM1},
              {"fn": "index", "l": lst([lst([], "space"), lst([], "comma")], "comma"), "x": lst([], "comma")},
              {"fn": "eq", "a": SP1, "b": CM1}, {"fn": "eq", "a": CM1, "b": SP1},
              {"fn": "eq", "a": lst([], "space"), "b": lst([], None)}, {"fn": "eq", "a": lst([s("a")], None, True), "b": lst([s("a")], "space", True)}]
    # seeded change C28-2: an argument list (also the EMPTY one) is a comma list when it is the first list of
    # append / join with the separator left to auto
    E0 = ("args", [])
    cases += [{"fn": "append", "l": E0, "x": s("x"), "sep": None}, {"fn": "append", "l": E0, "x": s("x"), "sep": s("auto")},
              {"fn": "join", "l1": E0, "l2": lst([s("y"), s("z")]), "sep": None, "bra": None},
              {"fn": "join", "l1": E0, "l2": lst([], None), "sep": None, "bra": None},
              {"fn": "join", "l1": E0, "l2": s("y"), "sep": s("auto"), "bra": T},
              {"fn": "separator", "l": E0}, {"fn": "length", "l": E0}, {"fn": "set_nth", "l": E0, "n": 1, "x": s("x")},
              {"fn": "append", "l": ("args", [num("1")]), "x": s("x"), "sep": None},
              {"fn": "join", "l1": ("args", [num("1"), num("2")]), "l2": lst([s("y"), s("z")]), "sep": None, "bra": None}]
    for _ in range(25 if tier == "quick" else 250):
        a = ("args", [rng.choice(ITEMS) for _ in range(rng.choice([0, 0, 0, 1, 2, 3]))])
        cases.append({"fn": "append", "l": a, "x": rng.choice(ITEMS), "sep": rng.choice([None, None, s("auto")])})
        l2 = rand_list(rng, 3)
        if l2[0] == "args":
            l2 = lst(l2[1], "comma") if l2[1] else lst([], None)
        cases.append({"fn": "join", "l1": a, "l2": l2, "sep": rng.choice([None, None, s("auto")]), "bra": rng.choice(BRAV)})
        cases.append({"fn": rng.choice(["separator", "length", "is_bracketed"]), "l": a})
    for _ in range(70 if tier == "quick" else 700):
        outer, probe = rand_short_outer(rng)
        cases.append({"fn": "index", "l": outer, "x": probe})
        a, b = rng.choice(SHORTS), rng.choice(SHORTS)
        if rng.random() < 0.6:
            b = rng.choice([v for v in SHORTS if v[1] == a[1]])
        cases.append({"fn": "eq", "a": a, "b": b})
        cases.append({"fn": "eq", "a": b, "b": a})
    nr = 90 if tier == "quick" else 1200
    for _ in range(nr):
        cases.append({"fn": rng.choice(["length", "separator", "is_bracketed"]), "l": rand_list(rng)})
        cases.append({"fn": "append", "l": rand_list(rng), "x": rng.choice(ITEMS), "sep": rng.choice(SEPV)})
        l1 = rand_list(rng, 3)
        l2 = rand_list(rng, 3)
        if l2[0] == "args" and l1[0] != "args":
            l2 = lst(l2[1], "comma") if l2[1] else lst([], None)
        if l1[0] == "args" and l2[0] == "args":
            l2 = NULL
        cases.append({"fn": "join", "l1": l1, "l2": l2, "sep": rng.choice(SEPV), "bra": rng.choice(BRAV)})
        l = rand_list(rng)
        x = rng.choice(ITEMS)
        if rng.random() < 0.6:
            if l[0] in ("list", "args") and l[1]:
                x = rng.choice(l[1])
            elif l[0] == "map" and l[1]:
                x = lst(list(rng.choice(l[1])))
        cases.append({"fn": "index", "l": l, "x": x})
        ls = [rand_list(rng, 3) for _ in range(rng.choice([0, 1, 2, 2, 3, 4]))]
        ls = [(lst(v[1], "comma") if v[1] else lst([], None)) if v[0] == "args" else v for v in ls]
        cases.append({"fn": "zip", "ls": ls})
    return cases


def search_cases(ctx, broken):
    return gen_cases(ctx, "quick")


def opt_named(name, v):
    return "" if v is None else f", ${name}: {src(v)}"


def program(c):
    """SCSS source; an argument list in first position is produced through a `$a...` parameter"""
    f = c["fn"]
    if f == "eq":
        return '@use "sass:list";\na {\n  r: inspect(' + src(c["a"]) + " == " + src(c["b"]) + ");\n}\n"
    first = c.get("l", c.get("l1"))
    la = "$a" if first is not None and first[0] == "args" else (src(first) if first is not None else None)
    if f == "length":
        e = f"list.length({la})"
    elif f == "separator":
        e = f"list.separator({la})"
    elif f == "is_bracketed":
        e = f"list.is-bracketed({la})"
    elif f == "nth":
        e = f"list.nth({la}, {c['n']})"
    elif f == "set_nth":
        e = f"list.set-nth({la}, {c['n']}, {src(c['x'])})"
    elif f == "append":
        e = f"list.append({la}, {src(c['x'])}{opt_named('separator', c['sep'])})"
    elif f == "join":
        e = f"list.join({la}, {src(c['l2'])}{opt_named('separator', c['sep'])}{opt_named('bracketed', c['bra'])})"
    elif f == "index":
        e = f"list.index({la}, {src(c['x'])})"
    elif f == "zip":
        e = "list.zip(" + ", ".join(src(v) for v in c["ls"]) + ")"
    else:
        raise ValueError(f)
    if la == "$a":
        return ('@use "sass:list";\n@function f($a...) { @return ' + e + "; }\n"
                "a {\n  r: inspect(f(" + ", ".join(src(i) for i in first[1]) + "));\n}\n")
    return '@use "sass:list";\na {\n  r: inspect(' + e + ");\n}\n"


def impl_requests(c):
    return [("scss", "expanded", "10", program(c))]


LINE = re.compile(rb"^  r: (.*);$", re.M)


def impl_text(io):
    tag, f = io[0]
    if tag == "err":
        return None
    if tag != "ok":
        return "bad"
    m = LINE.search(f[0])
    return m.group(1) if m else "bad"


AUTO = s("auto")


def call_term(c):
    f = c["fn"]
    if f == "length":
        return f"CLength {coq(c['l'])}"
    if f == "separator":
        return f"CSeparator {coq(c['l'])}"
    if f == "is_bracketed":
        return f"CIsBracketed {coq(c['l'])}"
    if f == "nth":
        return f"CNth {coq(c['l'])} {cz(c['n'])}"
    if f == "set_nth":
        return f"CSetNth {coq(c['l'])} {cz(c['n'])} {coq(c['x'])}"
    if f == "append":
        return f"CAppend {coq(c['l'])} {coq(c['x'])} {coq(c['sep'] or AUTO)}"
    if f == "join":
        return f"CJoin {coq(c['l1'])} {coq(c['l2'])} {coq(c['sep'] or AUTO)} {coq(c['bra'] or AUTO)}"
    if f == "index":
        return f"CIndex {coq(c['l'])} {coq(c['x'])}"
    if f == "zip":
        return f"CZip {clist([coq(v) for v in c['ls']])}"
    if f == "eq":
        return f"CEq {coq(c['a'])} {coq(c['b'])}"
    raise ValueError(f)


def coq_term(c, io):
    t = impl_text(io)
    if t == "bad":
        impl = "(Some [0%N])"
    elif t is None:
        impl = "None"
    else:
        impl = f"(Some {cbytes(t)})"
    return f"(mkCase ({call_term(c)}) {impl})"


KCLASS = {0: None}


def judge(c, io, r):
    corr, cl, k = r
    first = c.get("l", c.get("l1", c.get("a")))
    plain = first is not None and first[0] == "list" and first[2] == "space" and not first[3]
    return {
        "corr": corr == 1 and io[0][0] in ("ok", "err"),
        "clauses": [("list-model", cl == 1, KCLASS[k])],
        "nontrivial": not plain,
        "tags": [c["fn"], (first[0] if first is not None else "none")] + (["error"] if io[0][0] == "err" else []),
        "show": program(c).replace("\n", " "),
        "detail": program(c),
    }


def shrink(c):
    for key in ("l", "l1", "l2", "a", "b"):
        v = c.get(key)
        if v is not None and v[0] in ("list", "args") and v[1]:
            for i in range(len(v[1])):
                items = v[1][:i] + v[1][i + 1:]
                if v[0] == "list" and len(items) == 1 and v[2] in ("space", "slash"):
                    continue
                if v[0] == "list" and not items:
                    yield dict(c, **{key: lst([], None, v[3])})
                else:
                    yield dict(c, **{key: (v[0], items) + tuple(v[2:])})


LEVEL_TEXT = ("proof: sass/functions/list.rs modelled on a small value type (get_list, index_of, every function); laws for all "
              "lists and all integer indices (nth/set-nth accept exactly 1..n and -n..-1, set-nth changes one element, "
              "append/join concatenate with the documented separator/bracket choice, index is the first == position, zip "
              "has min length) and refinement of every function to a reference semantics (index on a map by correspondence only); tied to "
              "rsass by byte-exact inspect() output on generated calls")
LEVEL_NOTE = "F31 (list.index on an argument list) and F32 (list.length(null)) were fixed in /repo by 0cb45e1 and 24d2171; no open finding"
TECHNIQUE = "Coq proof (induction over lists, arithmetic over Z) + differential correspondence through inspect()"
