"""C33 - Emitted colour text denotes the computed colour."""
import struct, re
from common import *
import C31 as base

ID = "C33"
GEN = ["Colors", "Units", "Operators"]
THEOREMS = ["C33_names", "C33_hex", "C33_byte_path", "C33_transparent", "C33_rgb_grid_partial", "C33_hsl_grid_partial", "C33_hwb_grid_partial"]
COQ_HEADER = ("From Coq Require Import String List NArith ZArith Bool.\n"
              "From RV Require Import Run.C31 Run.C33.\nImport ListNotations.\nLocal Open Scope string_scope.")
RUN_EXPR = "Run.C33.run"
RULE = ("colours from rgb()/hsl()/hwb() with random and boundary channels, rgba(#hex, alpha) and rgba(name, 1) for every named colour, "
        "printed in expanded and compressed style; distinct = distinct expression; non-trivial = the text is not the input text")
EXHAUSTIVE = {"quick": False, "thorough": False}
TRUSTED = ["Spec/CssColorRead.v: reference reader of CSS colour text; Spec/CssColorTable.v: CSS named colours transcribed from the npm package color-name",
           "Rust str::parse::<f64> is correctly rounded"]
ASSUMPTIONS = ["model text only when every printed channel is dyadic with <= 10 fractional bits; the `denotes` clause is checked on every case",
               "literal colours that are echoed with their source text (`red`, `#AbC`) are not exercised: every case is a computed colour"]
SHARD = 150


def gen_cases(ctx, tier):
    rng = ctx.rng
    cases = []
    for c in base.gen_cases(ctx, tier):
        if c["k"] in ("rgb", "hsl", "hwb"):
            cases.append(c)
    for name, v in base.color_names():
        cases.append({"k": "rgbaof", "in": [v >> 16, (v >> 8) & 255, v & 255, 1.0], "name": name})
    cases.append({"k": "rgbaof", "in": [0, 0, 0, 0.0], "name": None})
    for _ in range(150 if tier == "quick" else 3000):
        r = rng.random()
        if r < 0.3:
            b = [rng.randrange(16) * 17 for _ in range(3)]
        else:
            b = [rng.randrange(256) for _ in range(3)]
        a = rng.choice([1.0, 1.0, 1.0, 0.5, 0.0, 0.25, 0.75, 1.5, 0.125])
        cases.append({"k": "rgbaof", "in": b + [a], "name": None})
    # integer rgb() with short-hex / named values
    for _ in range(80 if tier == "quick" else 1500):
        b = [rng.randrange(16) * 17 for _ in range(3)] if rng.random() < 0.5 else [rng.choice([0, 255, 128, 192]) for _ in range(3)]
        cases.append({"k": "rgb", "in": [float(x) for x in b] + [1.0]})
    seen, out = set(), []
    for c in cases:
        s = expr_of(c)
        if s not in seen:
            seen.add(s)
            out.append(c)
    return out


def expr_of(c):
    if c["k"] == "rgbaof":
        v = c["in"]
        src = c.get("name") or "#%02x%02x%02x" % tuple(v[:3])
        return f"rgba({src}, {base.ntext(v[3])})"
    return base.expr_of(c)


def impl_requests(c):
    return [("color", expr_of(c))]


def coq_term(c, io):
    k = c["k"]
    kind = {"rgb": "KRgb", "hsl": "KHsl", "hwb": "KHwb", "rgbaof": "KRgbaOf"}[k]
    if k == "rgbaof":
        ins = clist([cz(x) for x in c["in"][:3]] + [cz(base.bits(c["in"][3]))])
    else:
        ins = clist([cz(base.bits(x)) for x in c["in"]])
    tag, f = io[0]
    if tag == "ok":
        rg = clist([cz(int(x)) for x in f[5:9]])
        def txt(b):
            return "None" if any(x < 32 or x > 126 for x in b) else f"(Some {cbytes(b)})"
        return f"(Run.C33.mkCase {kind} {ins} {rg} {txt(f[17])} {txt(f[18])})"
    return f"(Run.C33.mkCase {kind} {ins} [] None None)"


def judge(c, io, r):
    ce, cc, de, dc = r
    corr = None
    if io[0][0] in ("panic", "crash") or ce == 0 or cc == 0:
        corr = False
    elif ce == 1 or cc == 1:
        corr = True
    if io[0][0] == "err":
        corr = False
    txt = io[0][1][17].decode("ascii", "replace") if io[0][0] == "ok" else "?"
    return {"corr": corr,
            "clauses": [("expanded-text-denotes-colour", de == 1, None), ("compressed-text-denotes-colour", dc == 1, None)],
            "nontrivial": True,
            "tags": [c["k"], "modelled" if (ce == 1 and cc == 1) else "partly"],
            "show": expr_of(c) + " -> " + txt, "detail": expr_of(c)}


LEVEL_TEXT = ("proof: for every rgba value Display treats as a byte triple, the chosen notation (name / short hex / long hex) denotes exactly "
              "those bytes in both styles (case analysis; hex digits by sweep; the name table regenerated from rgba.rs against an independent CSS "
              "table by sweep); decimal rgb()/rgba()/hsl() notations on finite grids; the emitted text of every generated colour is decoded "
              "by the reference reader inside Coq and compared with the implementation's own rgba value")
LEVEL_NOTE = ("trusted: Coq kernel+vm_compute, Flocq binary64, gen/gens/Colors.py, harness command `color`, Spec/CssColorRead.v and the transcribed "
              "CSS colour table; decimal accuracy for arbitrary channels is not proved (grids only)")
TECHNIQUE = "Coq proof (finite sweeps: hex digits, name table against an independent CSS table, byte grid) + translator + differential correspondence"
