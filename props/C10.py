"""C10 - Numbers are printed as correctly rounded decimals."""
import struct
from common import *

ID = "C10"
GEN = []
THEOREMS = ["C10_fraction_len", "C10_refuted_precision0", "C10_sig16", "C10_refuted_pow10", "C10_refuted_1e15",
            "C10_syntax", "C10_no_trailing_zero", "C10_render_parses", "C10_nonfinite", "C10_calc_wrap",
            "C10_whole_digits", "C10_round_partial"]
COQ_HEADER = ("From Coq Require Import List ZArith NArith.\nFrom RV Require Import Run.C10.\n"
              "Import ListNotations.\nLocal Open Scope Z_scope.")
RUN_EXPR = "Run.C10.run"
RULE = ("(bit pattern, precision 0..20, style) with bit patterns from: random doubles per exponent class, decimal "
        "literals of <= 17 digits, +-1..3 ulp neighbours of decimal ties and of x.999.., powers of ten and neighbours "
        "(validates the exact ceil(log10) choice), 10^k+fraction, subnormals, 2^53 neighbourhood, huge integers, "
        "+-0, +-inf, NaN; plus decimal literals and non-finite expressions printed as CSS values (compile_value); "
        "distinct = distinct (bits, precision, style, kind); non-trivial = finite non-integer value")
EXHAUSTIVE = {"quick": False, "thorough": False}
TRUSTED = ["Spec/DecRound.v: exact rational reading of a decimal numeral and of a binary64; syntax / places / rounding predicates written from the property text",
           "libm oracle: `whole.log10().ceil()` is modelled by the exact function clog10 (least k with 10^k >= whole); the two can differ only for 10^15 < whole <= 10^15+2 where both give the same text; validated by correspondence on all powers of ten and neighbours on every run",
           "Rust std `Display for f64` on integer values is modelled as: exact digits below 2^53, shortest round-trip digits (ties up) zero-padded above; validated by correspondence",
           "C10_no_trailing_zero / C10_render_parses are proved for every instance of the digit loop whose float primitives satisfy the contract `prims_ok` (digits of |f*10| in 0..9, rounded last digit in 0..10, an exact integer product is a non-zero digit); for the Flocq binary64 instance this contract is validated by the bit-exact correspondence, not proved"]
ASSUMPTIONS = ["rounding accuracy for all doubles is not proved (C10_round_partial covers doubles without fraction); it is decided on the explored inputs against the exact rational reference"]


def bits(x):
    return struct.unpack(">Q", struct.pack(">d", x))[0]


def fl(b):
    return struct.unpack(">d", struct.pack(">Q", b & (2**64 - 1)))[0]


def nudge(b, k):
    """k ulps away in magnitude, staying finite and same sign"""
    mag = b & (2**63 - 1)
    mag = max(0, min(0x7FEFFFFFFFFFFFFF, mag + k))
    return (b & 2**63) | mag


SPECIAL = [0.0, -0.0, float("inf"), float("-inf"), float("nan"), 5e-324, -5e-324, 2.2250738585072014e-308,
           1.7976931348623157e308, -1.7976931348623157e308, 2.0**53, 2.0**53 - 1, 2.0**53 + 2, 2.0**52 + 0.5,
           2.0**52 - 0.5, 2.0**63, 2.0**64, 1e23, 1e22, 9.5e22, 1e300, 1.26, 1.1234567890123457, 10.123456789012346,
           100.12345678901234, 1000000000000001.5, 1000000000000003.5, 999999999999999.9, 0.5, 0.95, 0.999999, 9.5,
           99.96, 0.1, 0.2, 0.3, 1e-7, 1e-10, 1e-11, 1e-16, 1e-17, 123456789.12345679, 0.30000000000000004,
           0.1 + 0.7, 4.35, 2.675, 1.005, 1.0000000000000002, 0.9999999999999999, 0.09999999999999999,
           9.999999999999998, 99.99999999999999, 0.049999999999999996, 0.05, 0.15, 0.25, 0.35, 1.45, -1.45, -0.5,
           -2.5, 1e15 + 0.5, 1e15 + 1.5, 1e15 + 2.5, 1e15 + 3.5, 1e15 - 0.5, 1e14 + 0.5, 1e14 + 1.5, 4503599627370495.5]


def gen_bits(rng, n):
    out = []
    # random doubles, uniform over exponent classes
    for _ in range(n):
        r = rng.random()
        if r < 0.25:
            e = rng.randrange(1023 - 60, 1023 + 60)
        elif r < 0.45:
            e = rng.randrange(1023 - 8, 1023 + 54)
        elif r < 0.55:
            e = rng.randrange(0, 2047)
        else:
            e = None
        if e is not None:
            out.append((rng.getrandbits(1) << 63) | (e << 52) | rng.getrandbits(52))
            continue
        r = rng.random()
        if r < 0.3:
            # decimal literal with up to 17 significant digits
            nd = rng.randrange(1, 18)
            digs = str(rng.randrange(10 ** (nd - 1), 10 ** nd))
            pt = rng.randrange(0, nd + 1)
            txt = (digs[:pt] or "0") + "." + digs[pt:] + "0"
            if rng.random() < 0.2:
                txt = "0." + "0" * rng.randrange(0, 12) + digs
            x = float(txt)
            out.append(bits(-x if rng.random() < 0.3 else x))
        elif r < 0.55:
            # neighbours of a decimal tie at d places
            d = rng.randrange(0, 17)
            k = rng.randrange(0, 10 ** rng.randrange(1, 17 - min(d, 15)))
            x = (k + 0.5) / 10 ** d if rng.random() < 0.5 else float(f"{k}5e-{d + 1}")
            out.append(nudge(bits(x), rng.randrange(-3, 4)))
        elif r < 0.75:
            # x.999.. and carries
            w = rng.choice([0, 0, 1, 9, 99, 999, rng.randrange(0, 10 ** 6)])
            nn = rng.randrange(1, 18)
            x = float(f"{w}." + "9" * nn + rng.choice(["", "4", "5", "6", "49", "51"]))
            out.append(nudge(bits(x), rng.randrange(-2, 3)))
        elif r < 0.9:
            # powers of ten and neighbours, 10^k + fraction
            k = rng.randrange(-20, 23) if rng.random() < 0.7 else rng.randrange(-320, 309)
            x = float(f"1e{k}")
            if rng.random() < 0.5 and 0 <= k <= 15:
                x = x + rng.choice([0, 1, 2, 3, -1]) + rng.choice([0.5, 0.25, 0.1, 0.123456789, rng.random()])
                out.append(bits(x))
            else:
                out.append(nudge(bits(x), rng.randrange(-3, 4)))
        else:
            # subnormals, 2^53 neighbourhood, huge integers
            c = rng.random()
            if c < 0.3:
                out.append(rng.getrandbits(52) >> rng.randrange(0, 52))
            elif c < 0.6:
                out.append(nudge(bits(2.0 ** 53), rng.randrange(-6, 7)))
            else:
                out.append(bits(float(rng.randrange(2 ** 53, 10 ** rng.randrange(17, 40)))))
    return out


LITS = ["0.5", "1.25", "123.456", "0.1", "1.005", "2.675", "0.000001", "1e-7", "12345678901234567890", "1.26", "-0.5",
        "-0.00001", "100", "3.14159265358979", "0.999999", "1.1234567890123457", "99.96", "1e21", "0.30000000000000004"]
NONFIN = ["1e400", "-1e400", "math.div(1,0)", "math.div(-1,0)", "math.div(0,0)"]


def gen_cases(ctx, tier):
    rng = ctx.rng
    cases = []
    for x in SPECIAL:
        for p in (0, 1, 3, 10, 16, 20):
            cases.append({"kind": 0, "comp": rng.random() < 0.5, "prec": p, "bits": bits(x)})
    # all powers of ten and their neighbours (the libm choice), a precision that exposes max_decimals
    for k in range(-5, 23):
        b = bits(float(f"1e{k}"))
        for dk in (-1, 0, 1):
            cases.append({"kind": 0, "comp": False, "prec": 20, "bits": nudge(b, dk)})
        if 0 <= k <= 15:
            for add in (0.5, 1.5, 2.5, 0.123456789012345678):
                cases.append({"kind": 0, "comp": False, "prec": 20, "bits": bits(float(f"1e{k}") + add)})
                cases.append({"kind": 0, "comp": False, "prec": 20, "bits": bits(float(f"1e{k}") - add)})
    n = 1500 if tier == "quick" else 60000
    for b in gen_bits(rng, n):
        p = rng.choice([0, 1, 2, 3, 5, 10, 10, 10, 15, 16, 17, 20]) if rng.random() < 0.6 else rng.randrange(0, 21)
        cases.append({"kind": 0, "comp": rng.random() < 0.5, "prec": p, "bits": b})
    for lit in LITS:
        for p in (0, 3, 10, 20):
            cases.append({"kind": 1, "comp": rng.random() < 0.5, "prec": p, "lit": lit})
    for e in NONFIN:
        for comp in (False, True):
            cases.append({"kind": 1, "comp": comp, "prec": 10, "lit": e})
    return cases


def search_cases(ctx, broken):
    rng = ctx.rng
    return [{"kind": 0, "comp": rng.random() < 0.5, "prec": rng.randrange(0, 21), "bits": b}
            for b in gen_bits(rng, 3000)]


def style(c):
    return "compressed" if c["comp"] else "expanded"


def impl_requests(c):
    if c["kind"] == 0:
        return [("numfmt", style(c), str(c["prec"]), str(c["bits"]))]
    if c["lit"].startswith("math."):
        src = '@use "sass:math"; a{b:%s}' % c["lit"]
        return [("evalv", "1"), ("scss", style(c), str(c["prec"]), src)]
    return [("evalv", c["lit"]), ("value", style(c), str(c["prec"]), c["lit"])]


NONFIN_BITS = {"math.div(1,0)": 0x7FF0000000000000, "math.div(-1,0)": 0xFFF0000000000000,
               "math.div(0,0)": 0x7FF8000000000000}


def coq_term(c, io):
    if c["kind"] == 0:
        tag, f = io[0]
        impl = copt(cbytes(f[0])) if tag == "ok" else "None"
        return f"(mkCase {cbool(c['comp'])} {cz(c['prec'])} {cz(c['bits'])} 0 {impl})"
    if c["lit"] in NONFIN_BITS:
        b = NONFIN_BITS[c["lit"]]
        tag, f = io[1]
        txt = None
        if tag == "ok":
            t = f[0].decode("utf-8", "replace").strip()
            # a{b:V} / a {\n  b: V;\n}
            if t.startswith("a{b:") and t.endswith("}"):
                txt = t[4:-1]
            elif t.startswith("a {\n  b: ") and t.endswith(";\n}"):
                txt = t[9:-3]
    else:
        tag0, f0 = io[0]
        if not (tag0 == "ok" and f0[0] == b"num" and f0[2] == b""):
            return None
        b = int(f0[1])
        tag, f = io[1]
        txt = f[0].decode("utf-8", "replace") if tag == "ok" else None
    impl = copt(cbytes(txt)) if txt is not None else "None"
    return f"(mkCase {cbool(c['comp'])} {cz(c['prec'])} {cz(b)} 1 {impl})"


K_LEN = {0: None, 1: "known_C10_K1_precision0"}
K_RND = {0: None, 4: "known_C10_K4_near_tie"}
K_SIG = {0: None, 2: "known_C10_K2_pow10_whole", 3: "known_C10_K3_whole_ge_1e15"}


def show(c):
    if c["kind"] == 0:
        return f"{fl(c['bits'])!r} (bits {c['bits']}) precision {c['prec']} {style(c)}"
    return f"{c['lit']} as CSS value, precision {c['prec']} {style(c)}"


def judge(c, io, r):
    if r is None:
        return {"corr": None, "clauses": [], "nontrivial": False, "tags": ["skipped"], "show": show(c)}
    corr, s, l, kl, g, kg, rd, kr, bd, nf, fin = r
    x = fl(c["bits"]) if c["kind"] == 0 else None
    return {
        "corr": corr == 1,
        "clauses": [("syntax", s == 1, None), ("fraction-length", l == 1, K_LEN[kl]),
                    ("significant-digits", g == 1, K_SIG[kg]), ("rounding", rd == 1, K_RND[kr]),
                    ("rounding-error-bounded", bd == 1, None), ("non-finite", nf == 1, None)],
        "nontrivial": bool(fin) and (x is None or (abs(x) < 2.0**53 and x != int(x))),
        "tags": ["finite" if fin else "nonfinite", "kind%d" % c["kind"], "p%d" % c["prec"]],
        "show": show(c), "detail": show(c),
    }


def shrink(c):
    # strictly decreasing candidates only (precision down, style to expanded, fewer digits)
    if c["kind"] != 0:
        return
    for p in (0, 1, 10):
        if p < c["prec"]:
            yield dict(c, prec=p)
    if c["comp"]:
        yield dict(c, comp=False)
    x = fl(c["bits"])
    if x == x and abs(x) != float("inf"):
        cur = len(repr(x))
        for nd in (3, 6, 9):
            y = float(f"%.{nd}g" % x)
            if y != x and len(repr(y)) < cur:
                yield dict(c, bits=bits(y))
                break


LEVEL_TEXT = ("proof: the digit loop of Formatted<Number>::fmt is modelled once over abstract float primitives and "
              "instantiated at Flocq binary64 (bit-exact correspondence with Number::format on every run); for ALL "
              "doubles and precisions: fractional digit count <= max(1, min(16-ceil(log10 whole), precision)) hence <= "
              "precision for precision >= 1, <= 16 significant digits outside the refuted classes, sign/zero/compressed "
              "layout, non-finite texts and calc() wrapping; output syntax (digits 0..9, no trailing zero, parses back) "
              "for every primitive set meeting the stated digit-range contract")
LEVEL_NOTE = ("trusted: Coq kernel+vm_compute, Flocq binary64, harness, Spec/DecRound.v, libm log10 and std Display "
              "oracles as stated; digit-range contract of the binary64 primitives validated by correspondence, not proved; "
              "rounding accuracy only explored against the exact rational reference (partial); refuted: precision 0 "
              "(F13), 10^k whole part (F14), |x| >= 10^15 non-integer, near-tie misrounding (F30)")
TECHNIQUE = "Coq proof (structural induction on the digit loop, abstract-primitive contract) + differential correspondence + exact rational oracle"
