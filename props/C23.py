"""C23 - is-superselector is a preorder with the expected monotonicity."""
import copy
from common import *
from selkit import *

ID = "C23"
GEN = []
THEOREMS = ["C23_extends", "C23_refl", "C23_refl_list", "C23_contains", "C23_add_simple", "C23_add_ancestor",
            "C23_run_clause", "C23_directions_agree", "C23_trans", "C23_trans_compound", "C23_trans_list"]
COQ_HEADER = ("From Coq Require Import List NArith ZArith.\nFrom RV Require Import Model.Sel Run.C23.\n"
              "Import ListNotations.\nLocal Open Scope list_scope.")
RUN_EXPR = "Run.C23.run"
RULE = ("selector lists (1-3 complex selectors, 1-3 compounds, all combinators; type, universal, class, id, attribute, "
        "pseudo-class, pseudo-element, selector pseudos incl. :not/:is/:current/vendor prefixes, nested to depth 2) sent "
        "through selector.is-superselector: random pairs, reflexive pairs, (list, extension of a member) pairs built "
        "by adding simple selectors / root ancestors / parents, and chains a >= b >= c built by specialisation steps "
        "with random perturbations for transitivity, plus chains `L k M S` >= `L k M x S` >= `L k M x M' S` where the ancestor "
        "walk must pass a nearer, only locally matching copy of M (also inside lists and :is()); distinct = distinct query tuple; non-trivial = the first query "
        "is not between syntactically equal lists")
EXHAUSTIVE = {"quick": False, "thorough": False}
TRUSTED = ["props/selkit.py prints the structured selector as source text; the Coq term carries the structure the "
           "rsass parser is expected to build from it (a wrong expectation shows up as a correspondence failure)",
           "Run/C23.v extends_b: the decidable reading of 'obtained by adding simple selectors / ancestors / parents'"]
ASSUMPTIONS = ["names are ASCII identifiers without escapes; attribute values without escapes",
               "transitivity is proved for all selectors of the model (induction on the total size of three selectors)"]


def rnd_simple(rng, c, depth=1):
    """add one simple selector (not a pseudo-element) to compound c (in place); returns False if nothing was added"""
    k = rng.choice(["cl", "cl", "id", "at", "ps", "el", "sps"])
    if k == "cl":
        x = rng.choice(CLASSES + ["e", "f"])
        if x in c["cl"]:
            return False
        c["cl"].append(x)
    elif k == "id":
        if c["id"] is not None:
            return False
        c["id"] = rng.choice(IDS)
    elif k == "at":
        a = list(rng.choice(ATTRS))
        if a in c["at"]:
            return False
        c["at"].append(a)
    elif k == "ps":
        p = list(rng.choice([["hover", False, None], ["focus", False, None], ["first-child", False, None],
                             ["bar", False, ["o", "a=b"]]]))
        if p in c["ps"]:
            return False
        c["ps"].append(p)
    elif k == "el":
        if c["el"] is not None:
            return False
        c["el"] = rng.choice(ELEMS[:-1])
    else:
        name = rng.choice(["not", "is", "where", "has"])
        p = [name, False, ["s", gen_sels(rng, 0, nmax=2, rich=False)]]
        if p in c["ps"]:
            return False
        c["ps"].append(p)
    return True


def comps_of(s):
    out = []
    while s is not None:
        out.append(s)
        s = s["rel"][1] if s["rel"] is not None else None
    return out


def extend(rng, s, steps=2):
    """c' obtained from s by adding simple selectors and root ancestors/parents (the statement's operations)"""
    s = copy.deepcopy(s)
    for _ in range(steps):
        if rng.random() < 0.35:
            root = comps_of(s)[-1]
            if root["rel"] is None and not comp_empty(root["c"]):
                root["rel"] = [rng.choice("AP"), gen_sel(rng, 0, maxlen=2)]
                continue
        node = rng.choice(comps_of(s))
        if not comp_empty(node["c"]):
            rnd_simple(rng, node["c"])
    return s


def specialise(rng, s):
    """one step towards a (semantically) more specific selector; may also be a near miss"""
    s = copy.deepcopy(s)
    nodes = comps_of(s)
    op = rng.choice(["ext", "ext", "kind", "insert", "type", "psarg", "perturb"])
    if op == "ext":
        return extend(rng, s, 1)
    node = rng.choice(nodes)
    if op == "kind" and node["rel"] is not None:
        node["rel"][0] = {"A": "P", "S": "J"}.get(node["rel"][0], node["rel"][0])
    elif op == "insert" and node["rel"] is not None and node["rel"][0] in "AS":
        k = node["rel"][0]
        mid = gen_comp(rng, 0)
        k2 = rng.choice("AP" if k == "A" else "SJ")
        node["rel"] = [rng.choice([k, k2]), sel(mid, [k2 if rng.random() < 0.5 else k, node["rel"][1]])]
    elif op == "type" and node["c"]["el"] == "*":
        node["c"]["el"] = rng.choice(ELEMS[:-1])
    elif op == "psarg":
        for p in node["c"]["ps"]:
            if p[2] and p[2][0] == "s":
                l = p[2][1]
                if p[0].endswith("not"):
                    # :not(X) gets more specific when X gets more general: drop a class / add a member
                    if rng.random() < 0.5:
                        l.append(gen_sel(rng, 0, maxlen=1))
                    else:
                        for x in l:
                            if x["c"]["cl"] and (x["c"]["el"] is not None or len(x["c"]["cl"]) > 1):
                                x["c"]["cl"].pop()
                                break
                else:
                    if len(l) > 1 and rng.random() < 0.5:
                        l.pop(rng.randrange(len(l)))
                    else:
                        i = rng.randrange(len(l))
                        l[i] = extend(rng, l[i], 1)
                break
    elif op == "perturb":
        c = node["c"]
        if c["cl"]:
            c["cl"][0] = rng.choice(CLASSES)
            c["cl"] = list(dict.fromkeys(c["cl"]))
        elif c["el"] is not None:
            c["el"] = rng.choice(ELEMS)
    return s


def spec_list(rng, l):
    l2 = [specialise(rng, s) for s in l]
    if len(l2) > 1 and rng.random() < 0.3:
        l2.pop(rng.randrange(len(l2)))
    if rng.random() < 0.15:
        l2.append(specialise(rng, rng.choice(l)))
    return l2


def backtrack_triple(rng):
    """a = `L k M  S` (descendant combinator over a complex left part), b = a with a filler ancestor inserted before S,
    c = b with a second, only locally matching copy of M inserted nearest to S: the ancestor walk of a over c has to go
    past the near copy and succeed at the far one."""
    import copy
    L = gen_sel(rng, 0, maxlen=rng.choice([1, 2]), rich=False)
    M = gen_comp(rng, 0, rich=False, allow_star=False)
    if M["el"] is None:
        M["el"] = rng.choice(ELEMS[:-1])
    S = gen_comp(rng, 0, rich=False)
    k = rng.choice("PPJS")
    filler = comp(el="zz", cl=[rng.choice(CLASSES)] if rng.random() < 0.5 else [])
    M2 = copy.deepcopy(M)
    if rng.random() < 0.5:
        M2["cl"] = list(dict.fromkeys(M2["cl"] + [rng.choice(CLASSES + ["e"])]))
    left = sel(M, [k, L])                                        # L k M
    a = sel(S, ["A", left])
    b = sel(copy.deepcopy(S), [rng.choice("AP"), sel(filler, ["A", copy.deepcopy(left)])])
    c = sel(copy.deepcopy(S), [rng.choice("AP"), sel(M2, [rng.choice("AP"), sel(copy.deepcopy(filler), ["A", copy.deepcopy(left)])])])
    if rng.random() < 0.3:                                       # two near copies
        c = sel(copy.deepcopy(S), ["A", sel(copy.deepcopy(M2), ["A", c["rel"][1]])])
    wrap = rng.random()
    if wrap < 0.2:                                               # inside a list
        other = gen_sel(rng, 0, rich=False)
        return [other, a], [b], [c]
    if wrap < 0.35:                                              # inside :is()
        w = lambda s: sel(comp(ps=[["is", False, ["s", [s]]]]))
        return [w(a)], [w(b)], [w(c)]
    return [a], [b], [c]


def gen_list(rng, depth=None, nmax=3):
    depth = rng.choice([0, 0, 1, 1, 2]) if depth is None else depth
    return gen_sels(rng, depth, ph=0.05, nmax=nmax, other=True)


CORPUS = [
    (0, [([sel(comp(el="a"))], [sel(comp(el="a", cl=["b"]))])]),
    (2, [([chain(comp(el="a"), "P", comp(el="b"), "A", comp(el="c"))], [chain(comp(el="a"), "P", comp(el="b"), "A", comp(el="x"), "A", comp(el="c"))]),
         ([chain(comp(el="a"), "P", comp(el="b"), "A", comp(el="x"), "A", comp(el="c"))],
          [chain(comp(el="a"), "P", comp(el="b"), "A", comp(el="x"), "A", comp(el="b"), "A", comp(el="c"))]),
         ([chain(comp(el="a"), "P", comp(el="b"), "A", comp(el="c"))],
          [chain(comp(el="a"), "P", comp(el="b"), "A", comp(el="x"), "A", comp(el="b"), "A", comp(el="c"))])]),
    (0, [([sel(comp(el="a", cl=["b"]))], [sel(comp(el="a"))])]),
    (0, [([chain(comp(el="a"), "A", comp(el="b"))], [chain(comp(el="a"), "P", comp(el="x"), "S", comp(el="y"), "A", comp(el="b"))])]),
    (0, [([chain(comp(el="a"), "S", comp(el="b"))], [chain(comp(el="a"), "J", comp(el="x"), "S", comp(el="b"))])]),
    (0, [([chain(comp(el="a"), "S", comp(el="b"))], [chain(comp(el="a"), "A", comp(el="x"), "S", comp(el="b"))])]),
    (0, [([sel(comp(ps=[["not", False, ["s", [sel(comp(el="a", cl=["b"]))]]]]))], [sel(comp(ps=[["not", False, ["s", [sel(comp(el="a"))]]]]))])]),
    (0, [([sel(comp(ps=[["not", False, ["s", [sel(comp(el="a"))]]]]))], [sel(comp(ps=[["not", False, ["s", [sel(comp(el="a", cl=["b"]))]]]]))])]),
    (0, [([sel(comp(el="a", ps=[["before", False, None]]))], [sel(comp(el="a", ps=[["before", True, None]]))])]),
    (0, [([sel(comp(el="a"))], [sel(comp(el="a", ps=[["before", False, None]]))])]),
    (0, [([sel(comp(el="*"))], [sel(comp(cl=["c"]))])]),
    (0, [([sel(comp(el="*|a"))], [sel(comp(el="x|a"))])]),
    (0, [([sel(comp(el="a"))], [sel(comp(el="x|a"))])]),
    (0, [([sel(comp(at=[["x", "=", "v", 1, None]]))], [sel(comp(at=[["x", "=", "v", 0, None]]))])]),
    (0, [([sel(comp(ps=[["current", False, ["s", [sel(comp(el="a"))]]]]))], [sel(comp(ps=[["current", False, ["s", [sel(comp(el="a", cl=["b"]))]]]]))])]),
]


def gen_cases(ctx, tier):
    rng = ctx.rng
    cases = [{"kind": k, "qs": [[a, b] for a, b in qs]} for k, qs in CORPUS]
    n = 1 if tier == "quick" else 6
    for _ in range(250 * n):                       # random pairs, related pairs
        a = gen_list(rng)
        b = spec_list(rng, a) if rng.random() < 0.7 else gen_list(rng)
        if rng.random() < 0.3:
            a, b = b, a
        cases.append({"kind": 0, "qs": [[a, b]]})
    for _ in range(100 * n):                       # reflexivity
        a = gen_list(rng)
        cases.append({"kind": 1, "qs": [[a, [rng.choice(a)]]]})
        cases.append({"kind": 0, "qs": [[a, a]]})
    for _ in range(300 * n):                       # contains + add simple / ancestors / parents
        a = gen_list(rng)
        c = extend(rng, rng.choice(a), rng.choice([1, 1, 2, 3]))
        cases.append({"kind": 1, "qs": [[a, [c]]]})
    for _ in range(400 * n):                       # transitivity chains
        a = gen_list(rng, nmax=2)
        b = spec_list(rng, a)
        if rng.random() < 0.5:
            b = spec_list(rng, b)
        c = spec_list(rng, b)
        if rng.random() < 0.3:
            c = spec_list(rng, c)
        cases.append({"kind": 2, "qs": [[a, b], [b, c], [a, c]]})
    for _ in range(200 * n):                       # ancestor walk that has to backtrack
        a, b, c = backtrack_triple(rng)
        cases.append({"kind": 2, "qs": [[a, b], [b, c], [a, c]]})
    return cases


def search_cases(ctx, broken):
    rng = ctx.rng
    out = []
    for _ in range(2000):
        a = gen_list(rng)
        c = extend(rng, rng.choice(a), rng.choice([1, 2, 3]))
        out.append({"kind": 1, "qs": [[a, [c]]]})
    return out


def sq(text):
    return '"' + text.replace("\\", "\\\\").replace('"', '\\"') + '"'


def expr_of(q):
    return f"is-superselector({sq(t_sels(q[0]))}, {sq(t_sels(q[1]))})"


def impl_requests(c):
    return [("value", "expanded", "10", expr_of(q)) for q in c["qs"]]


def res_of(o):
    tag, f = o
    if tag == "ok" and f[0].strip() == b"true":
        return 1
    if tag == "ok" and f[0].strip() == b"false":
        return 0
    return 2


def coq_term(c, io):
    qs = [f"(mkQ {q_sels(q[0])} {q_sels(q[1])} {res_of(o)}%N)" for q, o in zip(c["qs"], io)]
    return f"(mkCase {c['kind']}%N {clist(qs)})"


def judge(c, io, r):
    corr, c1, c2, first, prem = r
    return {
        "corr": corr == 1,
        "clauses": [("monotone-extension", c1 == 1, None), ("transitive", c2 == 1, None)],
        "nontrivial": c["qs"][0][0] != c["qs"][0][1],
        "tags": [["pair", "extension", "triple"][c["kind"]], "first-" + ["false", "true", "error"][first]]
                + (["trans-premises-hold"] if prem else []),
        "show": " ; ".join(expr_of(q) for q in c["qs"]),
        "detail": " ; ".join(expr_of(q) for q in c["qs"]),
    }


LEVEL_TEXT = ("proof: structural/nested induction over all selectors of the model of is_superselector on Selector / "
              "CompoundSelector / Pseudo / Arg / SelectorSet (both argument orders, because `:not` swaps them): "
              "reflexivity, a list is a superselector of each member, and of every extension of a member by added simple "
              "selectors (not pseudo-elements) and by added root ancestors/parents; transitivity for ALL complex selectors and "
              "lists (induction on the total size, walks replayed along the middle selector's chain); the two recursive "
              "definitions of the relation (needed because `:not` swaps the arguments) proved equal; "
              "model tied to the code by correspondence through selector.is-superselector")
LEVEL_NOTE = ("trusted: Coq kernel+vm_compute, the harness, the python printer of structured selectors")
TECHNIQUE = "Coq proof (nested structural induction) + differential correspondence on generated selector pairs/triples"
