"""C20 - Nested at-rules bubble and @at-root escapes correctly."""
from common import *
import destgen as D

ID = "C20"
GEN = ["AtNames"]
THEOREMS = ["C20_decls_collect", "C20_bubble_media", "C20_bubble_atrule", "C20_keyframes", "C20_at_root",
            "C20_at_root_selector", "C20_refuted_order"]
COQ_HEADER = ("From Coq Require Import List NArith ZArith.\nFrom RV Require Import Model.Out Model.OutDest Spec.Reach Run.C20.\n"
              "Import ListNotations.\nLocal Open Scope N_scope.")
RUN_EXPR = "Run.C20.run"
RULE = ("random rule trees to depth 4 mixing declarations, nested rules (plain, `&.suffix`, `x &` selectors, selector lists), "
        "@media, @supports and unknown at-rules, @keyframes, @at-root with and without selector (also `@at-root &.x` / `@at-root b &` "
        "directly inside a selector-less @at-root); half of them generated so that "
        "no direct declaration follows a nested block (outside the known reordering class); distinct = distinct SCSS text; "
        "non-trivial = the tree contains an at-rule or @at-root below a style rule")
EXHAUSTIVE = {"quick": False, "thorough": False}
TRUSTED = ["Spec/Bubble.v: the reference flattening (nesting, bubbling, @at-root) written from the Sass documentation",
           "Spec/CssTok.v normalize (white-space insensitive comparison)", "props/destgen.py prints the tree as SCSS"]
ASSUMPTIONS = ["literal selectors of three shapes (plain, `&.class`, `x &`); selector algebra itself is C19",
               "nested @media inside @media is compared as nested (no query merging is demanded)"]
SHARD = 120

WIT = [
    # `@at-root <selector with &>` directly inside a selector-less @at-root inside a style rule (seeded C20-1)
    {"mixins": [], "main": [["r", [["p", ".a"]], [["d", "x", "y"], ["ar", None, [
        ["r", [["p", ".b"]], [["d", "c", "d"]]],
        ["ar", [["s", ".e"]], [["d", "f", "g"]]],
        ["ar", [["u", ".h"]], [["d", "i", "j"]]]]]]]]},
    {"mixins": [], "main": [["r", [["p", "a"]], [["m", "print", [["r", [["p", "b"]], [["d", "p1", "v1"]]], ["d", "p2", "v2"]]]]]]},
    {"mixins": [], "main": [["r", [["p", "a"]], [["d", "x", "y"], ["m", "print", [["d", "p1", "v1"]]], ["d", "z", "w"]]]]},
    {"mixins": [], "main": [["r", [["p", "a"]], [["a", "keyframes", "k", [["r", [["p", "from"]], [["d", "p1", "v1"]]]]]]]]},
    {"mixins": [], "main": [["r", [["p", "a"]], [["ar", [["s", ".x"]], [["d", "p1", "v1"]]], ["ar", None, [["r", [["p", "b"]], [["d", "p2", "v2"]]]]]]]]},
]


def nontrivial(l, under_rule=False):
    for s in l:
        if s[0] in ("m", "a", "ar") and under_rule:
            return True
        for x in s[1:]:
            if isinstance(x, list) and x and isinstance(x[0], list) and isinstance(x[0][0], str) and len(x[0][0]) <= 3 and x[0][0] not in ("p", "s", "u"):
                if nontrivial(x, under_rule or s[0] == "r"):
                    return True
    return False


def gen_cases(ctx, tier):
    rng = ctx.rng
    cases = [{"src": D.program_scss(p), "prog": p} for p in WIT]
    n = 900 if tier == "quick" else 8000
    for i in range(n):
        pr = D.gen_c20(rng, depth=rng.choice([2, 3, 4]), order_safe=(i % 2 == 0))
        cases.append({"src": D.program_scss(pr), "prog": pr})
    return cases


def impl_requests(c):
    return [("scss", "expanded", "10", c["src"]), ("scss", "compressed", "10", c["src"])]


def coq_term(c, io):
    return f"(mkCase {D.program_coq(c['prog'])} {D.impl_coq(io[0])} {D.impl_coq(io[1])})"


K1 = "known_C20_direct_after_block"


def judge(c, io, r):
    ce, cc, pb, kre = r
    corr = None if 2 in (ce, cc) else (ce == 1 and cc == 1)
    clauses = []
    if pb != 2:
        clauses.append(("bubble-and-at-root", pb == 1, K1 if kre else None))
    return {"corr": corr, "clauses": clauses, "nontrivial": nontrivial(c["prog"]["main"]),
            "tags": ["ok" if io[0][0] == "ok" else io[0][0], "in-reference" if pb != 2 else "outside-reference",
                     "reorder-class" if kre else "order-safe"],
            "show": c["src"][:200], "detail": c["src"], "key": c["src"]}


def shrink(c):
    for pr in D.shrink_program(c["prog"]):
        yield {"src": D.program_scss(pr), "prog": pr}


LEVEL_TEXT = ("proof for the stated shapes: for ALL selectors, queries / at-rule names and declaration lists the model of the "
              "destinations puts a @media / non-flat at-rule nested in a style rule at the top level with the enclosing selector "
              "copied around its declarations and the surrounding declarations kept in order, leaves @keyframes bodies unprefixed, and "
              "emits @at-root content without / with the resolved selector; deeper mixes are decided on generated trees by comparing "
              "rsass's output (normalised in Coq) with an independent reference flattening (Spec/Bubble.v); the destination model is "
              "tied to rsass by byte-exact correspondence")
LEVEL_NOTE = ("refuted clause `in declaration order`: direct declarations of a bubbled at-rule body are emitted before nested rules "
              "that precede them (F33, known class); arbitrary-depth refinement model = reference is not proved, only explored")
TECHNIQUE = "Coq proof (symbolic evaluation of the destination model over arbitrary declaration lists) + reference semantics + differential correspondence"
