"""C34 - Global and module function forms agree."""
import importlib.util, os, re
from common import *

ID = "C34"
GEN = ["Builtins"]
THEOREMS = ["C34_tables_wf", "C34_same_object", "C34_same_formals", "C34_diverging_exact", "C34_resolve_frame"]
COQ_HEADER = ("From Coq Require Import String List ZArith NArith.\nFrom RV Require Import Run.C34.\n"
              "Import ListNotations.\nLocal Open Scope string_scope.")
RUN_EXPR = "Run.C34.run"
RULE = ("every pair of Spec/SassDocPairs.v x argument tuples drawn from pools chosen by formal parameter name "
        "(arity between required and all formals, sometimes one short / one extra); six spellings per tuple: g(args), "
        "m.f(args), both with all arguments named, and both through meta.call(meta.get-function(..), args...); each in "
        "its own compilation; distinct = distinct (pair, tuple); non-trivial = at least one spelling succeeded")
EXHAUSTIVE = {"quick": False, "thorough": False}
TRUSTED = ["Spec/SassDocPairs.v: the documented global/module pairs (hand written from the Sass documentation)",
           "a clone of a built-in Function is the same function (shared Arc body, equal FormalArgs): Model/Builtins.v header",
           "agreement of two spellings (property clauses) = equal CSS text, or both are errors; the model's prediction for "
           "same-object pairs (correspondence) is stricter: errors must have the same first line"]
ASSUMPTIONS = ["unique-id() and random() without a limit of 1 are not compared by value (non-deterministic by design)",
               "pairs with separate global definitions (abs, round, invert, grayscale) are decided by the correspondence check only"]


def _builtins():
    p = os.path.join(VERIF, "gen", "gens", "Builtins.py")
    import sys
    sys.path.insert(0, os.path.join(VERIF, "gen"))
    spec = importlib.util.spec_from_file_location("gens_Builtins_c34", p)
    m = importlib.util.module_from_spec(spec)
    spec.loader.exec_module(m)
    return m.extract()


def doc_pairs():
    txt = open(os.path.join(VERIF, "coq", "theories", "Spec", "SassDocPairs.v")).read()
    txt = re.sub(r"\(\*.*?\*\)", "", txt, flags=re.S)
    return re.findall(r'\("([^"]+)",\s*\("([^"]+)",\s*"([^"]+)"\)\)', txt)


POOLS = {
    "string": ['"abc"', "abc", '"héllo wörld"', '""', '"a b c"', "foo-bar", '"ABC def"', "1", '"ÄÇÐ"', '"ÉCOLE straße"', "Éa", '"ǅ İ ß"'],
    "substring": ['"b"', '"bc"', "c", '"zz"', '""', '" "'],
    "insert": ['"X"', "yy", '""'],
    "index": ["1", "2", "-1", "0", "3", "10", "1.5", "-2"],
    "n": ["1", "2", "-1", "0", "3", "10", "1.5", "-2"],
    "start-at": ["1", "2", "-1", "0", "3", "-3"],
    "end-at": ["1", "2", "-1", "0", "3", "-2"],
    "list": ["(a b c)", "(1, 2, 3)", "[a, b]", "()", "x", "(a: 1, b: 2)", "((1 2) (3 4))", "(a, b c, d)"],
    "list1": ["(a b c)", "(1, 2, 3)", "[a, b]", "()", "x"],
    "list2": ["(d e)", "(4, 5)", "[c]", "()", "y"],
    "lists": ["(a b c)", "(1, 2, 3)", "(x y)", "()", "z"],
    "separator": ["comma", "space", "auto", "slash", '"comma"', "bogus"],
    "bracketed": ["true", "false", "auto", "null"],
    "map": ["(a: 1, b: 2)", "()", "(x: (y: 1), a: 3)", '("k": v)', "(a: 1, b: (c: 2))", "1"],
    "map1": ["(a: 1, b: 2)", "()", "(x: (y: 1))"],
    "map2": ["(b: 3, c: 4)", "()", "(x: (z: 2))"],
    "key": ["a", "b", '"k"', "x", "zz"],
    "keys": ["a", "b", "y", "c"],
    "args": ["a", "b", "(b: 3, c: 4)", "(q: 1)", "7", "x"],
    "value": ["1", "a", '"s"', "(1 2)", "null", "true", "#fff", "(a: 1)", "1px", "c"],
    "val": ["1", "a", '"s"', "(1 2)", "null"],
    "color": ["red", "#336699", "rgba(10, 20, 30, 0.5)", "hsl(120, 50%, 40%)", "blue", "#abc", "1", "transparent"],
    "color1": ["red", "#336699", "rgba(10, 20, 30, 0.5)"],
    "color2": ["blue", "#fff", "hsl(20, 100%, 50%)", "2"],
    "weight": ["50%", "25%", "0%", "100%", "10", "150%"],
    "amount": ["50%", "25%", "0%", "10"],
    "number": ["1.5", "-2.5", "3px", "10%", "0", "2.5em", "4", "-7", "0.5", "2.5", "-0.5", "a", "1e3"],
    "number1": ["1", "2px", "3s", "4em", "1in"],
    "number2": ["2", "5px", "1ms", "1rem", "1cm", "x"],
    "numbers": ["1", "2px", "5px", "3", "-1", "1in", "10%"],
    "limit": ["1"],
    "degrees": ["30deg", "90", "-45deg"],
    "selector": ['".a"', '".a .b"', '"a, b"', '".a.b"', '"c"', "1"],
    "selectors": ['".a"', '".b .c"', '"&-x"', '"d, e"', '".f"'],
    "super": ['".a"', '"a"', '".a, .b"', '"*"'],
    "sub": ['".a.b"', '"a.c"', '".b"', '"d"'],
    "selector1": ['".a"', '"a"', '".a .b"'],
    "selector2": ['".b"', '"b"', '".c.d"', '"a"'],
    "extendee": ['".a"', '"c"', '".b"'],
    "extender": ['".x"', '".y .z"'],
    "original": ['".a"', '".b"'],
    "replacement": ['".x"', '"y"'],
    "name": ['"str-length"', '"foo"', '"rgb"', '"length"', '"a"', "abs"],
    "module": ["null"],
    "css": ["false", "true"],
    "feature": ['"at-error"', '"foo"', '"custom-property"'],
    "function": ['get-function("str-length")', 'get-function("nth")', 'get-function("max")', '"foo"', "1"],
    "kwargs": ["$red: 10", "$lightness: 10%", "$alpha: -0.2", "$blue: -20", "$saturation: 5%", "$hue: 20deg"],
    "elements": ["1", "2", "a"],
    "calc": ["calc(1px + 10%)", "1"],
}
GENERIC = ["1", "a", '"s"', "(1 2)", "null", "true", "#fff", "(a: 1)", "2px"]
# special argument shapes for functions whose single variadic formal hides the real parameters
SPECIAL = {
    "grayscale": [["hsl(120, 50%, 40%)"], ["hwb(120 10% 20%)"], ["#336699"], ["1"]],
    "hwb": [["120", "30%", "50%"], ["120 30% 50%"], ["120deg", "10%", "20%", "0.5"], ["1"], []],
    "call": [['get-function("str-length")', '"abc"'], ['get-function("nth")', "(a b c)", "2"], ['get-function("max")', "1", "5", "3"],
             ['"foo"', "1"], ["1"]],
    "map-merge": [["(a: 1)", "(b: 2)"], ["(a: (b: 1))", "a", "(c: 2)"], ["(a: 1)"], ["1", "2"]],
    "map-remove": [["(a: 1, b: 2)", "a"], ["(a: 1, b: 2)", "a", "b"], ["(a: 1)"], ["1", "a"]],
    "adjust-color": [["#336699", "$red: 10"], ["#336699", "$lightness: 10%", "$alpha: -0.2"], ["red", "$hue: 20deg"], ["red"], ["1", "$red: 1"]],
    "scale-color": [["#336699", "$red: 10%"], ["#336699", "$lightness: -10%"], ["red", "$alpha: -20%"], ["red"], ["red", "$red: 200%"]],
    "change-color": [["#336699", "$red: 10"], ["#336699", "$lightness: 10%"], ["red", "$alpha: 0.3"], ["red"]],
    "random": [["1"], ["0"], ["-1"], ["1.5"], ["a"]],
    "keywords": [["1"], ["(a: 1)"], []],
    "content-exists": [[], ["1"]],
}
SKIP_VALUE = {"unique-id"}
ONLY_SPECIAL = {"random"}          # random() without limit is non-deterministic by design


def pool(name):
    return POOLS.get(name, GENERIC)


def gen_cases(ctx, tier):
    rng = ctx.rng
    mods, out = _builtins()
    mdefs = {}
    for url, (n, formals, va) in out["module_defs"]:
        mdefs[(url, n)] = (formals, va)
    per = 8 if tier == "quick" else 40
    cases = []
    for g, url, f in doc_pairs():
        if g in SKIP_VALUE:
            continue
        formals, va = mdefs.get((url, f), ([], False))
        tuples = []
        req = 0
        if g in SPECIAL:
            for t in SPECIAL[g]:
                nm = None
                if not va and 0 < len(t) <= len(formals) and not any(a.startswith("$") for a in t):
                    nm = [formals[i][0] for i in range(len(t))]
                tuples.append((t, nm))
        req = sum(1 for n, d in formals if not d) - (1 if va else 0)
        off = rng.randint(0, 50)
        for it in range(per):
            if g in ONLY_SPECIAL or (g in SPECIAL and rng.random() < 0.7):
                continue
            if va:
                fixed = [rng.choice(pool(n)) for n, _ in formals[:-1]]
                restn = formals[-1][0]
                k = rng.randint(0, 3)
                args = fixed + [rng.choice(pool(restn)) for _ in range(k)]
                tuples.append((args, None))
            else:
                k = rng.randint(req, len(formals)) if formals else 0
                r = rng.random()
                if r < 0.06 and k > 0:
                    k -= 1
                elif r < 0.12:
                    k += 1
                args = [rng.choice(pool(formals[i][0] if i < len(formals) else "value")) for i in range(k)]
                if args and formals:            # the first argument walks through its whole pool
                    p0 = pool(formals[0][0])
                    args[0] = p0[(off + it) % len(p0)]
                names = [formals[i][0] for i in range(k)] if k <= len(formals) else None
                tuples.append((args, names))
        seen = set()
        for args, names in tuples:
            key = (tuple(args), tuple(names) if names else None)
            if key in seen:
                continue
            seen.add(key)
            cases.append({"g": g, "url": url, "f": f, "args": args, "names": names})
    return cases


def search_cases(ctx, broken):
    class C:
        pass
    c = C()
    c.rng = ctx.rng
    return gen_cases(c, "thorough")[::3]


def programs(c):
    g, url, f = c["g"], c["url"], c["f"]
    ns = url.split(":")[1]
    args = ", ".join(c["args"])
    use_m = '@use "sass:meta";' + ("" if ns == "meta" else f'@use "{url}";')
    progs = [f'@use "sass:meta";\na{{b:meta.inspect({g}({args}))}}',
             f'{use_m}\na{{b:meta.inspect({ns}.{f}({args}))}}']
    if c["names"] is not None and len(c["names"]) == len(c["args"]) and c["args"]:
        named = ", ".join(f"${n}: {a}" for n, a in zip(c["names"], c["args"]))
        progs += [f'@use "sass:meta";\na{{b:meta.inspect({g}({named}))}}',
                  f'{use_m}\na{{b:meta.inspect({ns}.{f}({named}))}}']
    else:
        progs += [None, None]
    sep = ", " if c["args"] else ""
    progs += [f'@use "sass:meta";\na{{b:meta.inspect(meta.call(meta.get-function("{g}"){sep}{args}))}}',
              f'{use_m}\na{{b:meta.inspect(meta.call(meta.get-function("{f}", $module: "{ns}"){sep}{args}))}}']
    return progs


def impl_requests(c):
    return [("scss", "expanded", "10", p) for p in programs(c) if p is not None]


def res_term(o):
    tag, f = o
    if tag == "ok":
        return f"(ROk {cbytes(f[0])})"
    if tag == "err":
        first = f[0].split(b"\n")[0]
        return f"(RErr {cbytes(first)})"
    return "RBad"


def coq_term(c, io):
    it = iter(io)
    rs = []
    for p in programs(c):
        rs.append("RNone" if p is None else res_term(next(it)))
    a0 = c["args"][0] if c["args"] else ""
    a0 = a0 if all(32 <= ord(ch) < 127 for ch in a0) else ""
    return f"(mkCase {cstring(c['g'])} {cstring(c['url'])} {cstring(c['f'])} {cstring(a0)} " + " ".join(rs) + ")"


def judge(c, io, r):
    corr, forms, named, call, same, anyok = r
    return {
        "corr": None if corr == 2 else (corr == 1),
        "clauses": [("global-vs-module", forms == 1, None), ("named-vs-positional", named == 1, None),
                    ("meta-call", call == 1, None)],
        "nontrivial": anyok == 1,
        "tags": [c["url"], "same-object" if same else "separate-definition"],
        "show": f"{c['g']}({', '.join(c['args'])}) vs {c['url'].split(':')[1]}.{c['f']}" + (" [named]" if c["names"] else ""),
        "detail": programs(c),
    }


def shrink(c):
    if len(c["args"]) > 0:
        for i in range(len(c["args"])):
            a = c["args"][:i] + c["args"][i + 1:]
            n = None if c["names"] is None else c["names"][:i] + c["names"][i + 1:]
            yield dict(c, args=a, names=n)
    if c["names"] is not None:
        yield dict(c, names=None)


LEVEL_TEXT = ("proof: finite sweep (vm_compute + forallb_forall) over the tables regenerated from sass/functions/**.rs: every "
              "documented global/module pair except four names resolves to ONE function object (the global entry is a clone of "
              "the module function and is not rebound by a later insertion), hence one FormalArgs for positional and named "
              "binding; the four exceptions are proved to be exactly the separately defined ones and are compared by the "
              "differential check (positional, named, meta.call) like all other pairs")
LEVEL_NOTE = ("trusted: Coq kernel+vm_compute, gen/gens/Builtins.py, the harness, Spec/SassDocPairs.v; evaluation of the shared "
              "function body itself is not modelled (both names run the same Rust closure)")
TECHNIQUE = "Coq proof (table sweep by vm_compute + forallb_forall) + translator + differential correspondence"
