"""Shared by C07/C08/C09/C36: generator of CSS item trees (the datatype of
coq/theories/Model/Out.v), their printing as plain CSS source (fed to the
`css` harness command) and as Coq terms.

item  := ["c", text] | ["i", name] | ["p", name, [exp, comp]] | ["cu", name, value, quoted]
       | ["r", [[exp, comp], ...], body] | ["m", margs, body] | ["a", name, args|None, body|None] | ["s"]
margs := ["n", name] | ["cond", c, [e, c]] | ["range", [[op, [e, c]], ...]] | ["paren", a] | ["br", a]
       | ["un", op, a] | ["comma", [...]] | ["and", [...]] | ["or", [...]]
All texts are python str (unicode); they cross to Coq as UTF-8 bytes."""
from common import cbytes, clist, cbool

IDENTS = ["b", "c", "foo", "solid", "x-y", "é", "m漢"]
NAMES = ["color", "margin", "x", "-w-y", "font", "ü"]
NUMS = [("1px", "1px"), ("12em", "12em"), ("50%", "50%"), ("0.5em", ".5em"), ("-0.25px", "-.25px"), ("3", "3"), ("10.5", "10.5")]
STRS = ['"s"', '"a b"', '"é"', '"x{y"', '"/*"', "\"it's\""]
COMPOUNDS = ["a", "b", ".c", "#d", "e.f", "*", "a:hover", ".é", "li"]
COMBS = [(" ", " "), (" > ", ">"), (" + ", "+"), (" ~ ", "~")]
COMMENTS = [" simple ", "", "x", " multi\n * line ", " deep\n      * y ", " two\n   lines\n   here ", "# sourceMappingURL=x ",
            "! keep ", " é ", " a\n\n b ", " brace { ", " \"q ", "*", " star *", " t\n", " z\n * w\n     * v "]
AT_NAMES = ["foo", "supports", "font-face", "keyframes", "-x-doc", "page"]
AT_ARGS = [None, "bar", "(a: b) and (c)", "é", "x y", "(min-width: 1px)"]
CUSTOM = [(" a b", False), (" {a}", False), (" [x; y]", False), ("x", False), ("q", True), (" 1\n    2", False), ("é", True),
          (" (a{b})", False)]
MEDIA_NAMES = ["screen", "print", "all", "tv"]


def gen_value(rng):
    k = rng.random()
    if k < 0.3:
        v = rng.choice(IDENTS)
        return [v, v]
    if k < 0.5:
        return list(rng.choice(NUMS))
    if k < 0.62:
        v = rng.choice(STRS)
        return [v, v]
    if k < 0.82:
        parts = [gen_atom(rng) for _ in range(rng.randint(2, 3))]
        return [" ".join(p[0] for p in parts), " ".join(p[1] for p in parts)]
    parts = [gen_atom(rng) for _ in range(rng.randint(2, 3))]
    return [", ".join(p[0] for p in parts), ",".join(p[1] for p in parts)]


def gen_atom(rng):
    k = rng.random()
    if k < 0.45:
        v = rng.choice(IDENTS)
        return [v, v]
    if k < 0.8:
        return list(rng.choice(NUMS))
    v = rng.choice(STRS)
    return [v, v]


def gen_sel(rng):
    n = rng.choice([1, 1, 1, 2, 3])
    e = c = rng.choice(COMPOUNDS)
    for _ in range(n - 1):
        ce, cc = rng.choice(COMBS)
        x = rng.choice(COMPOUNDS)
        e += ce + x
        c += cc + x
    return [e, c]


def gen_sels(rng):
    return [gen_sel(rng) for _ in range(rng.choice([1, 1, 1, 2, 3]))]


def gen_margs_one(rng, d):
    k = rng.random()
    if d <= 0 or k < 0.35:
        return ["n", rng.choice(MEDIA_NAMES)]
    if k < 0.5:
        return ["un", rng.choice(["not", "only", "NOT"]), gen_margs_one(rng, d - 1)]
    if k < 0.7:
        return ["cond", rng.choice(["min-width", "color", "max-height"]), list(rng.choice(NUMS[:5]))]
    if k < 0.82:
        ops = rng.choice([[">="], ["<"], ["<=", "<"], ["="]])
        l = [["", ["width", "width"]]] + [[o, list(rng.choice(NUMS[:3]))] for o in ops]
        return ["range", l]
    if k < 0.93:
        return ["paren", gen_margs(rng, d - 1)]
    return ["br", gen_margs_one(rng, d - 1)]


def _lst(tag, f, rng, d, weights):
    n = rng.choice(weights)
    l = [f(rng, d) for _ in range(n)]
    return l[0] if n == 1 else [tag, l]


def gen_margs(rng, d=2):
    def g_or(rng, d):
        return _lst("or", gen_margs_one, rng, d, [1, 1, 1, 1, 2])

    def g_and(rng, d):
        return _lst("and", g_or, rng, d, [1, 1, 2, 3])
    return _lst("comma", g_and, rng, d, [1, 1, 1, 2, 3])


def gen_body_item(rng):
    k = rng.random()
    if k < 0.6:
        return ["p", rng.choice(NAMES), gen_value(rng)]
    if k < 0.75:
        return ["c", rng.choice(COMMENTS)]
    if k < 0.9:
        v, q = rng.choice(CUSTOM)
        return ["cu", "--" + rng.choice(["v", "w-x", "é"]), v, q]
    return ["i", rng.choice(['"x.css"', '"é.css"'])]


def gen_rule(rng):
    n = rng.choice([0, 1, 1, 2, 2, 3, 4])
    return ["r", gen_sels(rng), [gen_body_item(rng) for _ in range(n)]]


def gen_at(rng):
    name = rng.choice(AT_NAMES)
    args = rng.choice(AT_ARGS)
    k = rng.random()
    if k < 0.1:
        body = []
    elif k < 0.22:
        body = [["c", rng.choice(COMMENTS)]]
    else:
        body = []
        for _ in range(rng.randint(1, 3)):
            j = rng.random()
            if j < 0.4:
                body.append(gen_rule(rng))
            elif j < 0.75:
                body.append(["p", rng.choice(NAMES), gen_value(rng)])
            elif j < 0.9:
                body.append(["c", rng.choice(COMMENTS)])
            else:
                body.append(["i", '"y.css"'])
    return ["a", name, None if args is None else [args, args], body]


def gen_top(rng, d):
    k = rng.random()
    if k < 0.45:
        return gen_rule(rng)
    if k < 0.6:
        return ["c", rng.choice(COMMENTS)]
    if k < 0.67:
        return ["i", rng.choice(['"x.css"', '"é.css"'])]
    if k < 0.82 or d <= 0:
        return gen_at(rng)
    n = rng.choice([0, 1, 1, 2, 3])
    return ["m", gen_margs(rng), [gen_top(rng, d - 1) for _ in range(n)]]


def gen_tree(rng, maxtop=4, depth=3):
    return [gen_top(rng, depth) for _ in range(rng.randint(0, maxtop))]


# ---------------------------------------------------------------------------
# printing as plain CSS (expanded leaf texts; the css reader rebuilds the tree)

def margs_css(a):
    t = a[0]
    if t == "n":
        return a[1]
    if t == "cond":
        return f"({a[1]}: {a[2][0]})"
    if t == "range":
        s = a[1][0][1][0]
        for op, v in a[1][1:]:
            s += f" {op} {v[0]}"
        return "(" + s + ")"
    if t == "paren":
        return "(" + margs_css(a[1]) + ")"
    if t == "br":
        return "[" + margs_css(a[1]) + "]"
    if t == "un":
        return a[1] + " " + margs_css(a[2])
    sep = {"comma": ", ", "and": " and ", "or": " or "}[t]
    return sep.join(margs_css(x) for x in a[1])


def item_css(it):
    t = it[0]
    if t == "c":
        return "/*" + it[1] + "*/"
    if t == "i":
        return "@import " + it[1] + ";"
    if t == "p":
        return f"{it[1]}: {it[2][0]};"
    if t == "cu":
        return f"{it[1]}:" + ((' "' + it[2] + '"') if it[3] else it[2]) + ";"
    if t == "r":
        return ", ".join(s[0] for s in it[1]) + " {" + "\n".join(item_css(x) for x in it[2]) + "}"
    if t == "m":
        return "@media " + margs_css(it[1]) + " {" + "\n".join(item_css(x) for x in it[2]) + "}"
    if t == "a":
        s = "@" + it[1] + ((" " + it[2][0]) if it[2] is not None else "")
        if it[3] is None:
            return s + ";"
        return s + " {" + "\n".join(item_css(x) for x in it[3]) + "}"
    raise ValueError(it)


def tree_css(tree):
    return "\n".join(item_css(x) for x in tree) + "\n"


# ---------------------------------------------------------------------------
# Coq terms (Model/Out.v)

def leaf_coq(l):
    return f"(mkLeaf {cbytes(l[0])} {cbytes(l[1])})"


def margs_coq(a):
    t = a[0]
    if t == "n":
        return f"(MName {cbytes(a[1])})"
    if t == "cond":
        return f"(MCond {cbytes(a[1])} {leaf_coq(a[2])})"
    if t == "range":
        return "(MRange " + clist([f"({cbytes(op)}, {leaf_coq(v)})" for op, v in a[1]]) + ")"
    if t == "paren":
        return f"(MParen {margs_coq(a[1])})"
    if t == "br":
        return f"(MBracket {margs_coq(a[1])})"
    if t == "un":
        return f"(MUnary {cbytes(a[1])} {margs_coq(a[2])})"
    c = {"comma": "MComma", "and": "MAnd", "or": "MOr"}[t]
    return f"({c} " + clist([margs_coq(x) for x in a[1]]) + ")"


def item_coq(it):
    t = it[0]
    if t == "c":
        return f"(IComment {cbytes(it[1])})"
    if t == "i":
        return f"(IImport {cbytes(it[1])} None)"
    if t == "p":
        return f"(IProp {cbytes(it[1])} {leaf_coq(it[2])})"
    if t == "cu":
        v = ('"' + it[2] + '"') if it[3] else it[2]
        return f"(ICustom {cbytes(it[1])} {cbytes(v)} {cbool(it[3])})"
    if t == "r":
        return "(IRule " + clist([leaf_coq(s) for s in it[1]]) + " " + items_coq(it[2]) + ")"
    if t == "m":
        return f"(IMedia {margs_coq(it[1])} {items_coq(it[2])})"
    if t == "a":
        args = "None" if it[2] is None else f"(Some {leaf_coq(it[2])})"
        body = "None" if it[3] is None else f"(Some {items_coq(it[3])})"
        return f"(IAt {cbytes(it[1])} {args} {body})"
    if t == "s":
        return "ISep"
    raise ValueError(it)


def items_coq(l):
    return clist([item_coq(x) for x in l])


def split_imports(tree):
    """CssData::push_item hoists top-level imports."""
    return [x for x in tree if x[0] == "i"], [x for x in tree if x[0] != "i"]


def tree_size(tree):
    n = 0
    for it in tree:
        n += 1
        if it[0] in ("r", "m"):
            n += tree_size(it[2])
        elif it[0] == "a" and it[3]:
            n += tree_size(it[3])
    return n
