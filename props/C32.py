"""C32 - Colour adjustment functions obey their laws."""
import struct, re
from common import *
import C31 as base

ID = "C32"
GEN = ["Colors"]
THEOREMS = ["C32_grayscale", "C32_lighten_darken", "C32_lighten_range", "C32_saturate_range", "C32_alpha_range",
            "C32_identities", "C32_named_laws_partial", "C32_named_undo_partial", "C32_scale_identity_yellow", "C32_refuted_hsl_undo"]
COQ_HEADER = ("From Coq Require Import String List NArith ZArith Bool.\n"
              "From RV Require Import Run.C31 Run.C32.\nImport ListNotations.\nLocal Open Scope string_scope.")
RUN_EXPR = "Run.C32.run"
RULE = ("colours from rgb()/hsl()/hwb()/hex/names (with alpha) x amounts (0, boundary, random) x mix weights; for each: eleven derived "
        "colours reported channel by channel and ten `==` laws; distinct = distinct (colour, amounts); non-trivial = amount not 0")
EXHAUSTIVE = {"quick": False, "thorough": False}
TRUSTED = ["Rust str::parse::<f64> is correctly rounded", "Base/FMod.v: exact fmod on the binary64 representation"]
ASSUMPTIONS = ["global function forms (lighten, darken, saturate, desaturate, opacify, transparentize, grayscale, complement, invert, mix, "
               "adjust-hue, adjust-color, scale-color, change-color)"]
SHARD = 60
TIMEOUT_PER_CASE = 30.0

AMTS = [0, 10, 25, 50, 100, 12.5, 30, 5, 75]
AAMTS = [0, 0.25, 0.5, 1, 0.125, 0.1]
WEIGHTS = [50, 0, 100, 25, 30, 75]


def gen_cases(ctx, tier):
    rng = ctx.rng
    cases = []
    pool = []
    for c in base.gen_cases(ctx, tier):
        pool.append(c)
    rng.shuffle(pool)
    corpus = [{"k": "named", "name": "yellow"}, {"k": "named", "name": "white"}, {"k": "named", "name": "red"},
              {"k": "hsl", "in": [120.0, 50.0, 50.0, 1.0]}, {"k": "hsl", "in": [120.0, 50.0, 95.0, 0.5]},
              {"k": "rgb", "in": [10.0, 200.0, 30.0, 0.5]}, {"k": "hwb", "in": [40.0, 10.0, 10.0, 1.0]}, {"k": "hwb", "in": [30.0, 10.0, 20.0, 1.0]},
              {"k": "hwb", "in": [370.0, 20.5, 30.0, 1.0]}, {"k": "hwb", "in": [200.0, 7.0, 61.0, 0.5]},
              {"k": "hex", "in": [18, 52, 86]}]
    n = 230 if tier == "quick" else 4000
    for c in corpus + pool[:n]:
        d = dict(c)
        d["amt"] = float(rng.choice(AMTS))
        d["aamt"] = float(rng.choice(AAMTS))
        d["w"] = float(rng.choice(WEIGHTS))
        cases.append(d)
    return cases


def expr_of(c):
    return base.expr_of(c)


def reqs(c):
    C = expr_of(c)
    A = base.ntext(c["amt"]) + "%"
    B = base.ntext(c["aamt"])
    W = base.ntext(c["w"]) + "%"
    cols = [C, f"lighten({C}, {A})", f"darken({C}, {A})", f"saturate({C}, {A})", f"desaturate({C}, {A})",
            f"opacify({C}, {B})", f"transparentize({C}, {B})", f"grayscale({C})", f"complement({C})", f"invert({C})",
            f"mix({C}, {C}, {W})"]
    eqs = [f"mix({C}, {C}, {W}) == {C}", f"invert(invert({C})) == {C}", f"complement(complement({C})) == {C}",
           f"adjust-hue({C}, 360deg) == {C}", f"adjust-color({C}) == {C}", f"scale-color({C}) == {C}",
           f"change-color({C}) == {C}", f"darken(lighten({C}, {A}), {A}) == {C}",
           f"desaturate(saturate({C}, {A}), {A}) == {C}", f"transparentize(opacify({C}, {B}), {B}) == {C}"]
    return cols, eqs


def impl_requests(c):
    cols, eqs = reqs(c)
    return [("color", e) for e in cols] + [("evalv", e) for e in eqs]


def rep_term(io):
    tag, f = io
    if tag != "ok":
        return "None"
    kz = {b"rgba": 0, b"hsla": 1, b"hwba": 2}[f[0]]
    nums = [int(x) for x in f[1:17]]
    return (f"(Some (mkReport {cz(kz)} {clist([cz(x) for x in nums[0:4]])} {clist([cz(x) for x in nums[4:8]])} "
            f"{clist([cz(x) for x in nums[8:12]])} {clist([cz(x) for x in nums[12:16]])}))")


def coq_term(c, io):
    k = c["k"]
    kind = {"rgb": "KRgb", "hsl": "KHsl", "hwb": "KHwb", "hex": "KHex"}.get(k) or f"(KNamed {cstring(c['name'])})"
    if k == "hex":
        ins = clist([cz(x) for x in c["in"]])
    elif k == "named":
        ins = "[]"
    else:
        ins = clist([cz(base.bits(x)) for x in c["in"]])
    reps = clist([rep_term(x) for x in io[:11]])
    eqs = clist([cz(base.eq_answer(x)) for x in io[11:21]])
    return (f"(Run.C32.mkCase {kind} {ins} {cz(base.bits(c['amt']))} {cz(base.bits(c['aamt']))} {cz(base.bits(c['w']))} "
            f"{reps} {eqs})")


K5, K8 = ("known_C32_K5_hsl_exact_compare", "known_C32_K8_out_of_range_source")
HWB_SAFE = {"mix-same", "invert-twice", "complement-twice", "adjust-hue-360", "adjust-identity", "change-identity",
            "opacify-transparentize-undo"}
EQ_NAMES = ["mix-same", "invert-twice", "complement-twice", "adjust-hue-360", "adjust-identity", "scale-identity",
            "change-identity", "lighten-darken-undo", "saturate-desaturate-undo", "opacify-transparentize-undo"]


def judge(c, io, r):
    corr, ll, ld, ls, lds, lo, lt, lg, ul, us, ua, k5, k8, is_hwb = r
    if any(x[0] in ("panic", "crash") for x in io):
        corr = 0
    eqs = [base.eq_answer(x) for x in io[11:21]]
    def cls(*ks):
        for flag, name in ks:
            if flag:
                return name
        return None
    cl = [("lighten-moves-lightness", ll == 1, cls((k8, K8))),
          ("darken-moves-lightness", ld == 1, cls((k8, K8))),
          ("saturate-moves-saturation", ls == 1, cls((k8, K8))),
          ("desaturate-moves-saturation", lds == 1, cls((k8, K8))),
          ("opacify-moves-alpha", lo == 1, None),
          ("transparentize-moves-alpha", lt == 1, None),
          ("grayscale", lg == 1, cls((k8, K8)))]
    for i, nm in enumerate(EQ_NAMES):
        ok = eqs[i] == 1
        if nm == "lighten-darken-undo" and not ul:
            ok = True
        if nm == "saturate-desaturate-undo" and not us:
            ok = True
        if nm == "opacify-transparentize-undo" and not ua:
            ok = True
        # a colour kept in hwb form is compared with an hwb / rgb result through rgba channels: K5 does not apply there
        k5_here = k5 and not (is_hwb and nm in HWB_SAFE)
        cl.append((nm, ok, cls((k5_here, K5), (k8, K8))))
    return {"corr": None if corr == 2 else (corr == 1), "clauses": cl, "nontrivial": c["amt"] != 0,
            "tags": [c["k"]] + [n for f, n in ((k5, "K5"), (k8, "K8")) if f],
            "show": f"{expr_of(c)} amount {base.ntext(c['amt'])}% alpha {base.ntext(c['aamt'])} weight {base.ntext(c['w'])}%",
            "detail": expr_of(c)}


LEVEL_TEXT = ("proof: laws that are exact in binary64 for every colour (grayscale; lighten/darken move the lightness by exactly the amount; "
              "saturate and set_alpha clamp into [0,1]; change/adjust identity) by computation and case analysis on Flocq comparisons; cancelling "
              "pairs through `==` by finite sweep over the named colours; model tied to the code by bit-exact correspondence of eleven derived "
              "colours and ten `==` answers per case")
LEVEL_NOTE = ("trusted: Coq kernel+vm_compute, Flocq binary64, harness command `color`; cancelling-pair laws are partial (swept); the statement "
              "is false on the pinned tree in two recorded classes (exact hsl comparison, out-of-range sources); F33 and F38 are fixed upstream")
TECHNIQUE = "Coq proof (laws exact in binary64 for all colours; finite sweeps for cancelling pairs) + bit-exact differential correspondence"
