"""C13 - Map keys follow `==`; OrderMap; map functions."""
import re
from common import *
from valpool import *

ID = "C13"
GEN = ["Units"]          # number == goes through Model.Numeric, whose tables are regenerated from unit.rs
THEOREMS = ["C13_inv", "C13_literal_dup", "C13_lookup", "C13_has_key", "C13_set_get", "C13_set_shape",
            "C13_set_others", "C13_remove", "C13_merge_keys", "C13_merge_get", "C13_pool_equiv", "C13_pool_merge_get",
            "C13_refines_set", "C13_refines_remove", "C13_refines_literal", "C13_set_path_keys",
            "C13_map_eq_is_om_eq", "C13_eq_spec", "C13_eq_order_left", "C13_eq_order_right", "C13_pool_eq_order"]
COQ_HEADER = ("From Coq Require Import String List NArith ZArith.\nFrom RV Require Import Run.C13.\n"
              "Import ListNotations.\nLocal Open Scope list_scope.")
RUN_EXPR = "Run.C13.run"
RULE = ("programs: a map literal of 0-8 entries (keys from a pool of 33 values in 21 ==-classes written in different "
        "representations: 1/1.0/1e0, 1in/96px/2.54cm, a/\"a\"/'a', lists, maps; ~15% with two == keys) followed by 1-8 "
        "operations from get/has-key/remove/set (also key paths)/merge/keys/values/== literal in both operand orders (incl. "
        "same-size near misses with one key replaced and null values)/list.index over maps, the map printed with "
        "inspect() after every step; distinct = distinct program; non-trivial = at least one operation probes a key "
        "written differently from the stored one or changes the map")
EXHAUSTIVE = {"quick": False, "thorough": False}
TRUSTED = ["Spec/MapSpec.v: reference map semantics written from the Sass documentation",
           "number printing is taken from rsass (the `shown` text of the 13 pool numbers); number == is Model/Numeric.v over Flocq"]
ASSUMPTIONS = ["keys/values of generated programs come from key_pool/val_pool of Run/C13.v (python mirrors them by index)",
               "only single-key get/has-key and two-argument merge are modelled; deep-merge/deep-remove are not"]

KEYS = [num("1"), num("1.0", shown="1"), num("1e0", shown="1"), num("2"), num("0.5"), num(".5", shown="0.5"),
        num("1in", "in"), num("96px", "px"), num("1px", "px"), num("2.54cm", "cm"), num("100%", "%"), num("0"),
        num("-0", shown="0"),
        s("a"), s("a", "double"), s("a", "single"), s("b"), s("b", "double"), s("1", "double"), s("a b", "double"),
        s("", "double"),
        T, F, NULL,
        lst([num("1"), num("2")]), lst([num("1"), num("2")], "comma"), lst([num("1"), num("2")], "space", True),
        lst([num("1.0", shown="1"), num("2")]), lst([s("a"), s("b")]), lst([s("a", "double"), s("b")]), lst([], None),
        mp([(s("a"), num("1"))]), mp([(s("a", "double"), num("1.0", shown="1"))])]
# ==-classes of KEYS (generation bias only; the verdict never depends on it)
KCLASS_OF = [0, 0, 0, 1, 2, 2, 3, 3, 4, 3, 5, 6, 6, 7, 7, 7, 8, 8, 9, 10, 11, 12, 13, 14, 15, 16, 17, 15, 18, 18, 19, 20, 20]
VALS = [num("1"), num("2"), num("3"), s("x"), s("y", "double"), NULL, lst([num("1"), num("2")], "comma"),
        mp([(s("a"), num("1"))]), mp([(s("a"), mp([(s("b"), num("1"))]))]), lst([], None), T,
        lst([s("a")], None, True)]
assert len(KCLASS_OF) == len(KEYS)


def emit_pool():
    """Coq text of the pools (paste into Run/C13.v when the pools change)."""
    return ("Definition key_pool : list value :=\n  " + clist(["\n   " + coq(k) for k in KEYS]) + ".\n"
            "Definition val_pool : list value :=\n  " + clist(["\n   " + coq(k) for k in VALS]) + ".\n")


def rand_literal(rng, n, dup_ok):
    ks = []
    classes = set()
    tries = 0
    while len(ks) < n and tries < 200:
        tries += 1
        k = rng.randrange(len(KEYS))
        if not dup_ok and KCLASS_OF[k] in classes:
            continue
        classes.add(KCLASS_OF[k])
        ks.append(k)
    return [[k, rng.randrange(len(VALS))] for k in ks]


def rand_key(rng, near):
    """a key, biased towards the ==-classes in `near` (list of key indices)"""
    if near and rng.random() < 0.7:
        c = KCLASS_OF[rng.choice(near)]
        return rng.choice([i for i in range(len(KEYS)) if KCLASS_OF[i] == c])
    return rng.randrange(len(KEYS))


def rand_prog(rng, maxops=8):
    n = rng.choice([0, 1, 2, 2, 3, 3, 4, 5, 6, 8])
    init = rand_literal(rng, n, rng.random() < 0.12)
    near = [k for k, _ in init]
    ops = []
    if init and rng.random() < 0.35:
        p = init[:]
        rng.shuffle(p)
        if rng.random() < 0.3:
            p[0] = [p[0][0], rng.randrange(len(VALS))]
        ops.append(["eq", p])
    if init and not any(KCLASS_OF[a] == KCLASS_OF[b] for i, (a, _) in enumerate(init) for (b, _) in init[:i]) \
            and rng.random() < 0.45:
        # near misses: same size, one key replaced by a key of another ==-class; the replaced / kept
        # values are often null (a missing key must not compare like a null value); both operand orders
        i = rng.randrange(len(init))
        if rng.random() < 0.6:
            init[i] = [init[i][0], 5]                      # value null on the left
        others = [k for k in range(len(KEYS)) if all(KCLASS_OF[k] != KCLASS_OF[a] for a, _ in init)]
        miss = [list(e) for e in init]
        miss[i] = [rng.choice(others), rng.choice([5, 5, rng.randrange(len(VALS))])]
        if rng.random() < 0.5:
            rng.shuffle(miss)
        same = [list(e) for e in init]
        rng.shuffle(same)
        ops.append([rng.choice(["eq", "eqr"]), miss])
        ops.append([rng.choice(["eq", "eqr"]), miss])
        if rng.random() < 0.6:
            cands = [miss, same, rand_literal(rng, rng.choice([0, 1, 2]), False)]
            rng.shuffle(cands)
            ops.append(["index", cands[:rng.choice([1, 2, 3])]])
    for _ in range(rng.randint(1, maxops)):
        r = rng.random()
        if r < 0.18:
            ops.append(["get", rand_key(rng, near)])
        elif r < 0.30:
            ops.append(["has", rand_key(rng, near)])
        elif r < 0.45:
            ops.append(["remove", [rand_key(rng, near) for _ in range(rng.choice([0, 1, 1, 1, 2, 3]))]])
        elif r < 0.68:
            k = rand_key(rng, near)
            near.append(k)
            path = [k]
            if rng.random() < 0.12:
                path.append(rng.choice([13, 14, 16, 0]))
                if rng.random() < 0.3:
                    path.append(rng.choice([16, 17, 3]))
            ops.append(["set", path, rng.randrange(len(VALS))])
        elif r < 0.86:
            m2 = rand_literal(rng, rng.choice([0, 1, 2, 3, 4]), rng.random() < 0.08)
            m2 = [[rand_key(rng, near) if rng.random() < 0.5 else k, v] for k, v in m2] if rng.random() < 0.5 else m2
            near.extend(k for k, _ in m2)
            ops.append(["merge", m2])
        elif r < 0.90:
            ops.append(["keys"])
        elif r < 0.94:
            ops.append(["values"])
        elif r < 0.97:
            ops.append([rng.choice(["eq", "eqr"]), rand_literal(rng, rng.choice([0, 1, 2]), False)])
        else:
            ops.append(["index", [rand_literal(rng, rng.choice([0, 1, 2]), rng.random() < 0.05) for _ in range(rng.choice([1, 2, 3]))]])
    return {"init": init, "ops": ops}


CORPUS = [
    {"init": [[13, 0], [16, 1]], "ops": [["eq", [[16, 1], [13, 0]]], ["eq", [[14, 0], [17, 1]]]]},      # former F20 witness
    {"init": [[13, 7], [16, 1]], "ops": [["set", [13, 16], 2]]},                                         # former F30 witness
    {"init": [[13, 0], [14, 1]], "ops": [["keys"]]},                                                     # duplicate literal
    {"init": [[6, 0]], "ops": [["get", 7], ["has", 9], ["set", [7], 1], ["merge", [[9, 2], [8, 0]]], ["remove", [7, 8]]]},
    {"init": [], "ops": [["merge", []], ["eq", []], ["set", [0], 0], ["remove", [1]], ["eq", []]]},
    {"init": [[0, 0], [3, 1]], "ops": [["merge", [[1, 2], [2, 3]]]]},                                    # duplicate in merge literal
    {"init": [[11, 0]], "ops": [["get", 12], ["set", [12], 1], ["remove", [11]]]},
    {"init": [[24, 0], [25, 1], [26, 2]], "ops": [["get", 27], ["remove", [27, 25]], ["values"]]},
    # a key missing on the right is not a null value (seeded change C13-1), both orders, and through list.index
    {"init": [[13, 0], [16, 5]], "ops": [["eq", [[13, 0], [3, 1]]], ["eqr", [[13, 0], [3, 1]]], ["index", [[[13, 0], [3, 1]], [[16, 5], [13, 0]]]]]},
    {"init": [[13, 0], [3, 1]], "ops": [["eq", [[13, 0], [16, 5]]], ["eqr", [[13, 0], [16, 5]]], ["index", [[[13, 0], [16, 5]]]]]},
    {"init": [[23, 5]], "ops": [["eq", [[13, 5]]], ["eqr", [[13, 5]]], ["eq", [[23, 5]]], ["index", [[], [[13, 5]], [[23, 5]]]]]},
    {"init": [[31, 0]], "ops": [["has", 32], ["set", [32, 13], 4], ["set", [31, 14, 16], 1]]},
]


def gen_cases(ctx, tier):
    rng = ctx.rng
    cases = [dict(c) for c in CORPUS]
    n = 450 if tier == "quick" else 6000
    for _ in range(n):
        cases.append(rand_prog(rng))
    return cases


def search_cases(ctx, broken):
    return [rand_prog(ctx.rng, 12) for _ in range(1500)]


def lit_src(l):
    if not l:
        return "()"
    return "(" + ", ".join(src(KEYS[k]) + ": " + src(VALS[v]) for k, v in l) + ")"


def program(c):
    out = ['@use "sass:map";', '@use "sass:list";', "a {", "  $m: " + lit_src(c["init"]) + ";", "  s0: inspect($m);"]
    for i, o in enumerate(c["ops"], 1):
        t = o[0]
        if t == "get":
            out.append(f"  s{i}: inspect(map.get($m, {src(KEYS[o[1]])}));")
        elif t == "has":
            out.append(f"  s{i}: inspect(map.has-key($m, {src(KEYS[o[1]])}));")
        elif t == "remove":
            args = "".join(", " + src(KEYS[k]) for k in o[1])
            out.append(f"  $m: map.remove($m{args});")
            out.append(f"  s{i}: inspect($m);")
        elif t == "set":
            args = "".join(", " + src(KEYS[k]) for k in o[1])
            out.append(f"  $m: map.set($m{args}, {src(VALS[o[2]])});")
            out.append(f"  s{i}: inspect($m);")
        elif t == "merge":
            out.append(f"  $m: map.merge($m, {lit_src(o[1])});")
            out.append(f"  s{i}: inspect($m);")
        elif t == "keys":
            out.append(f"  s{i}: inspect(map.keys($m));")
        elif t == "values":
            out.append(f"  s{i}: inspect(map.values($m));")
        elif t == "eq":
            out.append(f"  s{i}: inspect($m == {lit_src(o[1])});")
        elif t == "eqr":
            out.append(f"  s{i}: inspect({lit_src(o[1])} == $m);")
        elif t == "index":
            items = ", ".join(lit_src(l) for l in o[1]) + ("," if len(o[1]) == 1 else "")
            out.append(f"  s{i}: inspect(list.index(({items}), $m));")
    out.append("}")
    return "\n".join(out) + "\n"


def impl_requests(c):
    return [("scss", "expanded", "10", program(c))]


LINE = re.compile(rb"^  s(\d+): (.*);$")


def impl_lines(io, nops):
    """The printed steps, or None when the compilation failed, or 'bad' when the output is unexpected."""
    tag, f = io[0]
    if tag == "err":
        return None
    if tag != "ok":
        return "bad"
    lines = f[0].split(b"\n")
    got = {}
    for l in lines:
        m = LINE.match(l)
        if m:
            got[int(m.group(1))] = m.group(2)
    if sorted(got) != list(range(nops + 1)):
        return "bad"
    return [got[i] for i in range(nops + 1)]


def cpairs(l):
    return clist([f"({k}%nat, {v}%nat)" for k, v in l])


def cnats(l):
    return clist([f"{k}%nat" for k in l])


def op_term(o):
    t = o[0]
    if t == "get":
        return f"OGet {o[1]}%nat"
    if t == "has":
        return f"OHas {o[1]}%nat"
    if t == "remove":
        return f"ORemove {cnats(o[1])}"
    if t == "set":
        return f"OSet {cnats(o[1])} {o[2]}%nat"
    if t == "merge":
        return f"OMerge {cpairs(o[1])}"
    if t == "keys":
        return "OKeys"
    if t == "values":
        return "OValues"
    if t == "eq":
        return f"OEq {cpairs(o[1])}"
    if t == "eqr":
        return f"OEqRev {cpairs(o[1])}"
    if t == "index":
        return f"OIndex {clist([cpairs(l) for l in o[1]])}"
    raise ValueError(o)


def coq_term(c, io):
    ls = impl_lines(io, len(c["ops"]))
    if ls == "bad":
        impl = "(Some [[0%N]])"          # never equal to a model trace (which has no NUL bytes)
    elif ls is None:
        impl = "None"
    else:
        impl = "(Some " + clist([cbytes(l) for l in ls]) + ")"
    return f"(mkCase {cpairs(c['init'])} {clist([op_term(o) for o in c['ops']])} {impl})"


KCLASS = {0: None}


def nontrivial(c):
    stored = {k for k, _ in c["init"]}
    for o in c["ops"]:
        if o[0] in ("set", "merge", "remove"):
            return True
        if o[0] in ("get", "has") and o[1] not in stored and any(KCLASS_OF[o[1]] == KCLASS_OF[k] for k in stored):
            return True
    return False


def judge(c, io, r):
    corr, c1, k1, c2, k2, c3, k3 = r
    tag = io[0][0]
    return {
        "corr": corr == 1 and tag in ("ok", "err"),
        "clauses": [("operations", c1 == 1, KCLASS[k1]), ("equality-ignores-order", c2 == 1, KCLASS[k2]),
                    ("duplicate-key-error", c3 == 1, KCLASS[k3])],
        "nontrivial": nontrivial(c),
        "tags": sorted({o[0] for o in c["ops"]}) + (["compile-error"] if tag == "err" else []),
        "show": program(c).replace("\n", " "),
        "detail": program(c),
    }


def shrink(c):
    ops = c["ops"]
    for i in range(len(ops)):
        yield dict(c, ops=ops[:i] + ops[i + 1:])
    init = c["init"]
    for i in range(len(init)):
        yield dict(c, init=init[:i] + init[i + 1:])
    for i, o in enumerate(ops):
        if o[0] in ("merge", "index") and o[1]:
            for j in range(len(o[1])):
                if o[0] == "index" and len(o[1]) == 1:
                    continue
                yield dict(c, ops=ops[:i] + [[o[0], o[1][:j] + o[1][j + 1:]]] + ops[i + 1:])


LEVEL_TEXT = ("proof: ordermap.rs modelled over an abstract key equality; NoDupKeys invariant by induction over arbitrary "
              "operation sequences; first-match lookup, set/get, merge key order and values, refinement of every operation "
              "to a find/filter reference semantics under an equivalence hypothesis on the keys involved, discharged for "
              "the 33-value key pool by a vm_compute sweep; model tied to rsass by byte-exact inspect() traces of random programs")
LEVEL_NOTE = ("F20 (order-sensitive map equality) and F30 (map.set with a key path moved the key) were fixed in /repo by 0a747ec and "
              "bedae15; the equality law is now proved (spec + permutation invariance); deep-merge/deep-remove and multi-key "
              "get are outside the model")
TECHNIQUE = "Coq proof (induction, invariant over op sequences, refinement, pool sweep) + differential correspondence on SCSS programs"
