"""C17 - Control-flow directives run the specified iterations."""
import re, struct
from fractions import Fraction
from common import *

ID = "C17"
GEN = ["Units"]
THEOREMS = ["C17_range", "C17_range_never_panics", "C17_for_total",
            "C17_for_unit", "C17_bounds_units", "C17_if_chain", "C17_define_multi", "C17_each", "C17_while_sound", "C17_while_complete",
            "C17_while_spec"]
COQ_HEADER = ("From Coq Require Import String List ZArith NArith.\n"
              "From RV Require Import Model.EvValue Model.EvFlow Run.C17.\n"
              "Import ListNotations.\nLocal Open Scope string_scope.")
RUN_EXPR = "Run.C17.run"
RULE = ("@for: bounds in [-6,6] (and converted multiples) x 31 units x through/to, plus bounds at 2^53 and the i64 limits; "
        "@if: chains of 1..4 branches over 14 condition values, with/without @else; @each: 1..3 names over lists/maps "
        "of <= 6 items with nested lists; @while: counter loops (5 comparisons, steps 1..3) and truthiness walks over lists; "
        "distinct = distinct source text; non-trivial = at least one declaration emitted or an error expected")
EXHAUSTIVE = {"quick": False, "thorough": False}
TRUSTED = ["Spec/SassFlow.v: reference semantics of @if/@for/@each/@while written from the property text",
           "Spec/CssUnits.v: CSS unit ratios",
           "Model/EvValue.v inspect: printer of the generated value fragment (used to read the implementation's "
           "inspect() text; validated by the exact-text correspondence on every case)",
           "python: number text -> binary64 (float()) for the @for outputs"]
ASSUMPTIONS = ["@while is modelled over an abstract state; the generated loops use integer counters |i| <= 2^20 (exact in f64)",
               "bodies of directives are observed through the declarations they emit (x: $i, n: inspect($n))",
               "@for bounds beyond the i64 range (1e300; also the literal 9223372036854775807, which is the f64 2^63 and saturates to i64::MAX) are generated only with from = to"]

UNITS = ["em", "ex", "ch", "rem", "vw", "vh", "vmin", "vmax", "cm", "mm", "Q", "in", "pt", "pc", "px",
         "deg", "grad", "rad", "turn", "s", "ms", "Hz", "kHz", "dpi", "dpcm", "dppx", "%", "fr",
         "", "foo", "bar"]
RATIO = {"px": ("length", Fraction(1)), "in": ("length", Fraction(96)), "pt": ("length", Fraction(96, 72)),
         "pc": ("length", Fraction(16)), "cm": ("length", Fraction(9600, 254)), "mm": ("length", Fraction(960, 254)),
         "Q": ("length", Fraction(960, 1016)), "deg": ("angle", Fraction(1)), "grad": ("angle", Fraction(9, 10)),
         "turn": ("angle", Fraction(360)), "s": ("time", Fraction(1)), "ms": ("time", Fraction(1, 1000)),
         "Hz": ("freq", Fraction(1)), "kHz": ("freq", Fraction(1000)), "dppx": ("res", Fraction(1)),
         "dpi": ("res", Fraction(1, 96)), "dpcm": ("res", Fraction(254, 9600))}


def bits(x):
    return struct.unpack(">Q", struct.pack(">d", x))[0]


def num_text(x):
    x = float(x)
    if x == int(x) and abs(x) < 1e22:
        return str(int(x))
    return repr(x)


# ---------------------------------------------------------------- values
def v_src(v, top=False):
    t = v[0]
    if t in ("null", "true", "false"):
        return t
    if t == "int":
        return str(v[1])
    if t == "id":
        return v[1]
    if t == "str":
        return '"' + v[1] + '"'
    if t == "list":
        items, sep, br = v[1], v[2], v[3]
        j = ", " if sep == "comma" else " "
        inner = j.join(v_src(i) for i in items)
        if len(items) == 1 and sep == "comma":
            inner += ","
        return ("[" + inner + "]") if br else ("(" + inner + ")")
    if t == "map":
        return "(" + ", ".join(v_src(k) + ": " + v_src(w) for k, w in v[1]) + ")"
    raise ValueError(v)


def v_coq(v):
    t = v[0]
    if t == "null":
        return "VNull"
    if t == "true":
        return "VTrue"
    if t == "false":
        return "VFalse"
    if t == "int":
        return f"(VInt {cz(v[1])})"
    if t == "id":
        return f"(VIdent {cstring(v[1])})"
    if t == "str":
        return f"(VStr {cstring(v[1])})"
    if t == "list":
        sep = {"comma": "(Some SpComma)", "space": "(Some SpSpace)", None: "None"}[v[2]]
        return f"(VList {clist([v_coq(i) for i in v[1]])} {sep} {cbool(v[3])})"
    if t == "map":
        return "(VMap " + clist([f"({v_coq(k)}, {v_coq(w)})" for k, w in v[1]]) + ")"
    raise ValueError(v)


IDENTS = [p + str(d) for p in "abcdefgh" for d in range(1, 5)]


def gen_atom(rng, nulls=True):
    r = rng.random()
    if r < 0.5:
        return ["id", rng.choice(IDENTS)]
    if r < 0.7:
        return ["int", rng.randrange(0, 20)]
    if r < 0.8:
        return ["str", rng.choice(["q", "s t", "zz"])]
    if r < 0.9 and nulls:
        return ["null"]
    return [rng.choice(["true", "false"])]


def gen_list(rng, depth, maxlen=4):
    n = rng.choice([0, 1, 2, 2, 3, 3, 4][:maxlen + 3])
    br = rng.random() < 0.2
    if n == 0:
        return ["list", [], None, br]
    items = [gen_value(rng, depth - 1) for _ in range(n)]
    if n == 1:
        if rng.random() < 0.6 or not br:
            return ["list", items, "comma", br]
        return ["list", items, None, br]
    return ["list", items, rng.choice(["space", "comma"]), br]


def gen_map(rng, depth):
    n = rng.randrange(1, 4)
    keys = rng.sample(IDENTS, n)
    return ["map", [[["id", k], gen_value(rng, depth - 1)] for k in keys]]


def gen_value(rng, depth):
    if depth <= 0 or rng.random() < 0.45:
        return gen_atom(rng)
    if rng.random() < 0.2:
        return gen_map(rng, depth)
    return gen_list(rng, depth)


# ---------------------------------------------------------------- cases
def for_case(a, ua, b, ub, incl, tags=()):
    return {"k": "for", "a": a, "ua": ua, "b": b, "ub": ub, "incl": incl, "tags": list(tags)}


def gen_for(rng, n):
    out = []
    for _ in range(n):
        r = rng.random()
        a = rng.randrange(-6, 7)
        t = rng.randrange(-6, 7)
        incl = rng.random() < 0.5
        if r < 0.35:
            u = rng.choice(UNITS)
            out.append(for_case(a, u, t, rng.choice([u, u, ""]), incl))
        elif r < 0.45:
            out.append(for_case(a, "", t, rng.choice(UNITS), incl))
        elif r < 0.75:
            # compatible units: b is the multiple that converts to the integer t
            ua = rng.choice(list(RATIO))
            ub = rng.choice([u for u in RATIO if RATIO[u][0] == RATIO[ua][0]])
            k = rng.choice([1, 1, 2, 12, 96])
            a2, t2 = a * k, t * k if abs(t * k - a * k) <= 24 else a * k + rng.randrange(-6, 7)
            b = float(Fraction(t2) * RATIO[ua][1] / RATIO[ub][1])
            out.append(for_case(a2, ua, b, ub, incl, ["convert"]))
        elif r < 0.85:
            out.append(for_case(a, rng.choice(UNITS), t, rng.choice(UNITS), incl, ["anyunits"]))
        elif r < 0.93:
            # non-integers
            fr = rng.choice([0.5, 0.25, 0.001953125, 1e-7, 0.9])
            if rng.random() < 0.5:
                out.append(for_case(a + fr, rng.choice(["", "px"]), t, "", incl, ["nonint"]))
            else:
                out.append(for_case(a, rng.choice(["", "px"]), t + fr, "", incl, ["nonint"]))
        else:
            # almost-integers (float noise far below any reasonable tolerance)
            out.append(for_case(a, "", t + rng.choice([1e-13, -1e-13, 3e-12]), "", incl, ["nearint"]))
    return out


EXTREMES = [
    ("9223372036854775806", "9223372036854775807", True),
    ("9223372036854775807", "9223372036854775807", True),
    ("9223372036854774784", "9223372036854774790", False),
    ("-9223372036854774784", "-9223372036854775808", True),
    ("-9223372036854775808", "-9223372036854775808", True),
    ("-9223372036854775808", "-9223372036854775808", False),
    ("9223372036854775807", "9223372036854775807", False),
    ("9007199254740992", "9007199254740996", True),
    ("9007199254740996", "9007199254740990", False),
    ("-9007199254740992", "-9007199254740997", True),
    ("4611686018427387904", "4611686018427387904", True),
    ("4611686018427387904", "4611686018427387904", False),
    ("4611686018427387904", "4611686018427387907", False),
    ("9223372036854774784", "9223372036854774790", True),
]


def if_case(conds, has_else):
    return {"k": "if", "conds": conds, "else": has_else}


def gen_if(rng, n):
    condv = [["null"], ["false"], ["true"], ["int", 0], ["int", 1], ["str", ""], ["id", "a1"],
             ["list", [], None, False], ["list", [], None, True], ["list", [["null"]], "comma", False],
             ["list", [["false"], ["null"]], "space", False], ["map", [[["id", "b1"], ["null"]]]],
             ["str", "false"], ["id", "c2"]]
    out = []
    for c in condv:
        out.append(if_case([c], False))
        out.append(if_case([c], True))
    for _ in range(n):
        k = rng.randrange(1, 5)
        conds = [rng.choice(condv[:2] * 4 + condv) for _ in range(k)]
        out.append(if_case(conds, rng.random() < 0.5))
    return out


def gen_each(rng, n):
    out = []
    names_pool = ["p", "q", "r"]
    fixed = [
        ["list", [["list", [["id", "a1"], ["id", "b1"]], "space", False],
                  ["list", [["id", "c1"], ["id", "d1"], ["id", "e1"]], "space", False], ["id", "f1"],
                  ["list", [["id", "g1"], ["id", "h1"]], "comma", False]], "space", False],
        ["map", [[["id", "a1"], ["id", "b1"]], [["id", "a2"], ["list", [["id", "c1"], ["id", "d1"]], "comma", False]]]],
        ["list", [], None, False], ["id", "a1"], ["null"],
        ["list", [["map", [[["id", "a1"], ["int", 1]], [["id", "a2"], ["int", 2]]]]], "comma", False],
    ]
    for v in fixed:
        for k in (1, 2, 3):
            out.append({"k": "each", "names": names_pool[:k], "v": v})
    for _ in range(n):
        k = rng.randrange(1, 4)
        r = rng.random()
        if r < 0.7:
            v = gen_list(rng, 3, maxlen=6)
            if rng.random() < 0.3 and len(v[1]) >= 2:
                v[1] = v[1] + [gen_value(rng, 2) for _ in range(rng.randrange(0, 3))]
        elif r < 0.9:
            v = gen_map(rng, 3)
        else:
            v = gen_atom(rng)
        out.append({"k": "each", "names": names_pool[:k], "v": v})
    return out


def gen_while(rng, n):
    out = []
    for _ in range(n):
        c = rng.choice(["lt", "gt", "ne", "le", "ge"])
        a = rng.randrange(-6, 7)
        k = rng.randrange(1, 4)
        steps = rng.randrange(0, 7)
        if c in ("lt", "le"):
            b = a + k * steps - rng.randrange(0, k)
        elif c in ("gt", "ge"):
            b = a - k * steps + rng.randrange(0, k)
            k = -k
        else:
            if rng.random() < 0.5:
                k = -k
            b = a + k * steps
        out.append({"k": "while", "c": c, "a": a, "b": b, "step": k})
    for _ in range(n // 3):
        m = rng.randrange(0, 6)
        items = []
        for _ in range(m):
            v = gen_value(rng, 2)
            while v[0] in ("null", "false"):
                v = gen_value(rng, 2)
            items.append(v)
        items.append(rng.choice([["null"], ["false"]]))
        items += [gen_value(rng, 1) for _ in range(rng.randrange(0, 3))]
        out.append({"k": "wlist", "l": items})
    return out


def gen_cases(ctx, tier):
    rng = ctx.rng
    cases = []
    for a, b, incl in EXTREMES:
        cases.append({"k": "forx", "a": a, "b": b, "incl": incl})
    for (a, ua, b, ub, incl) in [(1, "", 3, "", True), (3, "", 0, "", False), (3, "px", 1, "in", False),
                                 (96, "px", 2.54, "cm", True), (1, "px", 3, "s", True), (1, "", 3, "px", True),
                                 (1.5, "", 3, "", True), (1, "em", 4, "ex", True), (1, "em", 3, "ex", True),
                                 (1, "vmin", 3, "vmax", True), (1, "%", 3, "fr", False), (0, "", 0, "", False),
                                 (0, "", 0, "", True), (1, "foo", 2, "bar", True), (1, "foo", 2, "foo", True)]:
        cases.append(for_case(a, ua, b, ub, incl))
    # witness of the open finding F38 (the literal `[()]` is parsed as an empty list)
    cases.append({"k": "each", "names": ["p"], "v": ["list", [["list", [], "space", False]], "space", True]})
    mult = 1 if tier == "quick" else 12
    cases += gen_for(rng, 700 * mult)
    cases += gen_if(rng, 300 * mult)
    cases += gen_each(rng, 500 * mult)
    cases += gen_while(rng, 240 * mult)
    return cases


def search_cases(ctx, broken):
    rng = ctx.rng
    return gen_for(rng, 1500) + gen_each(rng, 800) + gen_if(rng, 300) + gen_while(rng, 300)


# ---------------------------------------------------------------- transport
def src_of(c):
    k = c["k"]
    if k == "for":
        return "a { @for $i from %s%s %s %s%s { x: $i } }" % (
            num_text(c["a"]), c["ua"], "through" if c["incl"] else "to", num_text(c["b"]), c["ub"])
    if k == "forx":
        return "a { @for $i from %s %s %s { x: $i } }" % (c["a"], "through" if c["incl"] else "to", c["b"])
    if k == "if":
        parts = []
        for i, cond in enumerate(c["conds"]):
            parts.append(("@if " if i == 0 else "@else if ") + v_src(cond) + " { x: %d }" % i)
        if c["else"]:
            parts.append("@else { x: %d }" % len(c["conds"]))
        return "a { " + " ".join(parts) + " }"
    if k == "each":
        ns = c["names"]
        return "a { @each %s in %s { %s } }" % (", ".join("$" + n for n in ns), v_src(c["v"]),
                                               " ".join(f"{n}: inspect(${n});" for n in ns))
    if k == "while":
        op = {"lt": "<", "gt": ">", "ne": "!=", "le": "<=", "ge": ">="}[c["c"]]
        return "a { $i: %d; @while $i %s %d { x: $i; $i: $i + %d } }" % (c["a"], op, c["b"], c["step"])
    if k == "wlist":
        l = ["list", c["l"], "comma", False]
        return "a { $l: %s; $n: 1; @while nth($l, $n) { x: $n; $n: $n + 1 } }" % v_src(l)
    raise ValueError(k)


def impl_requests(c):
    return [("scss", "expanded", "10", src_of(c))]


DECL = re.compile(r"^  ([a-z]+): (.*);$")
NUM = re.compile(r"^(-?(?:\d+\.?\d*|\.\d+)(?:e[+-]?\d+)?)(.*)$")


def parse_decls(css):
    """expanded output of `a { ... }` -> [(name, value text)] or None."""
    txt = css.decode("utf-8", "replace")
    if txt.strip() == "":
        return []
    lines = txt.rstrip("\n").split("\n")
    if lines[0] != "a {" or lines[-1] != "}":
        return None
    out = []
    for l in lines[1:-1]:
        m = DECL.match(l)
        if not m:
            return None
        out.append((m.group(1), m.group(2)))
    return out


def impl_term(c, io):
    tag, f = io[0]
    if tag == "err":
        return "IErr"
    if tag == "panic":
        return "IPanic"
    if tag != "ok":
        return "IOther"
    ds = parse_decls(f[0])
    if ds is None:
        return "IOther"
    if c["k"] in ("for", "forx"):
        items = []
        for n, v in ds:
            m = NUM.match(v)
            if not m or n != "x" or not all(32 <= ord(ch) < 127 for ch in m.group(2)):
                return "IOther"
            items.append(f"({cz(bits(float(m.group(1))))}, {cstring(m.group(2))})")
        return "(INums " + clist(items) + ")"
    return "(IDecls " + clist([f"({cstring(n)}, {cbytes(v)})" for n, v in ds]) + ")"


def if_term(conds, has_else, i=0):
    c = v_coq(conds[i])
    if i + 1 < len(conds):
        e = "(EIf " + if_term(conds, has_else, i + 1) + ")"
    elif has_else:
        e = f"(EBody {len(conds)}%nat)"
    else:
        e = "ENone"
    return f"(IfS {c} {i}%nat {e})"


def input_term(c):
    k = c["k"]
    if k == "for":
        return (f"(CFor {cz(bits(float(num_text(c['a']))))} {cstring(c['ua'])} "
                f"{cz(bits(float(num_text(c['b']))))} {cstring(c['ub'])} {cbool(c['incl'])})")
    if k == "forx":
        return f"(CFor {cz(bits(float(c['a'])))} \"\" {cz(bits(float(c['b'])))} \"\" {cbool(c['incl'])})"
    if k == "if":
        return "(CIf " + if_term(c["conds"], c["else"]) + ")"
    if k == "each":
        return "(CEach " + clist([cstring(n) for n in c["names"]]) + " " + v_coq(c["v"]) + ")"
    if k == "while":
        cm = {"lt": "WLt", "gt": "WGt", "ne": "WNe", "le": "WLe", "ge": "WGe"}[c["c"]]
        return f"(CWhile {cm} {cz(c['a'])} {cz(c['b'])} {cz(c['step'])})"
    if k == "wlist":
        return "(CWhileList " + clist([v_coq(v) for v in c["l"]]) + ")"
    raise ValueError(k)


def coq_term(c, io):
    return f"(mkCase {input_term(c)} {impl_term(c, io)})"


KCLASS = {0: None}
KIND = {1: "for", 2: "if", 3: "each", 4: "while", 5: "while-list"}


def judge(c, io, r):
    corr, ok, k, kind = r
    tag = io[0][0]
    nontriv = tag != "ok" or io[0][1][0].strip() != b""
    kclass = KCLASS[k]
    # F38: the literal `[()]` (a bracketed list holding the empty list) is read by the PARSER as the empty
    # bracketed list; the value never reaches the modelled code, so such inputs are outside the model and
    # the clause failure belongs to the class decided by the source text alone
    if "[()]" in src_of(c):
        corr = 2
        if kclass is None:
            kclass = "known_C17_K3_bracketed_unit_list"
    return {
        "corr": None if corr == 2 else (corr == 1),
        "clauses": [(KIND[kind], ok == 1, kclass)],
        "nontrivial": nontriv,
        "key": src_of(c),
        "tags": [KIND[kind], tag] + list(c.get("tags", [])),
        "show": src_of(c),
        "detail": src_of(c),
    }


def shrink(c):
    k = c["k"]
    if k == "each":
        v = c["v"]
        if v[0] == "list" and len(v[1]) > 1:
            for i in range(len(v[1])):
                yield dict(c, v=["list", v[1][:i] + v[1][i + 1:], v[2] if len(v[1]) > 2 else "comma", v[3]])
        if len(c["names"]) > 1:
            yield dict(c, names=c["names"][:-1])
    if k == "if" and len(c["conds"]) > 1:
        for i in range(len(c["conds"])):
            yield dict(c, conds=c["conds"][:i] + c["conds"][i + 1:])
    if k == "for":
        for u in ("", "px"):
            if c["ua"] != u or c["ub"] != u:
                yield dict(c, ua=u, ub=u)


LEVEL_TEXT = ("proof: for ALL i64 bounds the model of ValueRange (i128 end bound) yields exactly the integer interval (ascending/"
              "descending, inclusive/exclusive) and never panics (F2 fixed by 48adbab); "
              "if-chains run the first truthy branch (induction over the chain); define_multi/@each equal the reference "
              "destructuring for all names and values; @while runs while truthy (sound + complete in the fuel); the models "
              "are tied to the code by exact-output correspondence on generated programs")
LEVEL_NOTE = ("trusted: Coq kernel+vm_compute, Flocq binary64, gen/rs2v.py unit tables, the harness, Spec/SassFlow.v, "
              "Spec/CssUnits.v, the inspect printer; bodies are abstract (observed through emitted declarations); "
              "F2 fixed by 48adbab, F15 (invented unit ratios) fixed by c9cdb70; one open finding (F38: the literal `[()]` is parsed as an empty list)")
TECHNIQUE = "Coq proof (induction / arithmetic over Z) + differential correspondence on generated SCSS programs"
