"""C05 - Compilation is deterministic and isolated."""
import hashlib, os
from concurrent.futures import ThreadPoolExecutor
import common
from common import *
import sheetgen

ID = "C05"
GEN = ["Statics"]
THEOREMS = ["C05_statics_closed", "C05_classes", "C05_mutators_closed", "C05_scope_shape",
            "C05_interleaving_partial", "C05_history_independent_partial",
            "C05_call_sites_closed", "C05_call_site_classes", "C05_builtins_never_written_partial", "C05_guard_needed"]
COQ_HEADER = "From Coq Require Import List ZArith.\nFrom RV Require Import Run.C05.\nImport ListNotations."
RUN_EXPR = "Run.C05.run"
RULE = ("histories of 1..50 compilations in ONE process over generated stylesheets (valid and failing) and isolation probes "
        "(@use sass:math with(..), math.$pi assignment, @use .. as * then assignment, user functions shadowing built-ins, "
        "!global variables, configured file modules, meta.load-css of built-ins, failing compilations in between), each answer "
        "compared with the answer of a fresh process; the same on 2..16 threads compiling at once with yield perturbation; "
        "distinct = distinct history; no input calls random() or unique-id()")
EXHAUSTIVE = {"quick": False, "thorough": False}
TRUSTED = ["answers are compared through the first 16 bytes of their SHA-256",
           "a fresh harness process per baseline compilation is 'a fresh state'",
           "real thread schedules are whatever the OS produced (yield_now perturbation in the harness); not enumerated",
           "Model/Statics.v classification of each inventoried item was done by reading the code"]
ASSUMPTIONS = ["proof part is partial: the inventory is closed and classified, the store model is schedule-independent; that the "
               "evaluator touches process-wide state only through the inventoried items is explored, not proved",
               "stderr (deprecation warnings behind Once flags) is not part of the compared result"]
TIMEOUT_PER_CASE = 60.0

PROBES = [
    '@use "sass:math" with ($pi: 3); a{b:math.$pi}',
    '@use "sass:math"; math.$pi: 3; a{b:math.$pi}',
    '@use "sass:math"; a{b:math.$pi}',
    '@use "sass:math" as *; $pi: 4; a{b:$pi}',
    '@use "sass:math" as *; a{b:$pi}',
    '@use "sass:math" as *; $pi: 4 !global; a{b:$pi; c: floor(2.5)}',
    '@use "sass:math"; $e: 1 !global; a{b:math.$e $e}',
    '@function str-length($x){@return 7} a{b:str-length("abc")}',
    'a{b:str-length("abc")}',
    '@use "sass:string"; @function length($x){@return 9} a{b:string.length("abc") length(1 2)}',
    '@use "sass:string"; a{b:string.length("abc") length(1 2)}',
    '$leak: 1 !global; a{b:$leak}',
    'a{b:$leak}',
    '@mixin m{c:d} a{@include m}',
    'a{@include m}',
    '@use "sass:meta"; a{@include meta.load-css("sass:math")}',
    '@use "sass:meta"; a{b:meta.function-exists("dbl")} @function dbl($x){@return $x*2}',
    '@use "sass:meta"; a{b:meta.function-exists("dbl") meta.global-variable-exists("leak") meta.mixin-exists("m")}',
    '@use "sass:meta"; a{b:inspect(meta.module-functions("math"))}',
    '@use "sass:meta"; @use "sass:map"; a{b:inspect(map.keys(meta.module-variables("math")))}',
    '@use "sass:map"; @use "sass:meta"; $m: meta.module-variables("math"); $m: map.merge($m, (pi: 3)); a{b:map.get($m, pi)}',
    '@use "tmp/c05/conf" with ($x: 2); a{b:conf.$x}',
    '@use "tmp/c05/conf"; a{b:conf.$x}',
    '@use "tmp/c05/conf" as c; c.$x: 5; a{b:c.$x}',
    '@import "tmp/c05/conf"; a{b:$x}',
    '@forward "tmp/c05/conf" show $x; a{b:c}',
    'a{b:adjust-hue(red, 10deg) call("lighten", red, 10%)}',
    'a{b:call("str-length", "abc")}',
    'a{b:red + blue}',
    '@use "sass:color"; a{b:color.adjust(red, $lightness: 10%)}',
    'a { b: 1/3 } /* c */',
    'a{b:1 +}',
    '@error "boom";',
    '@use "sass:nope";',
    'a{b:selector-extend(".a .b", ".b", ".c")} .x{@extend .y} .y{c:d}',
    '@use "sass:selector"; a{b:selector.unify(".a", ".b")}',
    '%p{c:d} a{@extend %p}',
    '@each $k, $v in (a: 1, b: 2) {.#{$k}{w:$v}}',
    '$m: (z: 1, a: 2, m: 3); a{b:inspect($m) map-keys($m)}',
    # two @forward rules in one stylesheet, the first forwarding a core module; then users of that core module
    '@forward "sass:list"; @forward "sass:string"; a{b:c}',
    '@use "sass:list"; a{b:list.length(a b c) list.index(a b c, b)}',
    '@use "sass:string"; a{b:string.length("abc") string.index("abc", "c")}',
    '@forward "sass:math"; @forward "tmp/c05/extras"; a{b:c}',
    '@use "sass:math"; a{b:math.round(2.5) math.max(1, 2)}',
    '@use "sass:math"; a{b:math.$golden}',
    '@forward "sass:map"; @forward "sass:list"; @forward "sass:color"; a{b:c}',
    '@use "sass:map"; a{b:inspect(map.keys((a: 1))) map.get((a: 1), a)}',
    '@use "tmp/c05/twofwd" as t; a{b:t.length(a b) t.nth(a b, 1)}',
    '@use "tmp/c05/twofwd2" as t; a{b:t.round(2.5)}',
    '@forward "sass:selector" as sel-*; @forward "sass:string"; a{b:c}',
    '@forward "sass:meta" show inspect; @forward "sass:list"; a{b:c}',
    # user modules re-exporting a core module, handed to meta.module-functions / module-variables; then the core module itself
    '@use "sass:meta"; @use "sass:map"; @use "tmp/c05/reexp"; a{b:inspect(map.keys(meta.module-functions("reexp")))}',
    '@use "sass:meta"; @use "sass:map"; @use "tmp/c05/fwd"; a{b:inspect(map.keys(meta.module-functions("fwd")))}',
    '@use "sass:meta"; @use "sass:map"; @use "sass:math"; a{b:inspect(map.keys(meta.module-functions("math")))}',
    '@use "sass:meta"; @use "sass:map"; @use "sass:math"; a{b:inspect(map.keys(meta.module-variables("math")))}',
    '@use "sass:meta"; @use "sass:map"; @use "tmp/c05/reexp"; a{b:inspect(map.keys(meta.module-variables("reexp")))}',
    '@use "sass:meta"; @use "tmp/c05/reexp"; a{b:meta.call(map-get(meta.module-functions("reexp"), "double"), 4)}',
    '@use "sass:meta"; @use "sass:math"; a{b:map-has-key(meta.module-functions("math"), "double") map-has-key(meta.module-functions("math"), "floor")}',
    '@use "sass:meta"; @use "sass:string"; @use "sass:map"; a{b:inspect(map.keys(meta.module-functions("string")))}',
    '@use "sass:meta"; @use "tmp/c05/reexp_str" as r; a{b:inspect(map-keys(meta.module-functions("r")))}',
    '@use "tmp/c05/reexp"; a{b:reexp.double(2) reexp.floor(2.5)}',
]
STYLES = ["expanded", "compressed"]
PRECS = [5, 10, 10, 2]


FILES = {
    "conf.scss": "$x: 1 !default;\nconf{x:$x}\n",
    "extras.scss": "@function round($x){@return 42}\n$golden: 1.618;\n@mixin mx{e:f}\n",
    "twofwd.scss": '@forward "sass:list";\n@forward "sass:string";\n',
    "twofwd2.scss": '@forward "sass:math";\n@forward "extras";\n',
    "reexp.scss": '@use "sass:math" as *;\n@function double($x){@return $x * 2}\n',
    "fwd.scss": '@forward "sass:math";\n@function triple($x){@return $x * 3}\n',
    "reexp_str.scss": '@use "sass:string" as *;\n@function shout($x){@return to-upper-case($x)}\n',
}


def ensure_files():
    d = os.path.join(WORK, "tmp", "c05")
    os.makedirs(d, exist_ok=True)
    for name, content in FILES.items():
        p = os.path.join(d, name)
        if not os.path.exists(p) or open(p).read() != content:
            with open(p, "w") as f:
                f.write(content)


def gen_cases(ctx, tier):
    rng = ctx.rng
    nseq, nthr = (100, 40) if tier == "quick" else (3000, 1200)
    pool = [sheetgen.gen_sheet(rng, rng.choice([0.0, 0.0, 0.3])) for _ in range(60 if tier == "quick" else 1200)]

    def pick():
        return rng.choice(PROBES) if rng.random() < 0.55 else rng.choice(pool)

    cases = []
    # corpus: every probe once before and after every other family member
    cases.append({"mode": "seq", "items": [[p, "expanded", 10] for p in PROBES]})
    cases.append({"mode": "seq", "items": [[p, "compressed", 5] for p in reversed(PROBES)]})
    for _ in range(nseq):
        k = rng.randint(1, 50)
        cases.append({"mode": "seq", "items": [[pick(), rng.choice(STYLES), rng.choice(PRECS)] for _ in range(k)]})
    for _ in range(nthr):
        k = rng.randint(1, 8)
        cases.append({"mode": "threads", "n": rng.randint(2, 16), "style": rng.choice(STYLES), "prec": rng.choice(PRECS),
                      "srcs": [pick() for _ in range(k)]})
    precompute(cases)
    return cases


def search_cases(ctx, broken):
    class C:
        pass
    c = C()
    c.rng = ctx.rng
    return gen_cases(c, "quick")[:120]


_OBS = {}


def ckey(c):
    import json
    return json.dumps({k: v for k, v in c.items() if not k.startswith("_")}, sort_keys=True)


def precompute(cases):
    """run all histories and all baselines in parallel (one harness process each)"""
    ensure_files()
    with ThreadPoolExecutor(max_workers=NCPU) as ex:
        for c, r in zip(cases, ex.map(observe, cases)):
            _OBS[ckey(c)] = r
    baseline([k for c in cases for k in _OBS[ckey(c)][0]])


def impl_requests(c):
    return []          # the runs need one process per history / per baseline: done in coq_term


_BASE = {}


def digest(tag, data):
    t = {"ok": 0, "err": 1}.get(tag, 2)
    return t, int.from_bytes(hashlib.sha256(data).digest()[:16], "big")


def baseline(keys):
    todo = [k for k in dict.fromkeys(keys) if k not in _BASE]

    def one(k):
        src, st, pr = k
        o = common._run_chunk([("scss", st, str(pr), src)], 60.0)[0]
        return k, digest(o[0], o[1][0] if o[1] else b"")
    if todo:
        with ThreadPoolExecutor(max_workers=NCPU) as ex:
            for k, v in ex.map(one, todo):
                _BASE[k] = v
    return [_BASE[k] for k in keys]


def observe(c):
    """-> list of (key, (tag, digest)) in the order the case lists its compilations (threads: thread-major)."""
    ensure_files()
    if c["mode"] == "seq":
        keys = [tuple(i) for i in c["items"]]
        outs = common._run_chunk([("scss", st, str(pr), src) for src, st, pr in keys], 60.0)
        return keys, [digest(o[0], o[1][0] if o[1] else b"") for o in outs]
    keys = [(s, c["style"], c["prec"]) for s in c["srcs"]] * c["n"]
    o = common._run_chunk([("threads", str(c["n"]), c["style"], str(c["prec"])) + tuple(c["srcs"])], 120.0)[0]
    obs = []
    if o[0] != "ok" or len(o[1]) != len(keys):
        return keys, [(2, 0)] * len(keys)
    for f in o[1]:
        if f.startswith(b"ok:"):
            obs.append(digest("ok", f[3:]))
        elif f.startswith(b"err:"):
            obs.append(digest("err", f[4:]))
        else:
            obs.append((2, 0))
    return keys, obs


def coq_term(c, io):
    keys, obs = _OBS.pop(ckey(c), None) or observe(c)
    base = baseline(keys)
    comps = [f"(mkComp {cz(b[0])} {cz(b[1])} {cz(o[0])} {cz(o[1])})" for b, o in zip(base, obs)]
    bad = [i for i, (b, o) in enumerate(zip(base, obs)) if b != o]
    c["_bad"] = [[i, keys[i][0][:200]] for i in bad[:5]]
    return f"(mkCase {cz(c.get('n', 0) if c['mode'] == 'threads' else 0)} {clist(comps)})"


def judge(c, io, r):
    corr, seq_ok, thr_ok, n, nfail = r
    bad = c.pop("_bad", [])
    return {
        "corr": corr == 1,
        "clauses": [("history-independent", seq_ok == 1, None), ("thread-independent", thr_ok == 1, None)],
        "nontrivial": n > 1,
        "tags": [c["mode"], f"with-failures:{1 if nfail else 0}"],
        "show": (f"history of {n} compilations" if c["mode"] == "seq" else f"{c['n']} threads x {len(c['srcs'])} sources")
                + (f"; first differing: {bad}" if bad else ""),
        "detail": bad,
    }


def shrink(c):
    if c["mode"] == "seq":
        it = c["items"]
        if len(it) > 1:
            yield dict(c, items=it[:len(it) // 2])
            yield dict(c, items=it[len(it) // 2:])
            for i in range(min(len(it), 12)):
                yield dict(c, items=it[:i] + it[i + 1:])
    else:
        s = c["srcs"]
        if len(s) > 1:
            yield dict(c, srcs=s[:len(s) // 2])
            yield dict(c, srcs=s[len(s) // 2:])
        if c["n"] > 2:
            yield dict(c, n=2)


LEVEL_TEXT = ("proof (partial by nature): the inventory of process-wide state (statics, Once flags, rng, ambient reads, mutating Scope "
              "methods) regenerated from rsass/src equals the reviewed, classified inventory, so adding process-global state breaks an "
              "obligation; for a store made of such items every interleaving and every earlier history gives each thread a prefix of what "
              "it observes alone (induction over schedules). Exploration: random histories of up to 50 compilations in one process and "
              "2..16 concurrent threads, every answer compared with a fresh-process baseline")
LEVEL_NOTE = ("not proved: that the evaluator reaches process-wide state only through the inventoried items and never mutates a built-in "
              "module scope; real schedules are sampled. trusted: Coq kernel, gen/gens/Statics.py, the harness, SHA-256 truncation")
TECHNIQUE = "Coq proof (closed inventory by reflexivity, schedule induction on a store model) + translator + history/thread exploration against fresh-process baselines"
