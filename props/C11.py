"""C11 - Unit arithmetic converts only with fixed CSS ratios."""
import re, struct
from common import *

ID = "C11"
GEN = ["Units"]
THEOREMS = ["C11_tables_wf", "C11_scale_to_shape", "C11_units_cover", "C11_groups", "C11_lone_units_do_not_convert",
            "C11_ratios", "C11_unitless_plus", "C11_unitless_minus", "C11_same_unit_plus", "C11_plus_two_units",
            "C11_incompatible_kept", "C11_mul_div_exponents", "C11_div_same_unit"]
COQ_HEADER = "From Coq Require Import String List ZArith.\nFrom RV Require Import Model.Numeric Run.C11.\nImport ListNotations.\nLocal Open Scope string_scope."
RUN_EXPR = "Run.C11.run"
RULE = ("ordered pairs of unit names (29 known + unitless + 2 unknown) x operators "
        "{+,-,<,<=,>,>=,==,!=,*,/} x magnitudes (exact dyadic / short decimal); "
        "distinct = distinct (op, a, ua, b, ub); non-trivial = the two operands have different units or one is unitless")
EXHAUSTIVE = {"quick": False, "thorough": False}
TRUSTED = ["Spec/CssUnits.v: the CSS ratio table written from the CSS Values specification",
           "Rust str::parse::<f64> is correctly rounded (magnitudes reach rsass as shortest decimal text, Coq as bits)"]
ASSUMPTIONS = ["powi is modelled only for exponents -1,0,1 (all that single-unit operands need)"]

UNITS = ["em", "ex", "ch", "rem", "vw", "vh", "vmin", "vmax", "cm", "mm", "Q", "in", "pt", "pc", "px",
         "deg", "grad", "rad", "turn", "s", "ms", "Hz", "kHz", "dpi", "dpcm", "dppx", "%", "fr",
         "", "foo", "bar"]
OPS = {"+": "OPlus", "-": "OMinus", "<": "OLt", "<=": "OLe", ">": "OGt", ">=": "OGe",
       "==": "OEq", "!=": "ONe", "*": "OMul", "/": "ODiv"}
MAGS = [1.0, 2.0, 3.0, 0.5, 1.5, 10.0, 96.0, 2.54, 7.25, 100.0, 0.1, 12.0, 360.0, 1000.0, 0.75]
# magnitudes whose converted value lands very close to (but not on) an integer or zero
NEAR = [1e-9, 96.00000001, 2.54000000001, 0.999999999, 72.00000001, 1000.0000001, 1e-7, 25.4000000001, 400.00000001]
GROUPS = [["cm", "mm", "Q", "in", "pt", "pc", "px"], ["deg", "grad", "rad", "turn"], ["s", "ms"], ["Hz", "kHz"], ["dpi", "dpcm", "dppx"]]


def bits(x):
    return struct.unpack(">Q", struct.pack(">d", x))[0]


def num_text(x):
    r = repr(float(x))
    if r.endswith(".0"):
        r = r[:-2]
    return r


def gen_cases(ctx, tier):
    rng = ctx.rng
    cases = []
    # corpus: known-finding witnesses and earlier failures first
    for (op, a, ua, b, ub) in [("+", 1, "em", 1, "ex"), ("+", 1, "vmin", 1, "vmax"), ("+", 1, "%", 1, "fr"),
                               ("+", 1, "px", 1, "em"), ("<", 1, "px", 1, "s"), ("<=", 1, "px", 1, ""),
                               ("+", 1, "in", 1, "px"), ("/", 1, "in", 1, "px"), ("*", 1, "in", 1, "px"),
                               ("==", 1, "in", 96, "px"), ("-", 1, "turn", 90, "deg"), ("+", 1, "rad", 1, "deg")]:
        cases.append({"op": op, "a": float(a), "ua": ua, "b": float(b), "ub": ub})
    pairs = [(u, v) for u in UNITS for v in UNITS]
    if tier == "quick":
        for (u, v) in pairs:
            for op in ("+", "==", "<"):
                cases.append({"op": op, "a": rng.choice(MAGS), "ua": u, "b": rng.choice(MAGS), "ub": v})
        for _ in range(700):
            u, v = rng.choice(pairs)
            cases.append({"op": rng.choice(list(OPS)), "a": rng.choice(MAGS), "ua": u, "b": rng.choice(MAGS), "ub": v})
    else:
        for (u, v) in pairs:
            for op in OPS:
                for _ in range(3):
                    cases.append({"op": op, "a": rng.choice(MAGS), "ua": u, "b": rng.choice(MAGS), "ub": v})
    # pairs inside one CSS group (where conversion really happens), every operator, ordinary and near-integer magnitudes
    n_grp = 900 if tier == "quick" else 6000
    for _ in range(n_grp):
        g = rng.choice(GROUPS)
        u, v = rng.choice(g), rng.choice(g)
        a = rng.choice(MAGS + NEAR + [0.0])
        b = rng.choice(MAGS + NEAR)
        cases.append({"op": rng.choice(list(OPS)), "a": a, "ua": u, "b": b, "ub": v})
    # unitless / percent / fr operands under division (math.div route as well)
    for _ in range(150 if tier == "quick" else 1500):
        cases.append({"op": "/", "a": rng.choice(MAGS), "ua": rng.choice(["", "", "%", "fr", "px", "em"]),
                      "b": rng.choice(MAGS), "ub": rng.choice(["%", "fr", "", "px", "in", "s", "foo"])})
    # equal magnitudes for the comparison corner
    for _ in range(60):
        u, v = rng.choice(pairs)
        m = rng.choice(MAGS)
        cases.append({"op": rng.choice(["<=", ">=", "==", "<"]), "a": m, "ua": u, "b": m, "ub": v})
    return cases


def search_cases(ctx, broken):
    # a proof or table broke: sweep every pair under every operator
    rng = ctx.rng
    return [{"op": op, "a": rng.choice(MAGS), "ua": u, "b": rng.choice(MAGS), "ub": v}
            for u in UNITS for v in UNITS for op in OPS]


def expr_of(c):
    a = num_text(c["a"]) + c["ua"]
    b = num_text(c["b"]) + c["ub"]
    if c["op"] == "/":
        # `a / b` on literals is a slash-separated value; force calculated operands
        return f"({a} * 1) / ({b} * 1)"
    return f"{a} {c['op']} {b}"


def impl_requests(c):
    rs = [("evalv", expr_of(c))]
    if c["op"] == "/":
        # the second route the statement names: math.div, observed as printed text
        a = num_text(c["a"]) + c["ua"]
        b = num_text(c["b"]) + c["ub"]
        rs.append(("scss", "expanded", "15", f'@use "sass:math"; a{{b: inspect(math.div({a}, {b}))}}'))
    return rs


def text_term(io2):
    """'a {\n  b: calc(0.5px / 1s);\n}' -> IText num den display units"""
    tag, f = io2
    if tag == "err":
        return "IErr"
    if tag != "ok":
        return "IOther"
    m = re.search(r"b: (.*);\n\}", f[0].decode("utf-8", "replace"), re.S)
    if not m:
        return "IOther"
    t = m.group(1)
    if t.startswith("calc(") and t.endswith(")"):
        t = t[5:-1]
    m = re.match(r"^(-?)(\d*)(?:\.(\d+))?(.*)$", t, re.S)
    if not m or (m.group(2) == "" and m.group(3) is None):
        return "IKept"
    sign, whole, frac, disp = m.group(1), m.group(2) or "0", m.group(3) or "", m.group(4)
    if disp.startswith(" * 1"):      # `infinity * 1px` style never has digits; plain numbers only here
        disp = disp[4:]
    num = int(whole + frac) * (-1 if sign else 1)
    den = 10 ** len(frac)
    us = clist([f"({cstring(n)}, {cz(p)})" for n, p in parse_units(disp)])
    return f"(IText {cz(num)} {cz(den)} {cstring(disp)} {us})"


def parse_units(text):
    """'px * 1px / 1s' -> [('px',2),('s',-1)] in display order."""
    if text == "":
        return []
    num, *dens = text.split(" / 1")
    out = []
    def add(name, sign):
        p = 1
        if "^" in name:
            name, e = name.split("^")
            p = int(e)
        for i, (n, q) in enumerate(out):
            if n == name and (q > 0) == (sign > 0):
                out[i] = (n, q + sign * p)
                return
        out.append((name, sign * p))
    if num:
        for n in num.split(" * 1"):
            add(n, 1)
    for d in dens:
        add(d, -1)
    return out


def impl_term(io):
    tag, f = io[0]
    if tag in ("panic", "crash", "timeout"):
        return "IOther"
    if tag == "ok" and f[0] == b"num":
        disp = f[2].decode()
        us = clist([f"({cstring(n)}, {cz(p)})" for n, p in parse_units(disp)])
        return f"(INum {cz(int(f[1]))} {cstring(disp)} {us})"
    if tag == "ok" and f[0] == b"val":
        if f[1] == b"bool":
            return f"(IBool {cbool(f[2] == b'true')})"
        if f[1] == b"string":
            return "IKept"
        return "IOther"
    if tag == "err":
        return "IErr"
    return "IOther"


def coq_term(c, io):
    i2 = text_term(io[1]) if len(io) > 1 else "INone"
    return (f"(mkCase {OPS[c['op']]} {cz(bits(c['a']))} {cstring(c['ua'])} "
            f"{cz(bits(c['b']))} {cstring(c['ub'])} {impl_term(io)} {i2})")


KCLASS = {0: None, 1: "known_C11_K1_kept_binop", 2: None, 3: "known_C11_K3_unitless_le_ge"}


def judge(c, io, r):
    corr, c1, k1, c2, k2, c3, k3, compat = r
    return {
        "corr": None if corr == 2 else (corr == 1),
        "clauses": [("conversion", c1 == 1, KCLASS[k1]), ("incompatible-is-error", c2 == 1, KCLASS[k2]),
                    ("cancel", c3 == 1, KCLASS[k3])],
        "nontrivial": c["ua"] != c["ub"],
        "tags": [c["op"], "compat" if compat else "incompat"],
        "show": expr_of(c),
        "detail": expr_of(c),
    }


def shrink(c):
    for a in (1.0, 2.0):
        for b in (1.0, 2.0):
            if (a, b) != (c["a"], c["b"]):
                yield dict(c, a=a, b=b)

LEVEL_TEXT = ("proof: finite sweeps over the unit table regenerated from unit.rs (convertible iff same CSS group, "
              "every ratio within 1e-15 of the CSS ratio) lifted with forallb_forall, and all-magnitude theorems about "
              "the model of Operator::eval (unitless operand takes the other's unit; a number results only through a "
              "table ratio; exponents add/subtract/cancel); the model is tied to the code by translating the tables on "
              "every run and by bit-exact correspondence on every unit pair")
LEVEL_NOTE = ("trusted: Coq kernel+vm_compute, Flocq binary64 (classical real axioms), gen/rs2v.py, the harness, "
              "Spec/CssUnits.v; two clauses of the statement are false on the tree and recorded as known findings F16/F19 (F15 is fixed in /repo)")
TECHNIQUE = "Coq proof (table sweep by vm_compute + forallb_forall; structural lemmas) + translator + differential correspondence"
