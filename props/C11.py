"""C11 - Unit arithmetic converts only with fixed CSS ratios."""
import struct
from common import *

ID = "C11"
GEN = ["Units"]
THEOREMS = ["C11_tables_wf", "C11_scale_to_shape", "C11_units_cover", "C11_groups", "C11_refuted_groups",
            "C11_ratios", "C11_unitless_plus", "C11_unitless_minus", "C11_same_unit_plus", "C11_plus_two_units",
            "C11_incompatible_kept", "C11_mul_div_exponents", "C11_div_same_unit"]
COQ_HEADER = "From Coq Require Import String List ZArith.\nFrom RV Require Import Model.Numeric Run.C11.\nImport ListNotations.\nLocal Open Scope string_scope."
RUN_EXPR = "Run.C11.run"
RULE = ("ordered pairs of unit names (29 known + unitless + 2 unknown) x operators "
        "{+,-,<,<=,>,>=,==,!=,*,/} x magnitudes (exact dyadic / short decimal); "
        "distinct = distinct (op, a, ua, b, ub); non-trivial = the two operands have different units or one is unitless")
EXHAUSTIVE = {"quick": False, "thorough": False}
TRUSTED = ["Spec/CssUnits.v: the CSS ratio table written from the CSS Values specification",
           "Rust str::parse::<f64> is correctly rounded (magnitudes reach rsass as shortest decimal text, Coq as bits)"]
ASSUMPTIONS = ["powi is modelled only for exponents -1,0,1 (all that single-unit operands need)"]

UNITS = ["em", "ex", "ch", "rem", "vw", "vh", "vmin", "vmax", "cm", "mm", "Q", "in", "pt", "pc", "px",
         "deg", "grad", "rad", "turn", "s", "ms", "Hz", "kHz", "dpi", "dpcm", "dppx", "%", "fr",
         "", "foo", "bar"]
OPS = {"+": "OPlus", "-": "OMinus", "<": "OLt", "<=": "OLe", ">": "OGt", ">=": "OGe",
       "==": "OEq", "!=": "ONe", "*": "OMul", "/": "ODiv"}
MAGS = [1.0, 2.0, 3.0, 0.5, 1.5, 10.0, 96.0, 2.54, 7.25, 100.0, 0.1, 12.0, 360.0, 1000.0, 0.75]


def bits(x):
    return struct.unpack(">Q", struct.pack(">d", x))[0]


def num_text(x):
    r = repr(float(x))
    if r.endswith(".0"):
        r = r[:-2]
    return r


def gen_cases(ctx, tier):
    rng = ctx.rng
    cases = []
    # corpus: known-finding witnesses and earlier failures first
    for (op, a, ua, b, ub) in [("+", 1, "em", 1, "ex"), ("+", 1, "vmin", 1, "vmax"), ("+", 1, "%", 1, "fr"),
                               ("+", 1, "px", 1, "em"), ("<", 1, "px", 1, "s"), ("<=", 1, "px", 1, ""),
                               ("+", 1, "in", 1, "px"), ("/", 1, "in", 1, "px"), ("*", 1, "in", 1, "px"),
                               ("==", 1, "in", 96, "px"), ("-", 1, "turn", 90, "deg"), ("+", 1, "rad", 1, "deg")]:
        cases.append({"op": op, "a": float(a), "ua": ua, "b": float(b), "ub": ub})
    pairs = [(u, v) for u in UNITS for v in UNITS]
    if tier == "quick":
        for (u, v) in pairs:
            for op in ("+", "==", "<"):
                cases.append({"op": op, "a": rng.choice(MAGS), "ua": u, "b": rng.choice(MAGS), "ub": v})
        for _ in range(700):
            u, v = rng.choice(pairs)
            cases.append({"op": rng.choice(list(OPS)), "a": rng.choice(MAGS), "ua": u, "b": rng.choice(MAGS), "ub": v})
    else:
        for (u, v) in pairs:
            for op in OPS:
                for _ in range(3):
                    cases.append({"op": op, "a": rng.choice(MAGS), "ua": u, "b": rng.choice(MAGS), "ub": v})
    # equal magnitudes for the comparison corner
    for _ in range(60):
        u, v = rng.choice(pairs)
        m = rng.choice(MAGS)
        cases.append({"op": rng.choice(["<=", ">=", "==", "<"]), "a": m, "ua": u, "b": m, "ub": v})
    return cases


def search_cases(ctx, broken):
    # a proof or table broke: sweep every pair under every operator
    rng = ctx.rng
    return [{"op": op, "a": rng.choice(MAGS), "ua": u, "b": rng.choice(MAGS), "ub": v}
            for u in UNITS for v in UNITS for op in OPS]


def expr_of(c):
    a = num_text(c["a"]) + c["ua"]
    b = num_text(c["b"]) + c["ub"]
    if c["op"] == "/":
        # `a / b` on literals is a slash-separated value; force calculated operands
        return f"({a} * 1) / ({b} * 1)"
    return f"{a} {c['op']} {b}"


def impl_requests(c):
    return [("evalv", expr_of(c))]


def parse_units(text):
    """'px * 1px / 1s' -> [('px',2),('s',-1)] in display order."""
    if text == "":
        return []
    num, *dens = text.split(" / 1")
    out = []
    def add(name, sign):
        p = 1
        if "^" in name:
            name, e = name.split("^")
            p = int(e)
        for i, (n, q) in enumerate(out):
            if n == name and (q > 0) == (sign > 0):
                out[i] = (n, q + sign * p)
                return
        out.append((name, sign * p))
    if num:
        for n in num.split(" * 1"):
            add(n, 1)
    for d in dens:
        add(d, -1)
    return out


def impl_term(io):
    tag, f = io[0]
    if tag == "ok" and f[0] == b"num":
        disp = f[2].decode()
        us = clist([f"({cstring(n)}, {cz(p)})" for n, p in parse_units(disp)])
        return f"(INum {cz(int(f[1]))} {cstring(disp)} {us})"
    if tag == "ok" and f[0] == b"val":
        if f[1] == b"bool":
            return f"(IBool {cbool(f[2] == b'true')})"
        if f[1] == b"string":
            return "IKept"
        return "IOther"
    if tag == "err":
        return "IErr"
    return "IOther"


def coq_term(c, io):
    return (f"(mkCase {OPS[c['op']]} {cz(bits(c['a']))} {cstring(c['ua'])} "
            f"{cz(bits(c['b']))} {cstring(c['ub'])} {impl_term(io)})")


KCLASS = {0: None, 1: "known_C11_K1_kept_binop", 2: "known_C11_K2_lone_convert", 3: "known_C11_K3_unitless_le_ge"}


def judge(c, io, r):
    corr, c1, k1, c2, k2, c3, k3, compat = r
    return {
        "corr": None if corr == 2 else (corr == 1),
        "clauses": [("conversion", c1 == 1, KCLASS[k1]), ("incompatible-is-error", c2 == 1, KCLASS[k2]),
                    ("cancel", c3 == 1, KCLASS[k3])],
        "nontrivial": c["ua"] != c["ub"],
        "tags": [c["op"], "compat" if compat else "incompat"],
        "show": expr_of(c),
        "detail": expr_of(c),
    }


def shrink(c):
    for a in (1.0, 2.0):
        for b in (1.0, 2.0):
            if (a, b) != (c["a"], c["b"]):
                yield dict(c, a=a, b=b)

LEVEL_TEXT = ("proof: finite sweeps over the unit table regenerated from unit.rs (groups = CSS groups outside class F15, "
              "every ratio within 1e-15 of the CSS ratio) lifted with forallb_forall, and all-magnitude theorems about "
              "the model of Operator::eval (unitless operand takes the other's unit; a number results only through a "
              "table ratio; exponents add/subtract/cancel); the model is tied to the code by translating the tables on "
              "every run and by bit-exact correspondence on every unit pair")
LEVEL_NOTE = ("trusted: Coq kernel+vm_compute, Flocq binary64 (classical real axioms), gen/rs2v.py, the harness, "
              "Spec/CssUnits.v; three clauses of the statement are false on the pinned tree and recorded as known findings F15/F16/F19")
TECHNIQUE = "Coq proof (table sweep by vm_compute + forallb_forall; structural lemmas) + translator + differential correspondence"
