//! C38: the entry points spelled out as the compositions that Gen/Entry.v extracts from lib.rs.
use crate::{Out, format_of, res};

pub fn run(cmd: &str, a: &[Vec<u8>]) -> Option<Out> {
    match cmd {
        // valuetree style prec expr : parse_value_data(input)?.evaluate(new_global(format))?.format(format)
        "valuetree" => {
            let format = format_of(&a[0], &a[1]);
            let r = (|| -> Result<Vec<u8>, rsass::Error> {
                let scope = rsass::ScopeRef::new_global(format);
                let value = rsass::parse_value_data(&a[2])?.evaluate(scope)?;
                Ok(value.format(format).to_string().into_bytes())
            })();
            Some(res(r))
        }
        _ => None,
    }
}
