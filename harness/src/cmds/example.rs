//! Template for an extra harness command.  `run` returns None for commands it
//! does not know.  Helpers: crate::{Out, s, format_of, res}.
use crate::Out;

pub fn run(cmd: &str, a: &[Vec<u8>]) -> Option<Out> {
    match cmd {
        // echo x : returns its argument (used by the kit self-test)
        "echo" => Some(Out::Ok(vec![a.first().cloned().unwrap_or_default()])),
        _ => None,
    }
}
