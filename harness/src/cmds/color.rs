//! `color expr`: evaluate an expression that must be a colour and report
//! its representation, its channels in all three models (bit patterns of the
//! f64 values, decimal u64) and its text in both output styles.
//!   ok: kind(rgba|hsla|hwba)  own0 own1 own2 own3  r g b a  h s l a  h w b a  expanded compressed
use crate::Out;
use rsass::output::{Format, Style};
use rsass::value::Color;

fn bits(v: f64) -> Vec<u8> {
    v.to_bits().to_string().into_bytes()
}

/// `coloreq expr`: is the colour equal (Sass `==`) to `rgb(r, g, b, a)` written with its own
/// exact rgba channels?  ok: "true" | "false" | other text
fn coloreq(a: &[Vec<u8>]) -> Out {
    let scope = rsass::ScopeRef::new_global(Default::default());
    let eval = |src: &[u8]| -> Result<rsass::css::Value, String> {
        rsass::parse_value_data(src)
            .map_err(|e| e.to_string())?
            .evaluate(scope.clone())
            .map_err(|e| e.to_string())
    };
    let col = match eval(&a[0]) {
        Ok(rsass::css::Value::Color(c, _)) => c,
        Ok(_) => return Out::Err(vec![b"not a color".to_vec()]),
        Err(e) => return Out::Err(vec![e.into_bytes()]),
    };
    let r = col.to_rgba();
    let src = format!(
        "({}) == rgb({:?}, {:?}, {:?}, {:?})",
        String::from_utf8_lossy(&a[0]),
        r.red(),
        r.green(),
        r.blue(),
        r.alpha()
    );
    match eval(src.as_bytes()) {
        Ok(v) => Out::Ok(vec![
            v.format(Format::introspect()).to_string().into_bytes(),
            src.into_bytes(),
        ]),
        Err(e) => Out::Err(vec![e.into_bytes(), src.into_bytes()]),
    }
}

pub fn run(cmd: &str, a: &[Vec<u8>]) -> Option<Out> {
    if cmd == "coloreq" {
        return Some(coloreq(a));
    }
    if cmd != "color" {
        return None;
    }
    let scope = rsass::ScopeRef::new_global(Default::default());
    let v = match rsass::parse_value_data(&a[0]) {
        Ok(v) => v,
        Err(e) => {
            return Some(Out::Err(vec![e.to_string().into_bytes(), b"parse".to_vec()]));
        }
    };
    let val = match v.evaluate(scope) {
        Ok(v) => v,
        Err(e) => {
            return Some(Out::Err(vec![e.to_string().into_bytes(), b"eval".to_vec()]));
        }
    };
    let text = |style: Style| {
        val.format(Format { style, precision: 10 }).to_string().into_bytes()
    };
    let (exp, comp) = (text(Style::Expanded), text(Style::Compressed));
    match &val {
        rsass::css::Value::Color(col, _) => {
            let mut f: Vec<Vec<u8>> = vec![];
            match col {
                Color::Rgba(c) => {
                    f.push(b"rgba".to_vec());
                    for x in [c.red(), c.green(), c.blue(), c.alpha()] {
                        f.push(bits(x));
                    }
                }
                Color::Hsla(c) => {
                    f.push(b"hsla".to_vec());
                    for x in [c.hue(), c.sat(), c.lum(), c.alpha()] {
                        f.push(bits(x));
                    }
                }
                Color::Hwba(c) => {
                    f.push(b"hwba".to_vec());
                    for x in [c.hue(), c.whiteness(), c.blackness(), c.alpha()] {
                        f.push(bits(x));
                    }
                }
            }
            let r = col.to_rgba();
            for x in [r.red(), r.green(), r.blue(), r.alpha()] {
                f.push(bits(x));
            }
            let h = col.to_hsla();
            for x in [h.hue(), h.sat(), h.lum(), h.alpha()] {
                f.push(bits(x));
            }
            let w = col.to_hwba();
            for x in [w.hue(), w.whiteness(), w.blackness(), w.alpha()] {
                f.push(bits(x));
            }
            f.push(exp);
            f.push(comp);
            Some(Out::Ok(f))
        }
        _ => Some(Out::Err(vec![b"not a color".to_vec(), exp])),
    }
}
