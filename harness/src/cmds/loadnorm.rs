//! `nfiles style prec entry fault (name content)*`: like `files`, but the in-memory
//! loader resolves `.`, `..` and empty path segments the way a file system does
//! (a directory exists when some file lies below it), so that different spellings
//! of a url reach the same file.  Last output field = log of loader calls.
use crate::{Out, format_of, res, s};
use rsass::input::{Context, LoadError, Loader, SourceFile, SourceName};
use std::collections::BTreeMap;
use std::sync::{Arc, Mutex};

#[derive(Clone, Debug)]
struct NormLoader {
    files: Arc<BTreeMap<String, Vec<u8>>>,
    log: Arc<Mutex<Vec<String>>>,
}

impl NormLoader {
    fn is_dir(&self, segs: &[&str]) -> bool {
        if segs.is_empty() {
            return true;
        }
        self.files.keys().any(|f| {
            let fs: Vec<&str> = f.split('/').collect();
            fs.len() > segs.len() && fs[..segs.len()] == *segs
        })
    }
    fn canon(&self, url: &str) -> Option<String> {
        let mut stack: Vec<&str> = vec![];
        for sg in url.split('/') {
            match sg {
                "" => {}
                "." => {
                    if !self.is_dir(&stack) {
                        return None;
                    }
                }
                ".." => {
                    if stack.is_empty() || !self.is_dir(&stack) {
                        return None;
                    }
                    stack.pop();
                }
                x => stack.push(x),
            }
        }
        Some(stack.join("/"))
    }
}

impl Loader for NormLoader {
    type File = std::io::Cursor<Vec<u8>>;
    fn find_file(&self, url: &str) -> Result<Option<Self::File>, LoadError> {
        self.log.lock().unwrap().push(url.to_string());
        if url.is_empty() {
            return Ok(None);
        }
        Ok(self
            .canon(url)
            .and_then(|p| self.files.get(&p))
            .map(|d| std::io::Cursor::new(d.clone())))
    }
}

/// Exact in-memory loader with several injected faults:
/// `find` = indices of find_file calls that fail, `read` = indices (among the
/// successful lookups) of files whose Read fails.
#[derive(Clone, Debug)]
struct FaultyLoader {
    files: Arc<BTreeMap<String, Vec<u8>>>,
    log: Arc<Mutex<Vec<String>>>,
    found: Arc<Mutex<usize>>,
    find: Vec<usize>,
    read: Vec<usize>,
}
enum FaultyFile {
    Data(std::io::Cursor<Vec<u8>>),
    Broken,
}
impl std::io::Read for FaultyFile {
    fn read(&mut self, buf: &mut [u8]) -> std::io::Result<usize> {
        match self {
            FaultyFile::Data(c) => c.read(buf),
            FaultyFile::Broken => Err(std::io::Error::other("injected read failure")),
        }
    }
}
impl Loader for FaultyLoader {
    type File = FaultyFile;
    fn find_file(&self, url: &str) -> Result<Option<FaultyFile>, LoadError> {
        let mut log = self.log.lock().unwrap();
        let k = log.len();
        log.push(url.to_string());
        if self.find.contains(&k) {
            return Err(LoadError::Input(
                url.to_string(),
                std::io::Error::other("injected lookup failure"),
            ));
        }
        match self.files.get(url) {
            Some(d) => {
                let mut f = self.found.lock().unwrap();
                let n = *f;
                *f += 1;
                if self.read.contains(&n) {
                    Ok(Some(FaultyFile::Broken))
                } else {
                    Ok(Some(FaultyFile::Data(std::io::Cursor::new(d.clone()))))
                }
            }
            None => Ok(None),
        }
    }
}

pub fn run(cmd: &str, a: &[Vec<u8>]) -> Option<Out> {
    match cmd {
        // ffiles style prec entry faults (name content)*   faults: e.g. "find:3,read:0,find:9" or "none"
        "ffiles" => {
            let mut files = BTreeMap::new();
            let mut i = 4;
            while i + 1 < a.len() {
                files.insert(s(&a[i]), a[i + 1].clone());
                i += 2;
            }
            let mut find = vec![];
            let mut read = vec![];
            for part in s(&a[3]).split(',') {
                if let Some(k) = part.strip_prefix("find:") {
                    if let Ok(k) = k.parse() {
                        find.push(k);
                    }
                } else if let Some(k) = part.strip_prefix("read:") {
                    if let Ok(k) = k.parse() {
                        read.push(k);
                    }
                }
            }
            let entry = s(&a[2]);
            let data = files.get(&entry).cloned().unwrap_or_default();
            let loader = FaultyLoader {
                files: Arc::new(files),
                log: Arc::new(Mutex::new(vec![])),
                found: Arc::new(Mutex::new(0)),
                find,
                read,
            };
            let log = loader.log.clone();
            let src = if entry.ends_with(".css") {
                SourceFile::css_bytes(data, SourceName::root(&entry))
            } else {
                SourceFile::scss_bytes(data, SourceName::root(&entry))
            };
            let r = Context::for_loader(loader)
                .with_format(format_of(&a[0], &a[1]))
                .transform(src);
            let logtxt = log.lock().unwrap().join("\n").into_bytes();
            Some(match res(r) {
                Out::Ok(mut v) => {
                    v.push(logtxt);
                    Out::Ok(v)
                }
                Out::Err(mut v) => {
                    v.push(logtxt);
                    Out::Err(v)
                }
            })
        }
        "nfiles" => {
            let mut files = BTreeMap::new();
            let mut i = 4;
            while i + 1 < a.len() {
                files.insert(s(&a[i]), a[i + 1].clone());
                i += 2;
            }
            let entry = s(&a[2]);
            let data = files.get(&entry).cloned().unwrap_or_default();
            let loader = NormLoader {
                files: Arc::new(files),
                log: Arc::new(Mutex::new(vec![])),
            };
            let log = loader.log.clone();
            let src = if entry.ends_with(".css") {
                SourceFile::css_bytes(data, SourceName::root(&entry))
            } else {
                SourceFile::scss_bytes(data, SourceName::root(&entry))
            };
            let r = Context::for_loader(loader)
                .with_format(format_of(&a[0], &a[1]))
                .transform(src);
            let logtxt = log.lock().unwrap().join("\n").into_bytes();
            Some(match res(r) {
                Out::Ok(mut v) => {
                    v.push(logtxt);
                    Out::Ok(v)
                }
                Out::Err(mut v) => {
                    v.push(logtxt);
                    Out::Err(v)
                }
            })
        }
        _ => None,
    }
}
