//! `nfiles style prec entry fault (name content)*`: like `files`, but the in-memory
//! loader resolves `.`, `..` and empty path segments the way a file system does
//! (a directory exists when some file lies below it), so that different spellings
//! of a url reach the same file.  Last output field = log of loader calls.
use crate::{Out, format_of, res, s};
use rsass::input::{Context, LoadError, Loader, SourceFile, SourceName};
use std::collections::BTreeMap;
use std::sync::{Arc, Mutex};

#[derive(Clone, Debug)]
struct NormLoader {
    files: Arc<BTreeMap<String, Vec<u8>>>,
    log: Arc<Mutex<Vec<String>>>,
}

impl NormLoader {
    fn is_dir(&self, segs: &[&str]) -> bool {
        if segs.is_empty() {
            return true;
        }
        self.files.keys().any(|f| {
            let fs: Vec<&str> = f.split('/').collect();
            fs.len() > segs.len() && fs[..segs.len()] == *segs
        })
    }
    fn canon(&self, url: &str) -> Option<String> {
        let mut stack: Vec<&str> = vec![];
        for sg in url.split('/') {
            match sg {
                "" => {}
                "." => {
                    if !self.is_dir(&stack) {
                        return None;
                    }
                }
                ".." => {
                    if stack.is_empty() || !self.is_dir(&stack) {
                        return None;
                    }
                    stack.pop();
                }
                x => stack.push(x),
            }
        }
        Some(stack.join("/"))
    }
}

impl Loader for NormLoader {
    type File = std::io::Cursor<Vec<u8>>;
    fn find_file(&self, url: &str) -> Result<Option<Self::File>, LoadError> {
        self.log.lock().unwrap().push(url.to_string());
        if url.is_empty() {
            return Ok(None);
        }
        Ok(self
            .canon(url)
            .and_then(|p| self.files.get(&p))
            .map(|d| std::io::Cursor::new(d.clone())))
    }
}

pub fn run(cmd: &str, a: &[Vec<u8>]) -> Option<Out> {
    match cmd {
        "nfiles" => {
            let mut files = BTreeMap::new();
            let mut i = 4;
            while i + 1 < a.len() {
                files.insert(s(&a[i]), a[i + 1].clone());
                i += 2;
            }
            let entry = s(&a[2]);
            let data = files.get(&entry).cloned().unwrap_or_default();
            let loader = NormLoader {
                files: Arc::new(files),
                log: Arc::new(Mutex::new(vec![])),
            };
            let log = loader.log.clone();
            let src = if entry.ends_with(".css") {
                SourceFile::css_bytes(data, SourceName::root(&entry))
            } else {
                SourceFile::scss_bytes(data, SourceName::root(&entry))
            };
            let r = Context::for_loader(loader)
                .with_format(format_of(&a[0], &a[1]))
                .transform(src);
            let logtxt = log.lock().unwrap().join("\n").into_bytes();
            Some(match res(r) {
                Out::Ok(mut v) => {
                    v.push(logtxt);
                    Out::Ok(v)
                }
                Out::Err(mut v) => {
                    v.push(logtxt);
                    Out::Err(v)
                }
            })
        }
        _ => None,
    }
}
