//! rvharness: runs the rsass implementation on cases sent by /verif/check.
//!
//! Protocol: one request per stdin line, fields separated by TAB; the first
//! field is the command (plain), all others are hex-encoded byte strings.
//! One response line per request: `ok|err|panic` TAB hex fields.
//! Only rsass's public API is used.

use rsass::input::{Context, FsContext, LoadError, Loader, SourceFile, SourceName};
use rsass::output::{Format, Style};
use std::cell::RefCell;
use std::collections::BTreeMap;
use std::io::{BufRead, Read, Write};
use std::panic::{AssertUnwindSafe, catch_unwind};
use std::sync::{Arc, Mutex};

fn hex(b: &[u8]) -> String {
    let mut s = String::with_capacity(b.len() * 2);
    for x in b {
        s.push_str(&format!("{x:02x}"));
    }
    s
}
fn unhex(s: &str) -> Vec<u8> {
    let b = s.as_bytes();
    (0..b.len() / 2)
        .map(|i| {
            let h = (b[2 * i] as char).to_digit(16).unwrap() as u8;
            let l = (b[2 * i + 1] as char).to_digit(16).unwrap() as u8;
            h * 16 + l
        })
        .collect()
}
pub fn s(b: &[u8]) -> String {
    String::from_utf8_lossy(b).to_string()
}

pub fn format_of(style: &[u8], prec: &[u8]) -> Format {
    let style = match style {
        b"compressed" => Style::Compressed,
        b"introspection" => Style::Introspection,
        _ => Style::Expanded,
    };
    Format {
        style,
        precision: s(prec).parse().unwrap_or(10),
    }
}

include!(concat!(env!("OUT_DIR"), "/cmds.rs"));

pub enum Out {
    Ok(Vec<Vec<u8>>),
    Err(Vec<Vec<u8>>),
}

/// In-memory loader with call log and fault injection.
#[derive(Clone, Debug)]
struct MemLoader {
    files: Arc<BTreeMap<String, Vec<u8>>>,
    log: Arc<Mutex<Vec<String>>>,
    /// fail the k-th (0-based) find_file call with an error
    fail_find: Option<usize>,
    /// make the file returned by the k-th successful find fail on read
    fail_read: Option<usize>,
    found: Arc<Mutex<usize>>,
}
enum MemFile {
    Data(std::io::Cursor<Vec<u8>>),
    Broken,
}
impl Read for MemFile {
    fn read(&mut self, buf: &mut [u8]) -> std::io::Result<usize> {
        match self {
            MemFile::Data(c) => c.read(buf),
            MemFile::Broken => Err(std::io::Error::other("injected read failure")),
        }
    }
}
impl Loader for MemLoader {
    type File = MemFile;
    fn find_file(&self, url: &str) -> Result<Option<MemFile>, LoadError> {
        let mut log = self.log.lock().unwrap();
        let k = log.len();
        log.push(url.to_string());
        if self.fail_find == Some(k) {
            return Err(LoadError::Input(
                url.to_string(),
                std::io::Error::other("injected lookup failure"),
            ));
        }
        match self.files.get(url) {
            Some(d) => {
                let mut f = self.found.lock().unwrap();
                let n = *f;
                *f += 1;
                if self.fail_read == Some(n) {
                    Ok(Some(MemFile::Broken))
                } else {
                    Ok(Some(MemFile::Data(std::io::Cursor::new(d.clone()))))
                }
            }
            None => Ok(None),
        }
    }
}

pub fn res(r: Result<Vec<u8>, rsass::Error>) -> Out {
    match r {
        Ok(v) => Out::Ok(vec![v]),
        Err(e) => {
            let msg = e.to_string();
            let dbg = format!("{e:?}");
            Out::Err(vec![msg.into_bytes(), dbg.into_bytes()])
        }
    }
}

fn run(cmd: &str, a: &[Vec<u8>]) -> Out {
    match cmd {
        // value style prec expr
        "value" => res(rsass::compile_value(&a[2], format_of(&a[0], &a[1]))),
        // scss style prec src
        "scss" => res(rsass::compile_scss(&a[2], format_of(&a[0], &a[1]))),
        // css style prec src   (plain css reader)
        "css" => {
            let f = SourceFile::css_bytes(a[2].clone(), SourceName::root("-"));
            res(FsContext::for_cwd()
                .with_format(format_of(&a[0], &a[1]))
                .transform(f))
        }
        // ctx style prec src  (explicit spelling of what compile_scss is documented to equal)
        "ctx" => {
            let f = SourceFile::scss_bytes(a[2].clone(), SourceName::root("-"));
            res(FsContext::for_cwd()
                .with_format(format_of(&a[0], &a[1]))
                .transform(f))
        }
        // path style prec path loadpath*
        "path" => {
            let p = s(&a[2]);
            match FsContext::for_path(std::path::Path::new(&p)) {
                Ok((mut ctx, src)) => {
                    for lp in &a[3..] {
                        ctx.push_path(std::path::Path::new(&s(lp)));
                    }
                    res(ctx.with_format(format_of(&a[0], &a[1])).transform(src))
                }
                Err(e) => Out::Err(vec![
                    e.to_string().into_bytes(),
                    format!("{e:?}").into_bytes(),
                ]),
            }
        }
        // scsspath style prec path   (compile_scss_path)
        "scsspath" => res(rsass::compile_scss_path(
            std::path::Path::new(&s(&a[2])),
            format_of(&a[0], &a[1]),
        )),
        // files style prec entry fault (name content)*
        //   fault: "none" | "find:K" | "read:K"
        "files" => {
            let mut files = BTreeMap::new();
            let mut i = 4;
            while i + 1 < a.len() {
                files.insert(s(&a[i]), a[i + 1].clone());
                i += 2;
            }
            let fault = s(&a[3]);
            let (ff, fr) = if let Some(k) = fault.strip_prefix("find:") {
                (k.parse().ok(), None)
            } else if let Some(k) = fault.strip_prefix("read:") {
                (None, k.parse().ok())
            } else {
                (None, None)
            };
            let entry = s(&a[2]);
            let data = files.get(&entry).cloned().unwrap_or_default();
            let loader = MemLoader {
                files: Arc::new(files),
                log: Arc::new(Mutex::new(vec![])),
                fail_find: ff,
                fail_read: fr,
                found: Arc::new(Mutex::new(0)),
            };
            let log = loader.log.clone();
            let src = if entry.ends_with(".css") {
                SourceFile::css_bytes(data, SourceName::root(&entry))
            } else {
                SourceFile::scss_bytes(data, SourceName::root(&entry))
            };
            let r = Context::for_loader(loader)
                .with_format(format_of(&a[0], &a[1]))
                .transform(src);
            let logtxt = log.lock().unwrap().join("\n").into_bytes();
            match res(r) {
                Out::Ok(mut v) => {
                    v.push(logtxt);
                    Out::Ok(v)
                }
                Out::Err(mut v) => {
                    v.push(logtxt);
                    Out::Err(v)
                }
            }
        }
        // numfmt style prec bits(decimal u64)
        "numfmt" => {
            let bits: u64 = s(&a[2]).parse().unwrap();
            let n = rsass::value::Number::from(f64::from_bits(bits));
            Out::Ok(vec![
                n.format(format_of(&a[0], &a[1])).to_string().into_bytes(),
            ])
        }
        // evalv expr : evaluate an expression, structured result
        //   numeric: ["num", bits, unit-display, calculated, introspection text]
        //   other:   ["val", type_name, introspection text]
        "evalv" => {
            let scope = rsass::ScopeRef::new_global(Default::default());
            let v = match rsass::parse_value_data(&a[0]) {
                Ok(v) => v,
                Err(e) => {
                    return Out::Err(vec![
                        e.to_string().into_bytes(),
                        b"parse".to_vec(),
                    ]);
                }
            };
            match v.evaluate(scope) {
                Ok(rsass::css::Value::Numeric(n, calc)) => {
                    let bits = f64::from(n.value.clone()).to_bits();
                    Out::Ok(vec![
                        b"num".to_vec(),
                        bits.to_string().into_bytes(),
                        format!("{}", n.unit).into_bytes(),
                        (if calc { "1" } else { "0" }).as_bytes().to_vec(),
                        rsass::css::Value::Numeric(n, calc)
                            .format(Format::introspect())
                            .to_string()
                            .into_bytes(),
                    ])
                }
                Ok(v) => Out::Ok(vec![
                    b"val".to_vec(),
                    v.type_name().as_bytes().to_vec(),
                    v.format(Format::introspect()).to_string().into_bytes(),
                ]),
                Err(e) => Out::Err(vec![
                    e.to_string().into_bytes(),
                    format!("{e:?}").into_bytes(),
                ]),
            }
        }
        // parsedbg expr : Debug of the parsed sass value
        "parsedbg" => match rsass::parse_value_data(&a[0]) {
            Ok(v) => Out::Ok(vec![format!("{v:?}").into_bytes()]),
            Err(e) => Out::Err(vec![
                e.to_string().into_bytes(),
                format!("{e:?}").into_bytes(),
            ]),
        },
        // parsescss src : Debug of parsed items
        "parsescss" => {
            let f = SourceFile::scss_bytes(a[0].clone(), SourceName::root("-"));
            match f.parse() {
                Ok(p) => Out::Ok(vec![format!("{p:?}").into_bytes()]),
                Err(e) => Out::Err(vec![
                    e.to_string().into_bytes(),
                    format!("{e:?}").into_bytes(),
                ]),
            }
        }
        // threads n style prec src* : every thread compiles every src in order;
        // response: for each thread, for each src: tag+output
        "threads" => {
            let n: usize = s(&a[0]).parse().unwrap();
            let fmt = format_of(&a[1], &a[2]);
            let srcs: Vec<Vec<u8>> = a[3..].to_vec();
            let mut hs = vec![];
            for t in 0..n {
                let srcs = srcs.clone();
                hs.push(
                    std::thread::Builder::new()
                        .stack_size(8 << 20)
                        .spawn(move || {
                            let mut outs = vec![];
                            for (i, src) in srcs.iter().enumerate() {
                                if (i + t) % 3 == 0 {
                                    std::thread::yield_now();
                                }
                                let r = catch_unwind(AssertUnwindSafe(|| {
                                    rsass::compile_scss(src, fmt)
                                }));
                                outs.push(match r {
                                    Ok(Ok(v)) => [b"ok:".to_vec(), v].concat(),
                                    Ok(Err(e)) => {
                                        [b"err:".to_vec(), e.to_string().into_bytes()].concat()
                                    }
                                    Err(_) => b"panic:".to_vec(),
                                });
                            }
                            outs
                        })
                        .unwrap(),
                );
            }
            let mut all = vec![];
            for h in hs {
                match h.join() {
                    Ok(o) => all.extend(o),
                    Err(_) => all.push(b"panic:thread".to_vec()),
                }
            }
            Out::Ok(all)
        }
        // uniqueid threads calls : each thread evaluates unique-id() `calls` times
        "uniqueid" => {
            let n: usize = s(&a[0]).parse().unwrap();
            let calls: usize = s(&a[1]).parse().unwrap();
            let mut hs = vec![];
            for t in 0..n {
                hs.push(std::thread::spawn(move || {
                    let mut ids = Vec::with_capacity(calls);
                    for i in 0..calls {
                        if (i + t) % 64 == 0 {
                            std::thread::yield_now();
                        }
                        match rsass::compile_value(b"unique-id()", Default::default()) {
                            Ok(v) => ids.push(String::from_utf8_lossy(&v).to_string()),
                            Err(e) => ids.push(format!("ERR {e}")),
                        }
                    }
                    ids
                }));
            }
            let mut all = vec![];
            for h in hs {
                match h.join() {
                    Ok(ids) => all.push(ids.join(" ").into_bytes()),
                    Err(_) => all.push(b"PANIC".to_vec()),
                }
            }
            Out::Ok(all)
        }
        _ => dispatch(cmd, a)
            .unwrap_or_else(|| Out::Err(vec![b"unknown command".to_vec(), cmd.as_bytes().to_vec()])),
    }
}

thread_local! {
    static LAST_PANIC: RefCell<String> = const { RefCell::new(String::new()) };
}

fn main() {
    std::panic::set_hook(Box::new(|info| {
        let msg = info.to_string();
        LAST_PANIC.with(|p| *p.borrow_mut() = msg);
    }));
    let stdin = std::io::stdin();
    let stdout = std::io::stdout();
    for line in stdin.lock().lines() {
        let line = line.unwrap();
        if line.is_empty() {
            continue;
        }
        let mut it = line.split('\t');
        let cmd = it.next().unwrap().to_string();
        let args: Vec<Vec<u8>> = it.map(unhex).collect();
        // every request runs on its own 8 MiB thread (the bound C01 states)
        let h = std::thread::Builder::new()
            .stack_size(8 << 20)
            .spawn(move || {
                let r = catch_unwind(AssertUnwindSafe(|| run(&cmd, &args)));
                match r {
                    Ok(o) => Ok(o),
                    Err(_) => Err(LAST_PANIC.with(|p| p.borrow().clone())),
                }
            })
            .unwrap();
        let (tag, fields) = match h.join() {
            Ok(Ok(Out::Ok(f))) => ("ok", f),
            Ok(Ok(Out::Err(f))) => ("err", f),
            Ok(Err(m)) => ("panic", vec![m.into_bytes()]),
            Err(_) => ("panic", vec![b"thread join failed".to_vec()]),
        };
        let mut o = stdout.lock();
        let mut lineo = String::from(tag);
        for f in fields {
            lineo.push('\t');
            lineo.push_str(&hex(&f));
        }
        lineo.push('\n');
        o.write_all(lineo.as_bytes()).unwrap();
        o.flush().unwrap();
    }
}
