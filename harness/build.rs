// Collects src/cmds/*.rs into one dispatch function, so that property checks
// can add harness commands as separate files.
use std::io::Write;
fn main() {
    let out = std::env::var("OUT_DIR").unwrap();
    let dir = std::path::Path::new("src/cmds");
    let mut names: Vec<String> = std::fs::read_dir(dir)
        .map(|d| {
            d.filter_map(|e| e.ok())
                .filter_map(|e| {
                    let n = e.file_name().to_string_lossy().to_string();
                    n.strip_suffix(".rs").map(|s| s.to_string())
                })
                .collect()
        })
        .unwrap_or_default();
    names.sort();
    let mut f = std::fs::File::create(std::path::Path::new(&out).join("cmds.rs")).unwrap();
    let abs = std::fs::canonicalize(dir).unwrap();
    for n in &names {
        writeln!(f, "#[path = \"{}/{}.rs\"] mod cmd_{};", abs.display(), n, n).unwrap();
    }
    writeln!(f, "pub fn dispatch(cmd: &str, a: &[Vec<u8>]) -> Option<crate::Out> {{").unwrap();
    for n in &names {
        writeln!(f, "    if let Some(o) = cmd_{}::run(cmd, a) {{ return Some(o); }}", n).unwrap();
    }
    writeln!(f, "    None\n}}").unwrap();
    println!("cargo:rerun-if-changed=src/cmds");
}
