(* C27 runner: a double-quoted literal is printed, measured with str-length and
   sent through quote(unquote()); model outputs vs rsass, and the property
   (the printed tokens denote the string the literal denotes) on rsass's outputs. *)
From Coq Require Import String List NArith ZArith Bool.
From RV Require Import Base.Text Base.ListX Model.CssStr Model.StrEsc Spec.CssEsc.
Import ListNotations.
Local Open Scope N_scope.
Local Open Scope list_scope.

Record case := mkCase {
  c_interp : bool;                       (* the literal is bound to $s and interpolated: "#{$s}" *)
  c_single : bool;                       (* the source literal is single-quoted *)
  c_body : list N;                       (* code points between the quotes of the source literal *)
  c_impl : option (list (list N)) }.     (* [token; length; quote(unquote); unquote] as code points; None = error;
                                            interpolation cases: ["#{$s}"; "#{$s}" == $s; str-length("#{$s}"); str-length($s)] *)

(* ---- the model's outputs ---- *)
Definition unquoted_value (s : cssstring) : option cssstring :=
  option_map (fun v => mkStr v QNone) (css_unquote s).

(* css/rule.rs Property::write: the printed value has every newline replaced by a space *)
Definition prop_write (t : list N) : list N := map (fun c => if c =? 10 then 32 else c) t.

Definition model_outputs (single : bool) (body : list N) : option (list (list N)) :=
  match literal_value_of single body with
  | None => None
  | Some lv =>
      match unquoted_value lv with
      | None => None
      | Some u =>
          Some [ prop_write (css_display lv);
                 dec_of_Z (Z.of_nat (length (s_val lv)));
                 prop_write (css_display (pref_dquotes (css_quote u)));
                 prop_write (css_display u) ]
      end
  end.

(* $s: <literal>;  i: "#{$s}";  e: "#{$s}" == $s;  n: str-length("#{$s}");  l: str-length($s) *)
Definition t_bool (b : bool) : list N := if b then [116; 114; 117; 101] else [102; 97; 108; 115; 101].
Definition interp_outputs (single : bool) (body : list N) : option (list (list N)) :=
  match literal_value_of single body with
  | None => None
  | Some lv =>
      match css_unquote lv with
      | None => None
      | Some u =>
          match interp_escape (css_display (mkStr u QNone)) false with
          | None => None
          | Some r =>
              let res := pref_dquotes (mkStr r QDouble) in
              match css_eq res lv with
              | Some e =>
                  Some [ prop_write (css_display res); t_bool e;
                         dec_of_Z (Z.of_nat (length r)); dec_of_Z (Z.of_nat (length (s_val lv))) ]
              | None => None
              end
          end
      end
  end.

Definition texts_eqb (a b : list (list N)) : bool := list_eqb cps_eqb a b.
Definition corr (c : case) : Z :=
  match (if c_interp c then interp_outputs (c_single c) (c_body c) else model_outputs (c_single c) (c_body c)), c_impl c with
  | Some a, Some b => if texts_eqb a b then 1%Z else 0%Z
  | None, None => 1%Z
  | None, Some _ => 2%Z                   (* literal outside the modelled grammar *)
  | Some _, None => 0%Z
  end.

(* ---- the property on rsass's outputs ---- *)
Definition denoted (c : case) : list N := css_decode (c_body c).

(* body of a quoted token, None when the text is not "..." or '...' *)
Definition token_body (t : list N) : option (list N) :=
  match t with
  | q :: r =>
      if (q =? 34) || (q =? 39) then
        match rev r with
        | q' :: b => if q' =? q then Some (rev b) else None
        | [] => None
        end
      else None
  | [] => None
  end.

(* an unescaped occurrence of the quote character inside the body ends the token early *)
Fixpoint well_delimited (q : N) (l : list N) (esc : bool) : bool :=
  match l with
  | [] => negb esc
  | c :: r => if esc then well_delimited q r false
              else if c =? 92 then well_delimited q r true
              else if (c =? q) || (c =? 10) || (c =? 13) || (c =? 12) then false else well_delimited q r false
  end.

Definition token_denotes (t : list N) (want : list N) : bool :=
  match t, token_body t with
  | q :: _, Some b => well_delimited q b false && cps_eqb (css_decode b) want
  | _, _ => false
  end.

Definition nth_text (c : case) (i : nat) : list N :=
  match c_impl c with Some l => nth i l [] | None => [] end.

Definition clause_emit (c : case) : bool :=
  match c_impl c with Some _ => token_denotes (nth_text c 0) (denoted c) | None => false end.
(* interpolation: "#{$s}" is equal to $s and has the same length *)
Definition clause_interp_same (c : case) : bool :=
  match c_impl c with
  | Some _ => cps_eqb (nth_text c 1) (t_bool true) && cps_eqb (nth_text c 2) (nth_text c 3)
  | None => false
  end.
Definition clause_length (c : case) : bool :=
  match c_impl c with
  | Some _ => cps_eqb (nth_text c 1) (dec_of_Z (Z.of_nat (length (denoted c))))
  | None => false
  end.
Definition clause_quote_unquote (c : case) : bool :=
  match c_impl c with Some _ => token_denotes (nth_text c 2) (denoted c) | None => false end.

(* ---- known classes: conditions on the source literal only ---- *)
(* K1 (F26a): the stored text differs in length from the denoted string (some escape is stored escaped) *)
Definition known_len (c : case) : bool :=
  match store_lit (c_single c) (c_body c) with
  | Some v => negb (Nat.eqb (length v) (length (denoted c)))
  | None => false
  end.

(* a private-use character followed by a raw tab: Display terminates its hex escape only before a
   hex digit or a space, the CSS reader swallows any one white space *)
Fixpoint pu_then_hex (l : list N) : bool :=
  match l with
  | c :: ((d :: _) as r) => (is_private_use c && (d =? 9)) || pu_then_hex r
  | _ => false
  end.

(* escapes of the body: (value, first char, char after the escape) *)
Inductive bst : Type := BNormal | BCtl | BSlash | BHex (v : N) (n : nat).
Definition stored_escaped (v : N) : bool := is_control v && negb (v =? 9) && negb (v =? 0).
Fixpoint bad_escape (sq : bool) (l : list N) (st : bst) : bool :=
  match l, st with
  | [], BHex v _ => negb (valid_char v)
  | [], _ => false
  | c :: r, BNormal => if c =? 92 then bad_escape sq r BSlash else bad_escape sq r BNormal
  | c :: r, BCtl => (c =? 32) || (if c =? 92 then bad_escape sq r BSlash else bad_escape sq r BNormal)
  | c :: r, BSlash =>
      match hexv c with
      | Some d => bad_escape sq r (BHex d 1)
      | None => ((c =? 10) && negb sq) || (c =? 9) || bad_escape sq r BNormal
      end
  | c :: r, BHex v n =>
      match hexv c with
      | Some d => if Nat.ltb n 6 then bad_escape sq r (BHex (v * 16 + d) (S n))
                  else negb (valid_char v) || bad_escape sq r BNormal
      | None => negb (valid_char v) || ((c =? 9) || (c =? 10) || (c =? 13) || (c =? 12))
                || (if c =? 92 then bad_escape sq r BSlash
                    else if (c =? 32) && stored_escaped v then bad_escape sq r BCtl else bad_escape sq r BNormal)
      end
  end.

(* K2: the printed token denotes another string: a private-use character followed by a tab (its hex
   escape is terminated only before a hex digit or space), an escaped tab/newline, an escape
   of a surrogate / out-of-range code point, a hex escape terminated by tab/newline, or the escape of a
   control character followed by a space character (cleanup_escape_ws drops the terminator) *)
Definition known_emit (c : case) : bool :=
  pu_then_hex (denoted c) || bad_escape (c_single c) (c_body c) BNormal.

(* K3: quote(unquote(s)) when s denotes a line break (LF, CR, FF): unquote decodes the escape, quote does
   not escape it again, and Property::write prints a newline as a space *)
Definition is_line_break (c : N) : bool := (c =? 10) || (c =? 13) || (c =? 12).
Definition known_qu (c : case) : bool :=
  known_emit c || existsb is_line_break (denoted c).

Definition b2z (b : bool) : Z := if b then 1%Z else 0%Z.
Definition run (c : case) : list Z :=
  if c_interp c then
  [ corr c;
    b2z (clause_emit c); (if known_emit c then 2 else 0)%Z;
    1%Z; 0%Z;
    b2z (clause_interp_same c); (if known_emit c then 2 else 0)%Z ]
  else
  [ corr c;
    b2z (clause_emit c); (if known_emit c then 2 else 0)%Z;
    b2z (clause_length c); (if known_len c then 1 else 0)%Z;
    b2z (clause_quote_unquote c); (if known_qu c then 3 else 0)%Z ].
