(* C30 runner: model text vs implementation text, and the two property clauses
   evaluated on the IMPLEMENTATION's text with the reference calculator. *)
From Coq Require Import String List NArith ZArith QArith Qabs Bool.
From RV Require Import Base.F64 Base.Text Model.Units Model.Numeric Spec.CssUnits Spec.CalcSem Model.Calc.
Import ListNotations.
Local Open Scope Z_scope.
Local Open Scope list_scope.

(* a calculation as generated: every number with its decimal value and the f64 of its text *)
Inductive xtree : Type :=
| XNum (q : Q) (bits : Z) (unit : string)
| XVar (i : nat)
| XBin (o : cop) (l r : xtree).

Fixpoint to_m (t : xtree) : mtree :=
  match t with
  | XNum _ b u => MNum b u
  | XVar i => MVar i
  | XBin o l r => MBin o (to_m l) (to_m r)
  end.
Fixpoint to_c (t : xtree) : ctree :=
  match t with
  | XNum q _ u => CNum q u
  | XVar i => CVar i
  | XBin o l r => CBin o (to_c l) (to_c r)
  end.

Inductive impl : Type :=
| IOk (text : list N)
| IErr
| IOther.

Record env := mkEnv { e_vars : list quant; e_units : list (string * Q) }.

Record case := mkCase {
  c_kind : N;                 (* 0 calc, 1 min, 2 max, 3 clamp *)
  c_args : list xtree;        (* calc: one tree; min/max/clamp: the arguments *)
  c_envs : list env;
  c_impl : impl }.

Definition fname (k : N) : string :=
  match k with 0%N => "calc" | 1%N => "min" | 2%N => "max" | _ => "clamp" end%string.
Definition spec_tree (c : case) : ctree :=
  match c_kind c, c_args c with
  | 0%N, [t] => to_c t
  | k, args => CFun (fname k) (map to_c args)
  end.

(* ---- model text ---- *)
Definition leaf_num (t : xtree) : option numeric :=
  match t with XNum _ b u => Some (num_of_leaf b u) | _ => None end.
Fixpoint all_some {A} (l : list (option A)) : option (list A) :=
  match l with
  | [] => Some []
  | Some x :: r => option_map (cons x) (all_some r)
  | None :: _ => None
  end.
Fixpoint join_args (l : list (list N)) : list N :=
  match l with
  | [] => []
  | [x] => x
  | x :: r => x ++ [44%N; 32%N] ++ join_args r
  end.

Definition fres_text (name : string) (args : list numeric) (r : fres) : option (option (list N)) :=
  match r with
  | FNumber n => option_map Some (fmt_numeric n)
  | FKept => option_map (fun ts => Some (bytes_of_string name ++ [40%N] ++ join_args ts ++ [41%N]))
                        (all_some (map fmt_numeric args))
  | FErr => Some None
  | FUnmod => None
  end.

Definition model_text (c : case) : option (option (list N)) :=
  match c_kind c, c_args c with
  | 0%N, [t] => calc_text (to_m t)
  | 0%N, _ => None
  | k, args =>
      match all_some (map leaf_num args) with
      | None => None
      | Some ns =>
          match k, ns with
          | 1%N, _ => fres_text "min" ns (minmax_model false ns)
          | 2%N, _ => fres_text "max" ns (minmax_model true ns)
          | 3%N, [a; b; d] => fres_text "clamp" ns (clamp_model a b d)
          | _, _ => None
          end
      end
  end.

Definition corr (c : case) : Z :=
  match model_text c, c_impl c with
  | None, _ => 2
  | Some None, IErr => 1
  | Some (Some s), IOk s' => if bytes_eqb s s' then 1 else 0
  | _, _ => 0
  end.

(* ---- the property, on the implementation's text ---- *)
Definition tol12 : Q := 1 # 1000000000000.
Definition tol6 : Q := 1 # 1000000.
(* a printed number carries 10 decimals: half a unit of the last place, in its own unit *)
Definition print_ulp : Q := 1 # 10000000000.
Definition printed_close (u : string) (v' v : quant) : bool :=
  let ratio := match cvalue [] [] (CNum 1 u) with Some (r, _) => Qabs r | None => 1%Q end in
  dv_eqb (snd v') (snd v)
  && Qle_bool (Qabs (fst v' - fst v)) (print_ulp * ratio + tol12 * Qabs (fst v)).

(* all operands are numbers and the fixed CSS ratios give every subtree a plain value *)
Definition simplifiable (s : ctree) : bool :=
  negb (has_var s) && all_plain [] [] s.

Definition clause_simplify (c : case) : bool :=
  let s := spec_tree c in
  if simplifiable s then
    match cvalue [] [] s, c_impl c with
    | Some v, IOk text =>
        match decode text with
        | Some (CNum q u) =>
            match cvalue [] [] (CNum q u) with
            | Some v' => printed_close u v' v
            | None => false
            end
        | _ => false
        end
    | _, _ => false
    end
  else true.

(* the emitted calculation denotes the same quantity as the one written, in every environment given *)
Definition clause_sound (c : case) : bool :=
  let s := spec_tree c in
  if simplifiable s then true else
  if negb (forallb (fun e => all_plain (e_vars e) (e_units e) s) (c_envs c)) then true else
  match c_impl c with
  | IOk text =>
      match decode text with
      | Some t' =>
          forallb (fun e =>
            match cvalue (e_vars e) (e_units e) s, cvalue (e_vars e) (e_units e) t' with
            | Some v, Some v' => quant_close tol6 v' v
            | _, _ => false
            end) (c_envs c)
      | None => false
      end
  | _ => false
  end.

(* ---- known classes: decidable, functions of the written calculation only ---- *)
(* the subtree cannot be reduced to a number: it contains var(), or units the fixed ratios cannot combine *)
Definition kept (t : ctree) : bool :=
  has_var t || match cvalue [] [] t with Some _ => false | None => true end.

Fixpoint exists_cnode (p : ctree -> bool) (t : ctree) : bool :=
  p t || match t with
         | CBin _ l r => exists_cnode p l || exists_cnode p r
         | CFun _ args => existsb (exists_cnode p) args
         | _ => false
         end.
(* K1: `a / (b / c)` with the divisor kept: printed as `a / b / c` *)
Definition k1_node (t : ctree) : bool :=
  match t with
  | CBin CDiv _ (CBin CDiv a b) => kept (CBin CDiv a b)
  | _ => false
  end.
(* K2: `(a + b) * c`, `(a - b) / c` with the sum kept: printed without the parentheses *)
Definition k2_node (t : ctree) : bool :=
  match t with
  | CBin (CMul | CDiv) (CBin (CAdd | CSub) a b as l) _ => kept l
  | _ => false
  end.
Definition known_K1 (t : ctree) : bool := exists_cnode k1_node t.
Definition known_K2 (t : ctree) : bool := exists_cnode k2_node t.

Definition b2z (b : bool) : Z := if b then 1 else 0.

(* [corr; simplify ok; sound ok; class of the sound clause; simplifiable; environments typed] *)
Definition run (c : case) : list Z :=
  let s := spec_tree c in
  [ corr c;
    b2z (clause_simplify c);
    b2z (clause_sound c);
    (if known_K2 s then 2 else if known_K1 s then 1 else 0);
    b2z (simplifiable s);
    b2z (forallb (fun e => all_plain (e_vars e) (e_units e) s) (c_envs c)) ].
