(* C17 runner: model answer, correspondence with the implementation's output,
   property clause on the implementation's output, known class of the input. *)
From Coq Require Import String List ZArith NArith QArith Qabs Bool.
From RV Require Import Base.F64 Base.Text Gen.Units Model.Units Model.Numeric
  Model.EvValue Model.EvRange Model.EvFlow Spec.CssUnits Spec.SassFlow.
Import ListNotations.
Local Open Scope Z_scope.

Inductive cinput : Type :=
| CFor (abits : Z) (ua : string) (bbits : Z) (ub : string) (inclusive : bool)
| CIf (i : ifstmt)
| CEach (names : list string) (v : value)
| CWhile (c : wcmp) (a b k : Z)          (* $i: a; @while $i c b { x: $i; $i: $i + k } *)
| CWhileList (l : list value).           (* $n: 1; @while nth(l, $n) { x: $n; $n: $n + 1 } *)

Inductive implres : Type :=
| INums (l : list (Z * string))          (* @for: value bits and unit text of every `x:` *)
| IDecls (l : list (string * list N))    (* name and value text of every declaration *)
| IErr | IPanic | IOther.

Record case := mkCase { c_in : cinput; c_impl : implres }.

(* ---------------- the model's prediction ---------------- *)
Definition num_of (bits : Z) (u : string) : numeric :=
  mkNum (of_bits bits) (us_of_unit (unit_of_text u)).

Definition wl_cond (l : list value) (n : Z) : value := nth (Z.to_nat (n - 1)) l VNull.

Definition decl_int (name : string) (z : Z) : string * list N := (name, dec_of_Z z).

Definition model_out (i : cinput) : option implres :=
  match i with
  | CFor a ua b ub incl =>
      match for_eval (num_of a ua) (num_of b ub) incl with
      | FItems l u => Some (INums (map (fun x => (canon_bits x, us_display u)) l))
      | FErr => Some IErr
      | FPanic => Some IPanic
      | FUnmodelled => None
      end
  | CIf s =>
      Some (IDecls match if_eval s with Some k => [decl_int "x" (Z.of_nat k)] | None => [] end)
  | CEach names v =>
      Some (IDecls (flat_map (fun bs => map (fun nv => (fst nv, inspect (snd nv))) bs) (each_eval names v)))
  | CWhile c a b k =>
      match counter_loop 200 c a b k with
      | Some (l, _) => Some (IDecls (map (decl_int "x") l))
      | None => None
      end
  | CWhileList l =>
      match while_eval (wl_cond l) (fun n => n + 1) 200 1 with
      | Some (r, _) => Some (IDecls (map (decl_int "x") r))
      | None => None
      end
  end.

Fixpoint decls_eqb (a b : list (string * list N)) : bool :=
  match a, b with
  | [], [] => true
  | (n, t) :: a', (m, u) :: b' => String.eqb n m && bytes_eqb t u && decls_eqb a' b'
  | _, _ => false
  end.
Fixpoint nums_eqb (a b : list (Z * string)) : bool :=
  match a, b with
  | [], [] => true
  | (x, t) :: a', (y, u) :: b' => (x =? y) && String.eqb t u && nums_eqb a' b'
  | _, _ => false
  end.
Definition impl_eqb (a b : implres) : bool :=
  match a, b with
  | INums x, INums y => nums_eqb x y
  | IDecls x, IDecls y => decls_eqb x y
  | IErr, IErr | IPanic, IPanic => true
  | _, _ => false
  end.

Definition corr (c : case) : Z :=
  match model_out (c_in c) with
  | None => 2
  | Some m => if impl_eqb m (c_impl c) then 1 else 0
  end.

(* ---------------- the property, on the implementation's output ---------------- *)
Definition q_of_bits (z : Z) : option Q :=
  match f_to_Q (of_bits z) with
  | Some (m, e) => Some (if (0 <=? e)%Z then inject_Z (m * 2 ^ e)%Z else (m # Z.to_pos (2 ^ (- e))%Z))
  | None => None
  end.

(* an integer is reported as the nearest binary64 *)
Definition expect_nums (l : list Z) (u : string) : list (Z * string) :=
  map (fun z => (canon_bits (f_of_Z z), u)) l.

Fixpoint chain_of (i : ifstmt) : list (value * nat) * option nat :=
  match i with
  | IfS c b e =>
      match e with
      | ENone => ([(c, b)], None)
      | EBody b' => ([(c, b)], Some b')
      | EIf i' => let (r, els) := chain_of i' in ((c, b) :: r, els)
      end
  end.

Definition spec_decls (bs : list (list (string * value))) : list (string * list N) :=
  flat_map (fun b => map (fun nv => (fst nv, inspect (snd nv))) b) bs.

Definition clause (c : case) : bool :=
  match c_in c with
  | CFor a ua b ub incl =>
      match q_of_bits a, q_of_bits b with
      | Some qa, Some qb =>
          match spec_for qa ua qb ub incl with
          | ForItems l u => impl_eqb (INums (expect_nums l u)) (c_impl c)
          | ForError => impl_eqb IErr (c_impl c)
          | ForEither l u => impl_eqb IErr (c_impl c) || impl_eqb (INums (expect_nums l u)) (c_impl c)
          end
      | _, _ => impl_eqb IErr (c_impl c)      (* a non-finite bound is not an integer *)
      end
  | CIf s =>
      let (br, els) := chain_of s in
      impl_eqb (IDecls match first_truthy br els with Some k => [decl_int "x" (Z.of_nat k)] | None => [] end)
               (c_impl c)
  | CEach names v => impl_eqb (IDecls (spec_decls (spec_each names v))) (c_impl c)
  | CWhile cm a b k =>
      match spec_while (wcond cm b) (fun i => i + k) 200 a with
      | Some (l, _) => impl_eqb (IDecls (map (decl_int "x") l)) (c_impl c)
      | None => true                        (* no stop within the bound: outside the generated class *)
      end
  | CWhileList l =>
      match spec_while (wl_cond l) (fun n => n + 1) 200 1 with
      | Some (r, _) => impl_eqb (IDecls (map (decl_int "x") r)) (c_impl c)
      | None => true
      end
  end.

(* ---------------- known classes: decidable, INPUT only ---------------- *)
(* (class 1, the i64-edge panic F2, was fixed by 48adbab and no longer exists) *)
(* (class 2, invented ratios between em/ex/ch, vmin/vmax, %/fr - C11 F15 - was fixed by c9cdb70) *)

Definition b2z (b : bool) : Z := if b then 1 else 0.
Definition kind (i : cinput) : Z :=
  match i with CFor _ _ _ _ _ => 1 | CIf _ => 2 | CEach _ _ => 3 | CWhile _ _ _ _ => 4 | CWhileList _ => 5 end.

(* result: [corr; clause ok; known class of the input; kind] *)
Definition run (c : case) : list Z :=
  [ corr c; b2z (clause c);
    0;
    kind (c_in c) ].
