(* C31 runner: model channels vs implementation channels (bit patterns) and the
   range / rebuild / equality clauses on the IMPLEMENTATION's answers. *)
From Coq Require Import String List ZArith Bool.
From RV Require Import Base.F64 Base.FMod Gen.Colors Model.Color.
Import ListNotations.
Local Open Scope Z_scope.

Inductive ckind : Type := KRgb | KHsl | KHwb | KNamed (name : string) | KHex
  | KRgbaOf.     (* rgba(#rrggbb, alpha): Color::set_alpha + reset_source (used by C33) *)

(* what the harness reports for one colour: representation, own channels, and the
   channels after conversion to each of the three models, all as f64 bit patterns *)
Record report := mkReport {
  p_kind : Z;                       (* 0 rgba, 1 hsla, 2 hwba *)
  p_own : list Z; p_rgba : list Z; p_hsla : list Z; p_hwba : list Z }.

Record case := mkCase {
  c_kind : ckind;
  c_in : list Z;                    (* the four numeric arguments (bits); bytes for KHex *)
  c_impl : option report;           (* None: error / not a colour *)
  c_eqs : list Z }.                 (* answers (1 true / 0 false / 2 other) of the rebuild and equality requests *)

Fixpoint assoc_z (k : string) (l : list (string * Z)) : option Z :=
  match l with
  | [] => None
  | (k', v) :: r => if String.eqb k k' then Some v else assoc_z k r
  end.

(* Rgba::from_name (lower-case names only are generated) *)
Definition from_name (n : string) : option rgba :=
  if String.eqb n "transparent" then Some (rgba_new f_zero f_zero f_zero f_zero SName) else
  match assoc_z n color_table with
  | Some v => Some (rgba_new (fc (v / 65536)) (fc ((v / 256) mod 256)) (fc (v mod 256)) f_one SName)
  | None => None
  end.

Definition model_color (c : case) : option color :=
  match c_kind c, c_in c with
  | KRgb, [r; g; b; a] => Some (sass_rgb (of_bits r) (of_bits g) (of_bits b) (of_bits a))
  | KHsl, [h; s; l; a] => Some (sass_hsl (of_bits h) (of_bits s) (of_bits l) (of_bits a))
  | KHwb, [h; w; b; a] => Some (sass_hwb (of_bits h) (of_bits w) (of_bits b) (of_bits a))
  | KNamed n, _ => option_map CRgba (from_name n)
  | KHex, [r; g; b] => Some (CRgba (rgba_from_bytes r g b))
  | KRgbaOf, [r; g; b; a] => Some (CRgba (mkRgba (fc r) (fc g) (fc b) (fclamp (of_bits a) f_zero f_one) SName))
  | _, _ => None
  end.

Definition rgba_list (x : rgba) : list f64 := [r_red x; r_green x; r_blue x; r_alpha x].
Definition hsla_list (x : hsla) : list f64 := [h_hue x; h_sat x; h_lum x; h_alpha x].
Definition hwba_list (x : hwba) : list f64 := [w_hue x; w_w x; w_b x; w_alpha x].

(* same float: same bits, both NaN, or both zero *)
Definition same_bits (m : f64) (z : Z) : bool :=
  let i := of_bits z in
  (canon_bits m =? canon_bits i) || (feq m f_zero && feq i f_zero).
Fixpoint same_all (ms : list f64) (zs : list Z) : bool :=
  match ms, zs with
  | [], [] => true
  | m :: ms', z :: zs' => same_bits m z && same_all ms' zs'
  | _, _ => false
  end.

Definition corr_with (m : option color) (c : case) : Z :=
  match m, c_impl c with
  | Some col, Some p =>
      let k := match col with CRgba _ => 0 | CHsla _ => 1 | CHwba _ => 2 end in
      let own := match col with CRgba x => rgba_list x | CHsla x => hsla_list x | CHwba x => hwba_list x end in
      if (k =? p_kind p) && same_all own (p_own p) && same_all (rgba_list (to_rgba col)) (p_rgba p)
         && same_all (hsla_list (to_hsla col)) (p_hsla p) && same_all (hwba_list (to_hwba col)) (p_hwba p)
      then 1 else 0
  | None, None => 1
  | _, _ => 0
  end.

(* ---- the property on the implementation's numbers ---- *)
Definition in_range (lo hi : f64) (z : Z) : bool := let x := of_bits z in fle lo x && fle x hi.
Definition nthz (l : list Z) (i : nat) : Z := nth i l 0.

Definition clause_rgb (p : report) : bool :=
  in_range f_zero f255 (nthz (p_rgba p) 0) && in_range f_zero f255 (nthz (p_rgba p) 1)
  && in_range f_zero f255 (nthz (p_rgba p) 2)
  && in_range f_zero f_one (nthz (p_rgba p) 3) && in_range f_zero f_one (nthz (p_hsla p) 3)
  && in_range f_zero f_one (nthz (p_hwba p) 3).
Definition clause_hue (p : report) : bool :=
  let h := of_bits (nthz (p_hsla p) 0) in fle f_zero h && flt h f360.
(* 0..100%, to the ten decimals a percentage is printed with *)
Definition one_plus : f64 := fadd f_one (of_bits 4427486594234968593).     (* 1 + 1e-12 *)
Definition clause_sl (p : report) : bool :=
  in_range f_zero one_plus (nthz (p_hsla p) 1) && in_range f_zero one_plus (nthz (p_hsla p) 2).
Definition clause_wb (p : report) : bool :=
  in_range f_zero one_plus (nthz (p_hwba p) 1) && in_range f_zero one_plus (nthz (p_hwba p) 2).

(* ---- known classes: functions of the constructor call only ---- *)
(* K1: a hue argument that is a negative number so small that `h % 360 + 360` rounds to 360 (incl. -0) *)
Definition known_K1 (c : case) : bool :=
  match c_kind c, c_in c with
  | (KHsl | KHwb), h :: _ =>
      let r := ffmod (of_bits h) f360 in f_sign_neg r && feq (fadd r f360) f360
  | _, _ => false
  end.
(* K2: hsl() saturation above 100% or lightness outside 0..100% is kept as given *)
Definition known_K2 (c : case) : bool :=
  match c_kind c, c_in c with
  | KHsl, [_; s; l; _] => fgt (of_bits s) f100 || flt (of_bits l) f_zero || fgt (of_bits l) f100
  | _, _ => false
  end.
(* K3: hwb() whiteness or blackness outside 0..100% is kept as given (negative) or only rescaled *)
Definition known_K3 (c : case) : bool :=
  match c_kind c, c_in c with
  | KHwb, [_; w; b; _] => flt (of_bits w) f_zero || flt (of_bits b) f_zero
                          || fgt (of_bits w) f100 || fgt (of_bits b) f100
  | _, _ => false
  end.
(* K4: a colour whose rgb channels are not all integers: red()/green()/blue() report them rounded,
   so the colour rebuilt from them is another colour *)
Definition frac (x : f64) : bool := negb (feq (fround x) x).
Definition known_K4m (m : option color) : bool :=
  match m with
  | Some col => let x := to_rgba col in frac (r_red x) || frac (r_green x) || frac (r_blue x)
  | None => false
  end.
(* K5: a colour kept in hsl / hwb form (made by hsl() or hwb()) is compared field by field, exactly,
   together with its `hsla_format` flag *)
Definition known_K5m (m : option color) : bool :=
  match m with Some (CHsla _) | Some (CHwba _) => true | _ => false end.
Definition corr (c : case) : Z := corr_with (model_color c) c.
Definition known_K4 (c : case) : bool := known_K4m (model_color c).
Definition known_K5 (c : case) : bool := known_K5m (model_color c).

Definition b2z (b : bool) : Z := if b then 1 else 0.
Definition opt_clause (c : case) (f : report -> bool) : Z :=
  match c_impl c with Some p => b2z (f p) | None => 0 end.

(* [corr; rgb; hue; sl; wb; K1; K2; K3; K4; K5 (kept in hsl or hwb form); kept in hsl form] (the equality answers are judged from c_eqs directly) *)
Definition run (c : case) : list Z :=
  let m := model_color c in
  [ corr_with m c; opt_clause c clause_rgb; opt_clause c clause_hue; opt_clause c clause_sl; opt_clause c clause_wb;
    b2z (known_K1 c); b2z (known_K2 c); b2z (known_K3 c); b2z (known_K4m m); b2z (known_K5m m);
    b2z (match m with Some (CHsla _) => true | _ => false end) ].
