(* C36 runner: comments are preserved as Sass specifies. *)
From Coq Require Import List NArith ZArith Bool.
From RV Require Import Base.Text Spec.CssTok Model.Out Model.OutDest Spec.Reach.
Import ListNotations.
Local Open Scope N_scope.

Record case := mkCase { c_prog : program; c_exp : iout; c_comp : iout }.

Definition b2n (b : bool) : N := if b then 1 else 0.
Definition silent_word : bytes := [115;105;108;101;110;116].   (* the marker the generator puts in // comments *)

(* the comments a run reaches, unless it ends in an error *)
Definition expected (p : program) : option (list bytes) :=
  let (l, e) := before_error (reach_program FUEL p) in
  if e then None else Some (comments_in l).

(* clause 1: expanded output has every reached loud comment, in order
   clause 2: compressed output has exactly the `/*!` comments, in order
   clause 3: no // comment text in either output *)
Definition clause_expanded (c : case) : bool :=
  match c_exp c, expected (c_prog c) with
  | IOk o, Some ex => same_comments (comments_of o) ex
  | _, _ => true
  end.
Definition clause_compressed (c : case) : bool :=
  match c_comp c, expected (c_prog c) with
  | IOk o, Some ex => same_comments (comments_of o) (filter is_bang ex)
  | _, _ => true
  end.
Definition clause_silent (c : case) : bool :=
  match c_exp c with IOk o => negb (contains silent_word o) | _ => true end
  && match c_comp c with IOk o => negb (contains silent_word o) | _ => true end.

(* known class: a comment directly in an at-rule body that bubbles through a style
   rule comes out before the nested rules that precede it (see C20) *)

Definition run (c : case) : list N :=
  [ corr_of (compile FUEL Expanded (c_prog c)) (c_exp c);
    corr_of (compile FUEL Compressed (c_prog c)) (c_comp c);
    b2n (clause_expanded c); b2n (clause_compressed c); b2n (clause_silent c);
    b2n (known_reorder (c_prog c)) ].
