(* C40 runner: one invocation of the rsass binary (observed: exit status, stdout, stderr) and, for every input
   file in order, what the LIBRARY answers for that file with the same format and load path (harness `path`).
   The model (Spec/EntryDocs.v doc_cli_run, proved equal to the extracted Args::run in Props/C40.v) is instantiated
   with those library answers and predicts stdout / exit status / stderr. *)
From Coq Require Import String List ZArith NArith Bool.
From RV Require Import Base.Text.
Import ListNotations.
Local Open Scope N_scope.

Inductive fres : Type :=
| FOk (css : list N)
| FErr (msg : list N)          (* Display of the library error *)
| FBad.

Record case := mkCase {
  c_files : list fres;          (* library result per input file, in command line order *)
  c_exit : Z;
  c_stdout : list N;
  c_stderr : list N;
  c_must : list (list N);       (* byte strings that must occur in stdout (which copy of a dependency was loaded) *)
  c_mustnot : list (list N) }.

(* doc_cli_run on concrete library answers: (written, None = Ok(()) | Some error) *)
Fixpoint predict (fs : list fres) (written : list N) : option (list N * option (list N)) :=
  match fs with
  | [] => Some (written, None)
  | FOk css :: r => predict r (written ++ css)
  | FErr m :: _ => Some (written, Some m)
  | FBad :: _ => None
  end.

Definition nl : list N := [10].
Definition error_prefix : list N := bytes_of_string "Error: ".

Fixpoint is_prefix (p l : list N) : bool :=
  match p, l with
  | [], _ => true
  | a :: p', b :: l' => (a =? b) && is_prefix p' l'
  | _ :: _, [] => false
  end.
Fixpoint occurs (p l : list N) : bool :=
  is_prefix p l || match l with [] => false | _ :: r => occurs p r end.

(* 1 agree / 0 disagree / 2 a library call crashed *)
Definition corr (c : case) : Z :=
  match predict (c_files c) [] with
  | None => 2%Z
  | Some (out, None) =>
      if bytes_eqb (c_stdout c) out && (c_exit c =? 0)%Z && bytes_eqb (c_stderr c) [] then 1%Z else 0%Z
  | Some (out, Some m) =>
      if bytes_eqb (c_stdout c) out && negb (c_exit c =? 0)%Z && bytes_eqb (c_stderr c) (error_prefix ++ m ++ nl)
      then 1%Z else 0%Z
  end.

Definition all_ok (fs : list fres) : bool := forallb (fun f => match f with FOk _ => true | _ => false end) fs.
Definition any_err (fs : list fres) : bool := existsb (fun f => match f with FErr _ => true | _ => false end) fs.
Definition concat_ok (fs : list fres) : list N := flat_map (fun f => match f with FOk c => c | _ => [] end) fs.

(* "writes the concatenated CSS of its input files to stdout and exits 0 when all of them compile;
    --style / --precision give exactly the library's output" *)
Definition clause_success (c : case) : bool :=
  if all_ok (c_files c) then bytes_eqb (c_stdout c) (concat_ok (c_files c)) && (c_exit c =? 0)%Z else true.
(* "if any fails, it exits non-zero with an `Error:` message on stderr" *)
Definition clause_failure (c : case) : bool :=
  if any_err (c_files c) then negb (c_exit c =? 0)%Z && is_prefix (bytes_of_string "Error:") (c_stderr c) else true.
(* "loads are resolved against the input file's directory and then --load-path" *)
Definition clause_loads (c : case) : bool :=
  forallb (fun m => occurs m (c_stdout c)) (c_must c) && forallb (fun m => negb (occurs m (c_stdout c))) (c_mustnot c).

Definition b2z (b : bool) : Z := if b then 1%Z else 0%Z.
(* [corr; success; failure; loads; all ok?; number of files] *)
Definition run (c : case) : list Z :=
  [corr c; b2z (clause_success c); b2z (clause_failure c); b2z (clause_loads c); b2z (all_ok (c_files c));
   Z.of_nat (length (c_files c))].
