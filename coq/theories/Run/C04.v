(* C04 runner: model result vs implementation (outcome class, markers, plain imports,
   loader-call log), and the property predicate (Spec/Resolve) evaluated on the
   IMPLEMENTATION's answer.  Depends on Model and Spec only. *)
From Coq Require Import String List Bool Arith Ascii NArith ZArith.
From RV Require Import Gen.Candidates Model.Load Model.LoadRun Spec.Resolve.
Import ListNotations.
Local Open Scope string_scope.

Record case : Type := mkCase {
  c_world : world;           (* file i of the world emits marker i (importers emit nothing) *)
  c_mode : mode;
  c_root : string;           (* url the root is known by *)
  c_rootid : string;         (* its name in the world *)
  c_importer : string;       (* world name of the file holding the probed load *)
  c_importer_url : string;   (* the url rsass knows that file by *)
  c_kind : kind;
  c_url : string;
  c_unq : bool;              (* @import url(..) *)
  c_impl : impl }.

Definition corr (c : case) : Z :=
  corr_res (run_world (c_world c) (c_mode c) (c_root c) (c_rootid c)) (c_impl c).

(* ---- the property on the implementation's answer ---- *)

Definition case_isfile (c : case) : string -> option string :=
  match c_mode c with
  | MMem _ => fun p => if mem p (names (c_world c)) then Some p else None
  | _ => fs_isfile (names (c_world c))
  end.

Definition dir_prefix (b : string) : string := if String.eqb b "" then "" else b ++ "/".

(* places in documented order: the importing file's directory, then the load paths
   (the loader's base directory counts as the first load path) *)
Definition case_places (c : case) : list string :=
  fst (split_dir (c_importer c)) ::
  match c_mode c with
  | MFs bases => map dir_prefix bases
  | _ => [""]
  end.

Definition spec_has_ext (u : string) : bool := ends_with u ".scss" || ends_with u ".css".

(* `a`, `./a` and `d/../a` are spellings of one url: `.`, `..` and empty segments are resolved lexically *)
Definition case_url (c : case) : string := normalize (c_url c).

Definition case_cand_names (c : case) : list (scand * string) :=
  if spec_has_ext (case_url c) then [((ShPlain, XScss), case_url c)]
  else let (b, n) := split_dir (case_url c) in cand_names (is_import (c_kind c)) b n.

Definition case_allowed (c : case) : list string :=
  allowed_gen (case_isfile c) (case_places c) (case_cand_names c).

Definition outside_statement (c : case) : bool := ends_with (c_url c) ".sass".

(* clause 1: the resolved file is an allowed one; nothing allowed -> failure, or a plain
   css import for the four documented forms *)
Definition clause_resolve (c : case) : bool :=
  if outside_statement c then true else
  let i := c_impl c in
  match case_allowed c with
  | [] =>
      if is_import (c_kind c) && spec_plain_import (c_url c) (c_unq c)
      then Z.eqb (i_class i) 0 && strs_eqb (i_imports i) [c_url c] && ns_eqb (i_markers i) []
      else Z.eqb (i_class i) 3
  | al =>
      Z.eqb (i_class i) 0 &&
      match i_markers i with
      | [m] => mem (nth (N.to_nat m) (names (c_world c)) "?") al
      | _ => false
      end
  end.

(* ---- known-finding classes: decidable, INPUT only ---- *)

Definition importer_in_subdir (c : case) : bool :=
  negb (String.eqb (fst (split_dir (c_importer_url c))) "").

(* some candidate exists at one of the given places *)
Definition exists_at (c : case) (locs : list string) : bool :=
  match existing_gen (case_isfile c) locs (case_cand_names c) with [] => false | _ => true end.

(* K2: importer in a sub-directory <d>/ and a candidate exists as <load path>/<d>/..,
   in another directory than the importing file's *)
Definition known_K2 (c : case) : bool :=
  importer_in_subdir c &&
  let d := fst (split_dir (c_importer_url c)) in
  let own := fst (split_dir (c_importer c)) in
  existsb (fun l => negb (String.eqb (l ++ d) own) && exists_at c [l ++ d]) (tl (case_places c)).

Definition b2z (b : bool) : Z := if b then 1%Z else 0%Z.

(* [corr; clause ok; known class of the input (0 none, 2 = K2; K1 was fixed by 3dfdada); number of existing targets] *)
Definition run (c : case) : list Z :=
  [ corr c;
    b2z (clause_resolve c);
    (if known_K2 c then 2 else 0)%Z;
    Z.of_nat (List.length (existing_gen (case_isfile c) (case_places c) (case_cand_names c))) ].
