(* C34 runner.  One case = one documented pair + one argument tuple; the implementation evaluated
   six spellings (each in its own compilation, result = CSS text or first line of the error):
     g(args)           m.f(args)            g($n1: a1, ..)      m.f($n1: a1, ..)
     meta.call(meta.get-function("g"), args...)    meta.call(meta.get-function("f", $module: "m"), args...)  *)
From Coq Require Import String List ZArith NArith Bool.
From RV Require Import Base.Text Gen.Builtins Model.Builtins Spec.SassDocPairs.
Import ListNotations.
Local Open Scope string_scope.

Inductive res : Type :=
| ROk (css : list N)
| RErr (first_line : list N)
| RNone                      (* spelling not applicable (no names for a variadic function) *)
| RBad.                      (* panic / crash *)

Definition res_eqb (a b : res) : bool :=
  match a, b with
  | ROk x, ROk y => bytes_eqb x y
  | RErr x, RErr y => bytes_eqb x y
  | RNone, RNone => true
  | _, _ => false
  end.
(* agreement in the sense of the property: the same value, or an error under both spellings *)
Definition res_agree (a b : res) : bool :=
  match a, b with
  | ROk x, ROk y => bytes_eqb x y
  | RErr _, RErr _ => true
  | RNone, RNone => true
  | _, _ => false
  end.
Definition is_bad (r : res) : bool := match r with RBad => true | _ => false end.

Record case := mkCase {
  c_g : string; c_url : string; c_f : string;
  c_arg0 : string;            (* source text of the first argument ("" if none) *)
  r_gpos : res; r_mpos : res; r_gnamed : res; r_mnamed : res; r_gcall : res; r_mcall : res }.

Definition documented (c : case) : bool :=
  existsb (fun p => String.eqb (fst p) (c_g c) && String.eqb (fst (snd p)) (c_url c) && String.eqb (snd (snd p)) (c_f c)) doc_pairs.

(* model: a pair bound to ONE function object gives the same answer under both names, directly and
   through meta.call (Function::call on the same object); pairs with separate definitions are outside *)
Definition corr (c : case) : Z :=
  if negb (documented c) then 2%Z
  else if same_object (c_g c) (c_url c) (c_f c) then
    (if res_eqb (r_gpos c) (r_mpos c) && res_eqb (r_gnamed c) (r_mnamed c) && res_eqb (r_gcall c) (r_mcall c)
        && res_eqb (r_gpos c) (r_gcall c)
     then 1 else 0)%Z
  else 2%Z.

(* the property on the implementation's answers *)
Definition none_bad (c : case) : bool :=
  negb (is_bad (r_gpos c) || is_bad (r_mpos c) || is_bad (r_gnamed c) || is_bad (r_mnamed c) || is_bad (r_gcall c) || is_bad (r_mcall c)).
Definition clause_forms (c : case) : bool := none_bad c && res_agree (r_gpos c) (r_mpos c).
Definition named_ok (p n : res) : bool := match n with RNone => true | _ => res_agree p n end.
Definition clause_named (c : case) : bool :=
  none_bad c && named_ok (r_gpos c) (r_gnamed c) && named_ok (r_mpos c) (r_mnamed c).
Definition clause_call (c : case) : bool :=
  none_bad c && res_agree (r_gpos c) (r_gcall c) && res_agree (r_mpos c) (r_mcall c).

Definition b2z (b : bool) : Z := if b then 1%Z else 0%Z.
Definition any_ok (c : case) : bool :=
  match r_gpos c, r_mpos c with ROk _, _ | _, ROk _ => true | _, _ => false end.

(* [corr; forms; named; call; same object?; some spelling succeeded?] *)
Definition run (c : case) : list Z :=
  [corr c; b2z (clause_forms c); b2z (clause_named c); b2z (clause_call c);
   b2z (same_object (c_g c) (c_url c) (c_f c)); b2z (any_ok c)].
