(* C25 runner: selector.parse / print round trip with escaped, non-ASCII and digit-leading names. *)
From Coq Require Import List NArith ZArith Bool.
From RV Require Import Base.Text Model.Sel Model.SelFmt Model.SelAlg Model.SelParse.
Import ListNotations.
Local Open Scope list_scope.

(* c_src: the selector list with the SOURCE spelling of every name (text T).
   Function route, `$t: unquote("T")` (checked to print as T), each item in its own program:
     c_a1 = selector.parse($t) printed, c_as1 = is-superselector(selector.parse($t), $t), c_as2 = the reverse,
     c_a2 = selector.parse(selector.parse($t)) printed, c_a2st = status of that program (0 ok, 1 error, 2 panic).
   Rule route `T { p1: &; ... }` (c_rule = it was run; only for spellings that the SCSS-level and the CSS-level
   parser read alike):
     c_p1 = `&` printed, c_p2 = selector.parse(&) printed, c_s1 / c_s2 = is-superselector(&, selector.parse(&)) and
     reverse, c_emit = the selector text emitted for the rule.
   flags: 0 false, 1 true, 2 error / not run *)
Record case := mkCase { c_src : sels; c_p1 : option text; c_p2 : option text; c_s1 : N; c_s2 : N; c_emit : option text;
                        c_a1 : option text; c_as1 : N; c_as2 : N;
                        c_a2 : option text; c_a2st : N; c_rule : bool }.

Definition model_text (c : case) : option text :=
  match norm_sels (c_src c) with
  | Some s => Some (fmt_sels false s)
  | None => None
  end.

Definition otext_eqb (a b : option text) : bool := opt_eqb text_eqb a b.

(* the model answers for selector.parse (function route); the rule route must agree where it is run *)
Definition corr (c : case) : Z :=
  if otext_eqb (model_text c) (c_a1 c) && (negb (c_rule c) || otext_eqb (model_text c) (c_p1 c)) then 1%Z else 0%Z.

(* a class whose parsed name starts with an ASCII digit is printed with that digit escaped, and the
   escaped spelling parses to a different name *)
Definition digit_class_name (n : text) : bool :=
  match norm_name n with Some (d :: _) => is_ascii_digit d | _ => false end.
Fixpoint dc_sel (s : sel) : bool :=
  match s with
  | Sel rel c => dc_comp c || match rel with Some (_, r) => dc_sel r | None => false end
  end
with dc_comp (c : compound) : bool :=
  match c with Comp b ps => existsb digit_class_name (b_classes b) || existsb dc_pseudo ps end
with dc_pseudo (p : pseudo) : bool :=
  match p with
  | Pseudo _ _ (ArgSel l) => existsb dc_sel l
  | Pseudo _ _ _ => false
  end.

(* an explicit combinator (`>`, `~`, `+`) somewhere in the list *)
Fixpoint comb_sel (s : sel) : bool :=
  match s with
  | Sel (Some (k, r)) _ => negb (relkind_eqb k Ancestor) || comb_sel r
  | Sel None _ => false
  end.

Definition is_some_text (o : option text) : bool := match o with Some _ => true | None => false end.

(* clause 1: the printed form is a fixpoint of parse-then-print *)
Definition clause_text_fixpoint (c : case) : bool :=
  (negb (is_some_text (c_p1 c)) || otext_eqb (c_p1 c) (c_p2 c))
  && (negb (is_some_text (c_a1 c)) || (N.eqb (c_a2st c) 0 && otext_eqb (c_a1 c) (c_a2 c))).
(* clause 2: parsing the printed form gives the same selector list (observed through is-superselector both ways) *)
Definition clause_same_list (c : case) : bool :=
  (negb (is_some_text (c_p1 c)) || (N.eqb (c_s1 c) 1 && N.eqb (c_s2 c) 1))
  && (negb (is_some_text (c_a1 c)) || (N.eqb (c_as1 c) 1 && N.eqb (c_as2 c) 1)).
(* clause 3: the emitted selector is the printed form of selector.parse *)
Definition clause_emitted (c : case) : bool :=
  (negb (is_some_text (c_p1 c)) || otext_eqb (c_p1 c) (c_emit c))
  && (negb (is_some_text (c_a1 c)) || negb (c_rule c) || otext_eqb (c_a1 c) (c_emit c)).

Definition b2z (b : bool) : Z := if b then 1%Z else 0%Z.
Definition run (c : case) : list Z :=
  [corr c; b2z (clause_text_fixpoint c); b2z (clause_same_list c); b2z (clause_emitted c);
   b2z (existsb dc_sel (c_src c)); b2z (is_some_text (c_a1 c)); b2z (existsb comb_sel (c_src c))].
