(* C28 runner: one call of a sass:list function on generated values; the
   model's answer, the reference answer, and rsass's inspect() text. *)
From Coq Require Import String List NArith ZArith Bool.
From RV Require Import Base.Text Base.ListX Model.CssStr Model.ValueLite Model.ListFns Spec.SassLists.
Import ListNotations.
Local Open Scope list_scope.

Inductive lcall : Type :=
| CLength (l : value)
| CSeparator (l : value)
| CIsBracketed (l : value)
| CNth (l : value) (n : Z)
| CSetNth (l : value) (n : Z) (x : value)
| CAppend (l x : value) (sepv : value)
| CJoin (l1 l2 : value) (sepv brav : value)
| CIndex (l x : value)
| CZip (ls : list value)
| CEq (a b : value).                        (* a == b *)

Record case := mkCase { c_call : lcall; c_impl : option (list N) }.   (* None: the call failed *)

Definition model_call (c : lcall) : res :=
  match c with
  | CLength l => f_length l
  | CSeparator l => f_separator l
  | CIsBracketed l => f_is_bracketed l
  | CNth l n => match i64_of_literal n with Some k => f_nth l k | None => RErr end
  | CSetNth l n x => match i64_of_literal n with Some k => f_set_nth l k x | None => RErr end
  | CAppend l x s => f_append l x s
  | CJoin a b s k => f_join a b s k
  | CIndex l x => f_index l x
  | CZip ls => f_zip ls
  | CEq a b => ROk (VBool (veq a b))
  end.

Definition spec_call (c : lcall) : option value :=
  match c with
  | CLength l => Some (sp_length l)
  | CSeparator l => Some (sp_separator l)
  | CIsBracketed l => Some (sp_is_bracketed l)
  | CNth l n => sp_nth l n
  | CSetNth l n x => sp_set_nth l n x
  | CAppend l x s => sp_append l x s
  | CJoin a b s k => sp_join a b s k
  | CIndex l x => Some (sp_index l x)
  | CZip ls => Some (sp_zip ls)
  | CEq a b => Some (VBool (sp_equal a b))
  end.

Definition text_of_res (r : res) : option (list N) :=
  match r with ROk v => Some (inspect v) | RErr => None end.

Definition otext_eqb (a b : option (list N)) : bool :=
  match a, b with
  | Some x, Some y => bytes_eqb x y
  | None, None => true
  | _, _ => false
  end.

Definition corr (c : case) : Z :=
  if otext_eqb (text_of_res (model_call (c_call c))) (c_impl c) then 1%Z else 0%Z.

(* the property: rsass printed what the reference semantics gives (or failed where it is undefined) *)
Definition clause (c : case) : bool :=
  otext_eqb (option_map inspect (spec_call (c_call c))) (c_impl c).

Definition b2z (b : bool) : Z := if b then 1%Z else 0%Z.
Definition run (c : case) : list Z :=
  [ corr c; b2z (clause c); 0%Z ].
