(* C38 runner: the entry points called on the same input; the model (Gen/Entry.v call trees, proved equal to the
   documented compositions in Props/C38.v) predicts that an entry point and its composition spelled out by the
   harness answer identically; the property clauses compare the entry points with each other. *)
From Coq Require Import String List ZArith NArith Bool.
From RV Require Import Base.Text.
Import ListNotations.
Local Open Scope N_scope.

Inductive res : Type :=
| ROk (b : list N)
| RErr (msg : list N)        (* the whole error text *)
| RBad.

Definition res_eqb (a b : res) : bool :=
  match a, b with
  | ROk x, ROk y => bytes_eqb x y
  | RErr x, RErr y => bytes_eqb x y
  | _, _ => false
  end.
Fixpoint first_line (l : list N) : list N :=
  match l with [] => [] | c :: r => if c =? 10 then [] else c :: first_line r end.
(* same bytes, or errors with the same first line (the rest of an error text names the source file) *)
Definition res_agree (a b : res) : bool :=
  match a, b with
  | ROk x, ROk y => bytes_eqb x y
  | RErr x, RErr y => bytes_eqb (first_line x) (first_line y)
  | _, _ => false
  end.

Inductive obs : Type :=
| OScss (entry spelled : res)                     (* compile_scss | FsContext::for_cwd().with_format(f).transform(scss_bytes(b, root("-"))) *)
| OPath (entry spelled contents : res)            (* compile_scss_path(p) | for_path/with_format/transform | compile_scss(read p) *)
| OValue (compressed : bool) (entry spelled decl : res).   (* compile_value(v) | its tree | compile_scss("x{y:v}") *)

Fixpoint strip_prefix (p l : list N) : option (list N) :=
  match p, l with
  | [], _ => Some l
  | a :: p', b :: l' => if a =? b then strip_prefix p' l' else None
  | _ :: _, [] => None
  end.
Definition strip_suffix (s l : list N) : option (list N) :=
  match strip_prefix (rev s) (rev l) with Some r => Some (rev r) | None => None end.

(* the text after `y:` in the css of `x{y:V}` *)
Definition decl_value (compressed : bool) (css : list N) : option (list N) :=
  let pre := if compressed then bytes_of_string "x{y:" else bytes_of_string ("x {" ++ String (Ascii.ascii_of_nat 10) "  y: ") in
  let suf := if compressed then bytes_of_string ("}" ++ String (Ascii.ascii_of_nat 10) "")
             else bytes_of_string (";" ++ String (Ascii.ascii_of_nat 10) ("}" ++ String (Ascii.ascii_of_nat 10) "")) in
  match strip_prefix pre css with
  | Some r => strip_suffix suf r
  | None => None
  end.
Definition has_newline (l : list N) : bool := existsb (fun c => c =? 10) l.

(* 1/0: entry point == its extracted composition spelled out *)
Definition corr (o : obs) : Z :=
  match o with
  | OScss e s | OPath e s _ | OValue _ e s _ => if res_eqb e s then 1%Z else 0%Z
  end.

Definition clause_scss (o : obs) : bool :=
  match o with OScss e s => res_eqb e s | _ => true end.
Definition clause_path (o : obs) : bool :=
  match o with OPath e _ c => res_agree e c | _ => true end.
(* (ok?, inside the statement?) *)
Definition value_verdict (o : obs) : bool * bool :=
  match o with
  | OValue cmp (ROk t) _ (ROk css) =>
      if has_newline t then (true, false) else
      match decl_value cmp css with
      | Some v => (bytes_eqb v t, true)
      | None => (true, false)               (* the declaration was not printed (null / empty): not a CSS value *)
      end
  | OValue _ (ROk _) _ (RErr _) => (true, false)      (* not valid CSS *)
  | OValue cmp (RErr _) _ (ROk css) =>
      match decl_value cmp css with Some _ => (false, true) | None => (true, false) end
  | OValue _ (RErr _) _ (RErr _) => (true, false)
  | OValue _ _ _ _ => (false, true)
  | _ => (true, false)
  end.

Definition b2z (b : bool) : Z := if b then 1%Z else 0%Z.
Definition is_ok (r : res) : bool := match r with ROk _ => true | _ => false end.
Definition nontrivial (o : obs) : bool :=
  match o with
  | OScss e _ => true
  | OPath e _ _ => true
  | OValue _ _ _ _ => snd (value_verdict o)
  end.
(* [corr; scss; path; value; nontrivial; entry ok?] *)
Definition run (o : obs) : list Z :=
  [corr o; b2z (clause_scss o); b2z (clause_path o); b2z (fst (value_verdict o)); b2z (nontrivial o);
   b2z (match o with OScss e _ | OPath e _ _ | OValue _ e _ _ => is_ok e end)].
