(* C39 runner: a compilation under an injected loader fault, between a baseline and a later
   clean compilation of the same files; model vs implementation and the property predicate
   evaluated on the IMPLEMENTATION's answers. *)
From Coq Require Import String List Bool Arith Ascii NArith ZArith.
From RV Require Import Gen.Candidates Model.Load Model.LoadRun.
Import ListNotations.
Local Open Scope string_scope.

Record case : Type := mkCase {
  c_world : world;
  c_fault : fault;
  c_root : string;
  c_base : impl;        (* clean compilation before *)
  c_faulty : impl;      (* compilation with the fault *)
  c_after : impl }.     (* clean compilation afterwards, same process *)

Definition model_base (c : case) : res := run_world (c_world c) (MMem NoFault) (c_root c) (c_root c).
Definition model_faulty (c : case) : res := run_world (c_world c) (MMem (c_fault c)) (c_root c) (c_root c).

Definition corr (c : case) : Z :=
  if Z.eqb (corr_res (model_base c) (c_base c)) 1 && Z.eqb (corr_res (model_faulty c) (c_faulty c)) 1 then 1%Z else 0%Z.

Definition impl_eqb (a b : impl) : bool :=
  Z.eqb (i_class a) (i_class b) && ns_eqb (i_markers a) (i_markers b) && strs_eqb (i_imports a) (i_imports b)
  && match i_log a, i_log b with
     | Some (n, h), Some (m, g) => N.eqb n m && N.eqb h g
     | None, None => true
     | _, _ => false
     end.

Definition base_calls (c : case) : N := match i_log (c_base c) with Some (n, _) => n | None => 0%N end.

(* the k-th successful lookup of the baseline exists iff fewer than k files were found before the end:
   the number of files found by the baseline = number of distinct executions is not in the log, so the
   python side passes the count of found files as part of the fault description being `reached` *)
Definition fault_reached (c : case) (found_in_base : N) : bool :=
  match c_fault c with
  | NoFault => false
  | FailFind k => N.ltb (N.of_nat k) (base_calls c)
  | FailRead k => N.ltb (N.of_nat k) found_in_base
  | FailMany fs rs => existsb (fun k => N.ltb (N.of_nat k) (base_calls c)) fs
                      || existsb (fun k => N.ltb (N.of_nat k) found_in_base) rs
  end.

(* clause 1: a fault that is reached makes the compilation return an error (an input error, not css,
   not a panic, not a crash) *)
Definition clause_reported (c : case) (found_in_base : N) : bool :=
  if fault_reached c found_in_base
  then let k := i_class (c_faulty c) in Z.eqb k 4 || Z.eqb k 5 || Z.eqb k 6
  else impl_eqb (c_faulty c) (c_base c).

(* clause 2: no partial css comes with the error *)
Definition clause_no_partial (c : case) : bool :=
  if Z.eqb (i_class (c_faulty c)) 0 then true
  else match i_markers (c_faulty c), i_imports (c_faulty c) with [], [] => true | _, _ => false end.

(* clause 3: a later compilation with a working loader gives the normal output *)
Definition clause_recovers (c : case) : bool := impl_eqb (c_after c) (c_base c).

Definition b2z (b : bool) : Z := if b then 1%Z else 0%Z.

Definition run (cf : case * N) : list Z :=
  let (c, found) := cf in
  [ corr c; b2z (clause_reported c found); b2z (clause_no_partial c); b2z (clause_recovers c);
    b2z (fault_reached c found) ].
