(* C33 runner: model text vs implementation text in both styles, and the property:
   the implementation's text, read by the reference reader of Spec/CssColorRead.v,
   denotes the implementation's own rgba value. *)
From Coq Require Import String List NArith ZArith QArith Qabs Bool.
From RV Require Import Base.F64 Base.Text Model.Color Model.ColorFmt Spec.CssColorRead Run.C31.
Import ListNotations.
Local Open Scope Z_scope.

Record case := mkCase {
  c_kind : ckind;
  c_in : list Z;
  c_rgba : list Z;                       (* to_rgba of the implementation's value (bits) *)
  c_exp : option (list N);               (* its text, expanded style *)
  c_comp : option (list N) }.            (* compressed style *)

Definition as31 (c : case) : Run.C31.case := Run.C31.mkCase (c_kind c) (c_in c) None [].

Definition corr_text (m : option (list N)) (i : option (list N)) : Z :=
  match m, i with
  | None, _ => 2
  | Some s, Some s' => if bytes_eqb s s' then 1 else 0
  | Some _, None => 0
  end.

Definition q_of_bits (z : Z) : option Q :=
  match f_to_Q (of_bits z) with
  | Some (m, e) => Some (if (0 <=? e) then inject_Z (m * 2 ^ e) else (m # Z.to_pos (2 ^ (- e))))
  | None => None
  end.

Definition tol_chan : Q := 1 # 1000000.       (* on the 0..255 scale *)
Definition tol_alpha : Q := 1 # 1000000000.

Definition denotes (text : option (list N)) (rgba : list Z) : bool :=
  match text, rgba with
  | Some t, [r; g; b; a] =>
      match decode_color t, q_of_bits r, q_of_bits g, q_of_bits b, q_of_bits a with
      | Some d, Some qr, Some qg, Some qb, Some qa =>
          Qle_bool (Qabs (s_r d - qr)) tol_chan && Qle_bool (Qabs (s_g d - qg)) tol_chan
          && Qle_bool (Qabs (s_b d - qb)) tol_chan && Qle_bool (Qabs (s_a d - qa)) tol_alpha
      | _, _, _, _, _ => false
      end
  | _, _ => false
  end.

Definition b2z (b : bool) : Z := if b then 1 else 0.

(* [corr expanded; corr compressed; expanded text denotes the colour; compressed text denotes it] *)
Definition run (c : case) : list Z :=
  let m := model_color (as31 c) in
  [ corr_text (match m with Some col => fmt_color false col | None => None end) (c_exp c);
    corr_text (match m with Some col => fmt_color true col | None => None end) (c_comp c);
    b2z (denotes (c_exp c) (c_rgba c));
    b2z (denotes (c_comp c) (c_rgba c)) ].
