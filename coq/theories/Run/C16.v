(* C16 runner: rsass model vs implementation (correspondence), reference
   interpreter vs implementation (the property), known class of the input. *)
From Coq Require Import List ZArith Bool.
From RV Require Import Spec.SassFlow Model.EvScope Spec.SassScope.
Import ListNotations.
Local Open Scope Z_scope.

Inductive implres : Type :=
| IReads (l : list (nat * option sval))    (* every `r<id>: value` of the output, stably sorted by id *)
| IErr | IPanic | IOther.

Record case := mkCase { c_prog : list stmt; c_impl : implres }.

Definition sval_eqb (a b : option sval) : bool :=
  match a, b with
  | None, None => true
  | Some SNull, Some SNull => true
  | Some (SV x), Some (SV y) => x =? y
  | _, _ => false
  end.
Fixpoint out_eqb (a b : output) : bool :=
  match a, b with
  | [], [] => true
  | (i, v) :: a', (j, w) :: b' => Nat.eqb i j && sval_eqb v w && out_eqb a' b'
  | _, _ => false
  end.

(* CSS output order differs from execution order only between different reads (bubbling of
   @media); per read id the order is the execution order *)
Definition max_id (o : output) : nat := fold_left (fun m p => Nat.max m (fst p)) o 0%nat.
Definition by_id (o : output) : output :=
  flat_map (fun id => filter (fun p => Nat.eqb (fst p) id) o) (seq 0 (S (max_id o))).

Definition corr (c : case) : Z :=
  match c_impl c with
  | IReads l => if out_eqb (by_id (run_prog (c_prog c))) l then 1 else 0
  | _ => 0                     (* the generated programs never fail *)
  end.

Definition clause (c : case) : bool :=
  match c_impl c with
  | IReads l => out_eqb (by_id (fst (spec_run (c_prog c)))) l
  | _ => false
  end.

(* known class of the INPUT (decided by the reference run alone) *)
Definition known_class (p : list stmt) : Z :=
  let ev := snd (spec_run p) in
  if ev_inner_update ev then 1 else if ev_soft_decl ev then 2 else if ev_each_alias ev then 3 else 0.

Definition b2z (b : bool) : Z := if b then 1 else 0.

(* [corr; clause ok; known class; model = spec (for statistics)] - same values as
   [corr c; b2z (clause c); known_class (c_prog c); ...], computed with shared sub-results *)
Definition run (c : case) : list Z :=
  let sr := spec_run (c_prog c) in
  let so := by_id (fst sr) in
  let mo := by_id (run_prog (c_prog c)) in
  let ev := snd sr in
  match c_impl c with
  | IReads l =>
      [ b2z (out_eqb mo l); b2z (out_eqb so l);
        (if ev_inner_update ev then 1 else if ev_soft_decl ev then 2 else if ev_each_alias ev then 3 else 0);
        b2z (out_eqb mo so) ]
  | _ =>
      [ 0; 0;
        (if ev_inner_update ev then 1 else if ev_soft_decl ev then 2 else if ev_each_alias ev then 3 else 0);
        b2z (out_eqb mo so) ]
  end.
