(* C01 runner.  P = "the result is CSS or an error value" on the implementation's
   outcome; for the nesting family the indentation model predicts the outcome. *)
From Coq Require Import String List ZArith NArith Bool.
From RV Require Import Gen.PanicSites Model.Indent.
Import ListNotations.

(* outcome codes: 0 ok, 1 err, 2 panic, 3 crash/abort, 4 timeout *)
(* outcome 4 = no answer within the time limit (e.g. `@while true`): not a panic, outside the statement *)
Definition p_holds (outcome : Z) : bool := (outcome =? 0)%Z || (outcome =? 1)%Z || (outcome =? 4)%Z.

(* family 0: arbitrary source (no model prediction)
   family 1: `depth` nested unknown at-rules around one rule, given style:
             the deepest line is indented 2*depth (rule) then 2*depth+2 (declaration) *)
Record case := mkCase { c_family : Z; c_compressed : bool; c_depth : N; c_outcome : Z }.

Definition model_outcome (c : case) : option Z :=
  if (c_family c =? 1)%Z then
    match get_indent (c_compressed c) (indent_of_depth (c_depth c) + 2) with
    | IndentOk _ => Some 0%Z
    | IndentPanic => Some 2%Z
    end
  else None.

Definition run (c : case) : list Z :=
  [ match model_outcome c with
    | None => 2%Z
    | Some o => if (o =? c_outcome c)%Z then 1%Z else 0%Z
    end;
    if p_holds (c_outcome c) then 1%Z else 0%Z ].
