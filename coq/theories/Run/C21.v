(* C21 runner: evaluated content is never silently dropped. *)
From Coq Require Import List NArith ZArith Bool.
From RV Require Import Base.Text Spec.CssTok Model.Out Model.OutDest Spec.Reach.
Import ListNotations.
Local Open Scope N_scope.

Record case := mkCase { c_prog : program; c_exp : iout; c_comp : iout }.
Definition b2n (b : bool) : N := if b then 1 else 0.

(* the marker word of a comment: its first run of non-blank bytes other than `!` *)
Fixpoint first_word (t : bytes) (cur : bytes) : bytes :=
  match t with
  | [] => rev cur
  | c :: r => if is_blank c || (c =? 33)
              then match cur with [] => first_word r [] | _ => rev cur end
              else first_word r (c :: cur)
  end.

Definition present (compressed : bool) (o : bytes) (x : leafstmt) : bool :=
  match x with
  | LDecl _ n v => contains n o && contains v o
  | LComment t => (compressed && negb (is_bang t)) || contains (first_word t []) o
  | LAt _ (Some a) => contains a o
  | LAt n None => contains n o
  | LError _ => true
  end.

(* clause 1: on success every reached declaration / at-rule / loud comment is in the output *)
Definition clause_present (compressed : bool) (c : case) (i : iout) : bool :=
  match i with
  | IOk o => forallb (present compressed o) (fst (before_error (reach_program FUEL (c_prog c))))
  | _ => true
  end.
(* clause 2: a run that reaches @error fails *)
Definition clause_error (c : case) (i : iout) : bool :=
  if snd (before_error (reach_program FUEL (c_prog c)))
  then match i with IOk _ => false | _ => true end
  else true.

Definition run (c : case) : list N :=
  [ corr_of (compile FUEL Expanded (c_prog c)) (c_exp c);
    corr_of (compile FUEL Compressed (c_prog c)) (c_comp c);
    b2n (clause_present false c (c_exp c)); b2n (clause_present true c (c_comp c));
    b2n (clause_error c (c_exp c) && clause_error c (c_comp c));
    (* model side: number of errors swallowed by Drop impls in the expanded run *)
    match compile FUEL Expanded (c_prog c) with Ok (_, k) => N.of_nat k | _ => 0 end ].
