(* C32 runner: model vs implementation for every derived colour and every `==` answer, and
   the laws of the property evaluated on the IMPLEMENTATION's channel values and answers. *)
From Coq Require Import String List NArith ZArith QArith Qabs Bool.
From RV Require Import Base.F64 Base.FMod Model.Color Model.ColorFns Run.C31.
Import ListNotations.
Local Open Scope Z_scope.

Record case := mkCase {
  c_kind : ckind; c_in : list Z;      (* the colour, as in C31 *)
  c_amt : Z;                          (* amount for lighten/darken/saturate/desaturate: percent number (bits) *)
  c_aamt : Z;                         (* amount for opacify/transparentize: plain number (bits) *)
  c_weight : Z;                       (* mix weight: percent number (bits) *)
  c_reports : list (option report);   (* colour itself, lighten, darken, saturate, desaturate, opacify,
                                         transparentize, grayscale, complement, invert, mix(c, c, w) *)
  c_eqs : list Z }.                   (* ten `==` answers: 1 true, 0 false, 2 error/other *)

Definition base (c : case) : option color := model_color (Run.C31.mkCase (c_kind c) (c_in c) None []).

Definition derived (c : case) (col : color) : list color :=
  let a := fdiv (of_bits (c_amt c)) f100 in
  let b := of_bits (c_aamt c) in
  let w := fdiv (of_bits (c_weight c)) f100 in
  [ col; lighten col a; darken col a; saturate col a; desaturate col a; opacify col b; transparentize col b;
    grayscale col; complement col; invert col f_one; mix col col w ].

Definition model_eqs (c : case) (col : color) : list (option bool) :=
  let a := fdiv (of_bits (c_amt c)) f100 in
  let b := of_bits (c_aamt c) in
  let w := fdiv (of_bits (c_weight c)) f100 in
  [ color_eq (mix col col w) col;
    color_eq (invert (invert col f_one) f_one) col;
    color_eq (complement (complement col)) col;
    color_eq (adjust_hue col f360) col;
    color_eq (adjust_none col) col;
    color_eq (scale_none col) col;
    color_eq (change_none col) col;
    color_eq (darken (lighten col a) a) col;
    color_eq (desaturate (saturate col a) a) col;
    color_eq (transparentize (opacify col b) b) col ].

Definition report_ok (col : color) (p : option report) : bool :=
  match p with
  | Some p =>
      let k := match col with CRgba _ => 0 | CHsla _ => 1 | CHwba _ => 2 end in
      let own := match col with CRgba x => rgba_list x | CHsla x => hsla_list x | CHwba x => hwba_list x end in
      (k =? p_kind p) && same_all own (p_own p) && same_all (rgba_list (to_rgba col)) (p_rgba p)
      && same_all (hsla_list (to_hsla col)) (p_hsla p)
  | None => false
  end.
Fixpoint all2 {A B} (f : A -> B -> bool) (l : list A) (m : list B) : bool :=
  match l, m with
  | [], [] => true
  | x :: l', y :: m' => f x y && all2 f l' m'
  | _, _ => false
  end.
Definition eq_ok (m : option bool) (z : Z) : bool :=
  match m with Some true => z =? 1 | Some false => z =? 0 | None => z =? 2 end.

Definition corr (c : case) : Z :=
  match base c with
  | Some col => if all2 report_ok (derived c col) (c_reports c) && all2 eq_ok (model_eqs c col) (c_eqs c) then 1 else 0
  | None => 2
  end.

(* ---- the laws, on the implementation's numbers ---- *)
Definition qb (z : Z) : option Q :=
  match f_to_Q (of_bits z) with
  | Some (m, e) => Some (if (0 <=? e) then inject_Z (m * 2 ^ e) else (m # Z.to_pos (2 ^ (- e))))
  | None => None
  end.
Definition tol : Q := 1 # 1000000000.
Definition qclose (a b : Q) : bool := Qle_bool (Qabs (a - b)%Q) tol.
Definition qmin' (a b : Q) : Q := if Qle_bool a b then a else b.
Definition qmax' (a b : Q) : Q := if Qle_bool a b then b else a.

Definition hs (p : option report) (i : nat) : option Q :=
  match p with Some p => qb (nth i (p_hsla p) 0) | None => None end.
Definition rep (c : case) (i : nat) : option report := nth i (c_reports c) None.

(* expected channel i (1 sat, 2 lum, 3 alpha) of report k after moving the base value by d, clamped to [0,1] *)
Definition moved (c : case) (k i : nat) (d : option Q) : bool :=
  match hs (rep c 0) i, hs (rep c k) i, d with
  | Some x0, Some x1, Some d => qclose x1 (qmax' 0%Q (qmin' 1%Q (x0 + d)%Q))
  | _, _, _ => false
  end.
Definition same_chan (c : case) (k i : nat) : bool :=
  match hs (rep c 0) i, hs (rep c k) i with Some x0, Some x1 => qclose x1 x0 | _, _ => false end.

Definition amt_q (c : case) : option Q := option_map (fun q : Q => (q / 100)%Q) (qb (c_amt c)).
Definition aamt_q (c : case) : option Q := qb (c_aamt c).
Definition qneg (o : option Q) : option Q := option_map Qopp o.

Definition law_lighten (c : case) : bool := moved c 1 2 (amt_q c) && same_chan c 1 1 && same_chan c 1 3.
Definition law_darken (c : case) : bool := moved c 2 2 (qneg (amt_q c)) && same_chan c 2 1 && same_chan c 2 3.
Definition law_saturate (c : case) : bool := moved c 3 1 (amt_q c) && same_chan c 3 2 && same_chan c 3 3.
Definition law_desaturate (c : case) : bool := moved c 4 1 (qneg (amt_q c)) && same_chan c 4 2 && same_chan c 4 3.
Definition law_opacify (c : case) : bool := moved c 5 3 (aamt_q c).
Definition law_transparentize (c : case) : bool := moved c 6 3 (qneg (aamt_q c)).
Definition law_grayscale (c : case) : bool :=
  match hs (rep c 7) 1 with Some s => qclose s 0%Q | None => false end && same_chan c 7 2 && same_chan c 7 3.

(* does the move stay inside the range (then the pair must undo itself) *)
Definition unclamped (c : case) (i : nat) (d : option Q) : bool :=
  match hs (rep c 0) i, d with
  | Some x0, Some d => Qle_bool 0%Q x0 && Qle_bool x0 1%Q && Qle_bool (x0 + d)%Q 1%Q && Qle_bool 0%Q (x0 + d)%Q
  | _, _ => false
  end.

(* ---- classes ---- *)
Definition known_K5 (c : case) : bool := Run.C31.known_K5m (base c).
(* K8: hsl()/hwb() colours whose saturation or lightness is itself outside 0..100% (C31 K2/K3) *)
Definition known_K8 (c : case) : bool :=
  Run.C31.known_K2 (Run.C31.mkCase (c_kind c) (c_in c) None []) || Run.C31.known_K3 (Run.C31.mkCase (c_kind c) (c_in c) None [])
  || Run.C31.known_K1 (Run.C31.mkCase (c_kind c) (c_in c) None []).

Definition b2z (b : bool) : Z := if b then 1 else 0.

(* [corr; lighten; darken; saturate; desaturate; opacify; transparentize; grayscale;
    lum unclamped; sat unclamped; alpha unclamped; K5; K8; kept in hwb form] *)
Definition run (c : case) : list Z :=
  [ corr c; b2z (law_lighten c); b2z (law_darken c); b2z (law_saturate c); b2z (law_desaturate c);
    b2z (law_opacify c); b2z (law_transparentize c); b2z (law_grayscale c);
    b2z (unclamped c 2 (amt_q c)); b2z (unclamped c 1 (amt_q c)); b2z (unclamped c 3 (aamt_q c));
    b2z (known_K5 c); b2z (known_K8 c);
    b2z (match base c with Some (CHwba _) => true | _ => false end) ].
