(* C19 runner: nested rules `L1 { L2 { ... {x:y} } }`; model of the emitted selector,
   correspondence, and the clauses of the property evaluated on the implementation's output. *)
From Coq Require Import List NArith ZArith Bool.
From RV Require Import Base.Text Model.Sel Model.SelFmt Model.SelAlg Model.SelNest Spec.SelNesting Run.C22.
Import ListNotations.
Local Open Scope list_scope.

(* c_status: 0 ok, 1 error, 2 panic/crash; c_out: emitted selector text (None = nothing emitted) *)
Record case := mkCase { c_levels : list sels; c_status : N; c_out : option text }.

Inductive mres := MOut (t : option text) | MErr | MUnmodelled.

Definition model (levels : list sels) : mres :=
  match nest_levels [sel0] levels with
  | Ok s => MOut (model_out s)
  | Fail => MErr
  | Unmodelled => MUnmodelled
  end.

Definition corr (c : case) : Z :=
  match model (c_levels c) with
  | MUnmodelled => 2%Z
  | MErr => if N.eqb (c_status c) 1 then 1%Z else 0%Z
  | MOut t => if N.eqb (c_status c) 0 && otext_eqb t (c_out c) then 1%Z else 0%Z
  end.

(* the Sass reading of the nest (Spec/SelNesting.v): selectors, an error, or nothing said *)
Definition clause_spec (c : case) : bool :=
  match spec_levels (c_levels c) with
  | SNA => true
  | SErr => N.eqb (c_status c) 1
  | SOk s =>
      N.eqb (c_status c) 0
      && otext_eqb (match s with [] => None | _ => Some (fmt_sels false s) end) (c_out c)
  end.

Definition b2z (b : bool) : Z := if b then 1%Z else 0%Z.

Definition run (c : case) : list Z :=
  [corr c; b2z (clause_spec c); Z.of_N (spec_class (c_levels c));
   match spec_levels (c_levels c) with SNA => 0%Z | SErr => 1%Z | SOk _ => 2%Z end;
   b2z (existsb (existsb hb_sel) (c_levels c))].
