(* C14 runner: model of not/and/or (value, failure, effect trace) against the implementation,
   and the Sass truthiness reference (Spec/Truthiness.v) against the IMPLEMENTATION's answer. *)
From Coq Require Import List ZArith Bool NArith.
From RV Require Import Base.F64 Base.Text Model.Truth Spec.Truthiness.
Import ListNotations.
Local Open Scope N_scope.

Inductive implres : Type :=
| IOk (text : list N) (log : list N)
| IErr (id : N)                 (* 0 = undefined variable *)
| IOther.

Record case := mkCase { c_e : expr; c_impl : implres }.

Definition log_eqb := bytes_eqb.

Definition corr (c : case) : Z :=
  match eval (c_e c) [], c_impl c with
  | (Ok v, l), IOk t l' => if bytes_eqb (vtext v) t && log_eqb l l' then 1%Z else 0%Z
  | (Fail i, _), IErr j => if i =? j then 1%Z else 0%Z
  | _, _ => 0%Z
  end.

(* input expression -> reference expression *)
Definition to_sval (v : cval) : sval :=
  mkS (match vk v with KNull | KFalse => true | _ => false end) (vtext v).
Fixpoint to_spec (e : expr) : sexpr :=
  match e with
  | ELeaf v => SVal (to_sval v) None
  | EEff id v => SVal (to_sval v) (Some id)
  | EBoom id => SFail id (Some id)
  | EUndef => SFail 0 None
  | ENot a => SNot (to_spec a)
  | EAnd a b => SAnd (to_spec a) (to_spec b)
  | EOr a b => SOr (to_spec a) (to_spec b)
  end.

(* clause 1: the value (or the failure) is the one the reference gives *)
Definition clause_value (c : case) : bool :=
  match seval (to_spec (c_e c)) [], c_impl c with
  | (SOk v, _), IOk t _ => bytes_eqb (s_text v) t
  | (SBool b, _), IOk t _ => bytes_eqb (if b then txt_true else txt_false) t
  | (SErr i, _), IErr j => i =? j
  | _, _ => false
  end.
(* clause 2: exactly the effects the reference performs were performed, in order
   (not observable when the evaluation fails) *)
Definition clause_effects (c : case) : bool :=
  match seval (to_spec (c_e c)) [], c_impl c with
  | (SErr _, _), IErr _ => true
  | (_, l), IOk _ l' => log_eqb l l'
  | _, _ => false
  end.

(* known class K1 (F21): the expression applies `not` to something that is neither a boolean nor a number *)
Definition bad_kind (v : cval) : bool :=
  match vk v with KNull | KUnq | KOther => true | _ => false end.
Definition bad_operand (e : expr) : bool :=
  match e with ELeaf v | EEff _ v => bad_kind v | EAnd _ _ | EOr _ _ => true | _ => false end.
Fixpoint bad_not (e : expr) : bool :=
  match e with
  | ENot a => bad_operand a || bad_not a
  | EAnd a b | EOr a b => bad_not a || bad_not b
  | _ => false
  end.

Definition b2z (b : bool) : Z := if b then 1%Z else 0%Z.
(* [corr; value ok; class; effects ok; class] *)
Definition run (c : case) : list Z :=
  let k := if bad_not (c_e c) then 1%Z else 0%Z in
  [ corr c; b2z (clause_value c); k; b2z (clause_effects c); k ].
