(* C26 runner: one call of a sass:string function; model answer, reference
   answer and rsass's printed result (inspect text, UTF-8 bytes). *)
From Coq Require Import String List NArith ZArith Bool.
From RV Require Import Base.Text Base.ListX Model.CssStr Model.ListFns Model.StrFns Spec.SassStrings.
Import ListNotations.
Local Open Scope list_scope.

Inductive scall : Type :=
| SLength (s : list N)
| SIndex (s sub : list N)
| SInsert (s : list N) (q : quotes) (ins : list N) (i : Z)
| SSlice (s : list N) (q : quotes) (i j : Z)
| SUpper (s : list N) (q : quotes)
| SLower (s : list N) (q : quotes).

Record case := mkCase { c_call : scall; c_impl : option (list N) }.    (* None: the call failed *)

Definition show_str (v : list N) (q : quotes) : list N := utf8_encode (css_display (str_result v q)).
Definition show_oz (o : option Z) : list N :=
  match o with Some z => dec_of_Z z | None => [110; 117; 108; 108]%N end.

Definition model_call (c : scall) : option (list N) :=
  match c with
  | SLength s => Some (dec_of_Z (str_length s))
  | SIndex s sub => Some (show_oz (str_index s sub))
  | SInsert s q ins i =>
      match i64_of_literal i with
      | Some i' => Some (show_str (str_insert s ins i') q)
      | None => None
      end
  | SSlice s q i j =>
      match i64_of_literal i, i64_of_literal j with
      | Some i', Some j' => Some (show_str (str_slice s i' j') q)
      | _, _ => None
      end
  | SUpper s q => Some (show_str (str_upper s) q)
  | SLower s q => Some (show_str (str_lower s) q)
  end.

Definition spec_call (c : scall) : option (list N) :=
  match c with
  | SLength s => Some (dec_of_Z (sp_length s))
  | SIndex s sub => Some (show_oz (sp_index s sub))
  (* indices that are not i64 values are outside the statement: rejected *)
  | SInsert s q ins i =>
      match i64_of_literal i with
      | Some _ => Some (show_str (sp_insert s ins i) q)
      | None => None
      end
  | SSlice s q i j =>
      match i64_of_literal i, i64_of_literal j with
      | Some _, Some _ => Some (show_str (sp_slice s i j) q)
      | _, _ => None
      end
  | SUpper s q => Some (show_str (sp_upper s) q)
  | SLower s q => Some (show_str (sp_lower s) q)
  end.

Definition otext_eqb (a b : option (list N)) : bool :=
  match a, b with
  | Some x, Some y => bytes_eqb x y
  | None, None => true
  | _, _ => false
  end.

Definition corr (c : case) : Z := if otext_eqb (model_call (c_call c)) (c_impl c) then 1%Z else 0%Z.
Definition clause (c : case) : bool := otext_eqb (spec_call (c_call c)) (c_impl c).

(* quotedness: a quoted argument gives a quoted result, an unquoted one an unquoted result *)
Definition starts_quoted (t : list N) : bool :=
  match t with c :: _ => (c =? 34)%N || (c =? 39)%N | [] => false end.
Definition clause_quotes (c : case) : bool :=
  match c_call c, c_impl c with
  | SInsert _ q _ _, Some t | SSlice _ q _ _, Some t | SUpper _ q, Some t | SLower _ q, Some t =>
      match q with QNone => negb (starts_quoted t) | _ => starts_quoted t end
  | _, _ => true
  end.

Definition b2z (b : bool) : Z := if b then 1%Z else 0%Z.
Definition run (c : case) : list Z :=
  [ corr c; b2z (clause c); 0%Z; b2z (clause_quotes c); 0%Z ].
