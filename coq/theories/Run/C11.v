(* C11 runner: the model's answer, the correspondence with the implementation's
   answer, and the property predicate evaluated on the implementation's answer.
   Depends on Model and Spec only (never on proofs). *)
From Coq Require Import String List ZArith QArith Qabs Bool.
From RV Require Import Base.FExpr Base.F64 Gen.Units Model.Units Model.Numeric Spec.CssUnits.
Import ListNotations.
Local Open Scope string_scope.
Local Open Scope Q_scope.

(* what the implementation answered *)
Inductive implres : Type :=
| INum (bits : Z) (display : string) (units : list (string * Z))
| IBool (b : bool)
| IKept                       (* the expression was kept verbatim *)
| IErr
| IOther                      (* panic, crash or anything else *)
| IText (num den : Z) (display : string) (units : list (string * Z))
                              (* a number observed as printed decimal text num/den (math.div route) *)
| INone.                      (* no second observation *)

Record case := mkCase {
  c_op : nop; c_a : Z; c_ua : string; c_b : Z; c_ub : string; c_impl : implres; c_impl2 : implres }.

(* source text of a unit -> model unit, through the parser table of the code *)
Definition unit_of_text (t : string) : unit :=
  if String.eqb t "" then u_none else
  match assoc t parser_units with
  | Some v => UK v
  | None => UU t
  end.

Definition model_result (c : case) : nres :=
  eval_nop (c_op c)
    (mkNum (of_bits (c_a c)) (us_of_unit (unit_of_text (c_ua c))))
    (mkNum (of_bits (c_b c)) (us_of_unit (unit_of_text (c_ub c)))).

Definition canon_z (z : Z) : Z := canon_bits (of_bits z).

(* correspondence: 1 agree, 0 disagree, 2 outside the model *)
Definition q_of_bits (z : Z) : option Q :=
  match f_to_Q (of_bits z) with
  | Some (m, e) => Some (if (0 <=? e)%Z then inject_Z (m * 2 ^ e)%Z else (m # Z.to_pos (2 ^ (- e))%Z))
  | None => None
  end.

(* the implementation's number as an exact rational, with its units *)
Definition impl_q (i : implres) : option (Q * list (string * Z)) :=
  match i with
  | INum b _ us => match q_of_bits b with Some q => Some (q, us) | None => None end
  | IText n d _ us => if (0 <? d)%Z then Some (n # Z.to_pos d, us) else None
  | _ => None
  end.
Definition is_number (i : implres) : bool :=
  match i with INum _ _ _ | IText _ _ _ _ => true | _ => false end.

Definition tol_text : Q := 1 # 1000000000.
(* inspect() prints 10 decimals: absolute 1e-10 plus relative 1e-9 *)
Definition text_close (a b : Q) : bool :=
  Qle_bool (Qabs (a - b)) ((1 # 10000000000) + tol_text * Qabs a).

(* a printed number rq (10 decimals) whose canonical quantity is qr, against the expected canonical
   quantity: compare in the printed number's own unit, where the rounding error is 1e-10 absolute *)
Definition text_quantity_close (expect rq qr : Q) : bool :=
  if Qeq_bool rq 0 then Qle_bool (Qabs expect) (1 # 1000000)
  else text_close (expect * rq / qr) rq || text_close rq (expect * rq / qr).

Definition corr_with (c : case) (i : implres) : Z :=
  match model_result c, i with
  | RUnmodelled, _ => 2
  | RNum n, INum b d _ =>
      if (canon_bits (nval n) =? canon_z b)%Z && String.eqb (us_display (nunit n)) d then 1 else 0
  | RBool x, IBool y => if Bool.eqb x y then 1 else 0
  | RKept, IKept => 1
  | RNum n, IText num den d _ =>
      match q_of_bits (to_bits (nval n)) with
      | Some q => if (0 <? den)%Z && String.eqb (us_display (nunit n)) d
                     && text_close q (num # Z.to_pos den) then 1 else 0
      | None => 2
      end
  | _, INone => 1
  | _, _ => 0
  end%Z.
Definition corr (c : case) : Z :=
  let a := corr_with c (c_impl c) in
  let b := corr_with c (c_impl2 c) in
  if (a =? 0)%Z || (b =? 0)%Z then 0%Z else if (a =? 2)%Z then 2%Z else 1%Z.

(* ---- the property, on the implementation's answer ---- *)

Definition is_cmp (o : nop) : bool :=
  match o with OLt | OLe | OGt | OGe => true | _ => false end.
Definition unitless (u : string) : bool := String.eqb u "".
Definition compat (c : case) : bool :=
  unitless (c_ua c) || unitless (c_ub c) || same_group (c_ua c) (c_ub c).

(* unit of the unitless-adjusted operands *)
Definition eff_unit (c : case) : string := if unitless (c_ua c) then c_ub c else c_ua c.

Definition spec_cmp (o : nop) (x y : Q) : bool :=
  match o with
  | OLt => Qle_bool x y && negb (Qeq_bool x y)
  | OLe => Qle_bool x y
  | OGt => Qle_bool y x && negb (Qeq_bool x y)
  | OGe => Qle_bool y x
  | OEq => Qeq_bool x y
  | ONe => negb (Qeq_bool x y)
  | _ => false
  end.

(* no two distinct entries of a unit list lie in the same convertible group *)
Fixpoint cancelled (l : list (string * Z)) : bool :=
  match l with
  | [] => true
  | (u, _) :: r => negb (existsb (fun v => same_group u (fst v)) r) && cancelled r
  end.

(* clause ids: 1 = converted value correct / no conversion where none exists,
               2 = incompatible known units are an error,
               3 = convertible units cancelled in products and quotients *)
Definition clause1_on (c : case) (i : implres) : bool :=
  match q_of_bits (c_a c), q_of_bits (c_b c) with
  | Some a, Some b =>
    match c_op c with
    | OPlus | OMinus =>
        if compat c then
          let ua := if unitless (c_ua c) then eff_unit c else c_ua c in
          let ub := if unitless (c_ub c) then eff_unit c else c_ub c in
          let (qa, da) := quantity a [(ua, 1%Z)] in
          let (qb, _) := quantity b [(ub, 1%Z)] in
          let expect := match c_op c with OPlus => qa + qb | _ => qa - qb end in
          match impl_q i with
          | Some (rq, us) => let (qr, dr) := quantity rq us in
                             dv_eqb dr da && (q_close tol_rel qr expect
                               || Qle_bool (Qabs (qr - expect)) (tol_rel * (Qabs qa + Qabs qb)))
          | None => false
          end
        else match i with INum _ _ _ | IText _ _ _ _ | IOther => false | _ => true end
    | OLt | OLe | OGt | OGe | OEq | ONe =>
        if compat c then
          let ua := if unitless (c_ua c) then eff_unit c else c_ua c in
          let ub := if unitless (c_ub c) then eff_unit c else c_ub c in
          let (qa, _) := quantity a [(ua, 1%Z)] in
          let (qb, _) := quantity b [(ub, 1%Z)] in
          let one_unitless := xorb (unitless (c_ua c)) (unitless (c_ub c)) in
          match i with
          | IBool r =>
              if q_close tol_rel qa qb && negb (Qeq_bool qa qb) then true   (* inside the tolerance zone either answer is fine *)
              else if one_unitless && negb (is_cmp (c_op c)) then true      (* `1px == 1`: reading left open by the statement *)
              else Bool.eqb r (spec_cmp (c_op c) qa qb)
          | _ => false
          end
        else
          match c_op c, i with
          | OEq, IBool r => negb r
          | ONe, IBool r => r
          | _, IBool r => negb r           (* no conversion can have made it true *)
          | _, IErr => true
          | _, _ => false
          end
    | OMul | ODiv =>
        let sgn := match c_op c with OMul => 1%Z | _ => (-1)%Z end in
        let (qa, da) := quantity a [(c_ua c, 1%Z)] in
        let (qb, db) := quantity 1 [(c_ub c, sgn)] in
        let expect := match c_op c with OMul => qa * (b * qb) | _ => qa * qb / b end in
        let dexp := fold_left (fun d gp => dv_add d (fst gp) (snd gp)) db da in
        match impl_q i with
        | Some (rq, us) =>
            let (qr, dr) := quantity rq us in
            dv_eqb dr dexp && (match i with IText _ _ _ _ => text_quantity_close expect rq qr | _ => q_close tol_rel qr expect end)
        | None => false
        end
    end
  | _, _ => true      (* non-finite magnitudes are outside the statement *)
  end.

Definition clause1 (c : case) : bool :=
  clause1_on c (c_impl c) && match c_impl2 c with INone => true | i => clause1_on c i end.

Definition clause2 (c : case) : bool :=
  match c_op c with
  | OPlus | OMinus | OLt | OLe | OGt | OGe =>
      if negb (compat c) && is_known_unit (c_ua c) && is_known_unit (c_ub c)
      then match c_impl c with IErr => true | _ => false end
      else true
  | _ => true
  end.

Definition clause3_on (c : case) (i : implres) : bool :=
  match c_op c, impl_q i with
  | OMul, Some (_, us) | ODiv, Some (_, us) => cancelled us
  | _, _ => true
  end.
Definition clause3 (c : case) : bool := clause3_on c (c_impl c) && clause3_on c (c_impl2 c).

(* ---- known-finding classes: decidable conditions on the INPUT only ---- *)
Definition lone_family (u : string) : N :=
  if existsb (String.eqb u) ["em"; "ex"; "ch"] then 1%N
  else if existsb (String.eqb u) ["vmin"; "vmax"] then 2%N
  else if existsb (String.eqb u) ["%"; "fr"] then 3%N
  else 0%N.
(* K1: incompatible known units are kept / compare false instead of failing *)
Definition known_K1 (c : case) : bool :=
  negb (compat c) && is_known_unit (c_ua c) && is_known_unit (c_ub c).
(* (former class K2 - em/ex/ch, vmin/vmax, %/fr converted with invented ratios - is fixed in /repo;
   the predicate is kept only to name those pairs in theorems) *)
Definition known_K2 (c : case) : bool :=
  negb (String.eqb (c_ua c) (c_ub c)) && negb (lone_family (c_ua c) =? 0)%N
  && (lone_family (c_ua c) =? lone_family (c_ub c))%N.
(* K3: `a <= b` / `a >= b` with one unitless operand and equal magnitudes is false *)
Definition known_K3 (c : case) : bool :=
  xorb (unitless (c_ua c)) (unitless (c_ub c)) && (canon_z (c_a c) =? canon_z (c_b c))%Z
  && match c_op c with OLe | OGe => true | _ => false end.

Definition b2z (b : bool) : Z := if b then 1%Z else 0%Z.

(* result: [corr; clause1 ok; known class covering clause1; clause2 ok; class; clause3 ok; class; compat] *)
Definition run (c : case) : list Z :=
  [ corr c;
    b2z (clause1 c); (if known_K3 c then 3 else 0)%Z;
    b2z (clause2 c); (if known_K1 c then 1 else 0)%Z;
    b2z (clause3 c); 0%Z;
    b2z (compat c) ].
