(* C13 runner: map programs (a literal, then a sequence of map operations, the
   map printed with inspect() after every step) on the model, on the reference
   semantics, and the comparison with what rsass printed.
   Depends on Model and Spec only. *)
From Coq Require Import String List NArith ZArith Bool.
From RV Require Import Base.Text Base.ListX Model.CssStr Model.ValueLite Model.OrderMap Model.ListFns Spec.MapSpec.
Import ListNotations.
Local Open Scope list_scope.

(* keys and values of generated programs are drawn from these pools (by index) *)
Definition key_pool : list value :=
  [
   (VNum (4607182418800017408)%Z ""%string [49]%N); 
   (VNum (4607182418800017408)%Z ""%string [49]%N); 
   (VNum (4607182418800017408)%Z ""%string [49]%N); 
   (VNum (4611686018427387904)%Z ""%string [50]%N); 
   (VNum (4602678819172646912)%Z ""%string [48;46;53]%N); 
   (VNum (4602678819172646912)%Z ""%string [48;46;53]%N); 
   (VNum (4607182418800017408)%Z "in"%string [49;105;110]%N); 
   (VNum (4636455816377925632)%Z "px"%string [57;54;112;120]%N); 
   (VNum (4607182418800017408)%Z "px"%string [49;112;120]%N); 
   (VNum (4612901990326777938)%Z "cm"%string [50;46;53;52;99;109]%N); 
   (VNum (4636737291354636288)%Z "%"%string [49;48;48;37]%N); 
   (VNum (0)%Z ""%string [48]%N); 
   (VNum (9223372036854775808)%Z ""%string [48]%N); 
   (VStr (mkStr [97]%N QNone)); 
   (VStr (mkStr [97]%N QDouble)); 
   (VStr (mkStr [97]%N QDouble)); 
   (VStr (mkStr [98]%N QNone)); 
   (VStr (mkStr [98]%N QDouble)); 
   (VStr (mkStr [49]%N QDouble)); 
   (VStr (mkStr [97;32;98]%N QDouble)); 
   (VStr (mkStr []%N QDouble)); 
   (VBool true); 
   (VBool false); 
   VNull; 
   (VList [(VNum (4607182418800017408)%Z ""%string [49]%N); (VNum (4611686018427387904)%Z ""%string [50]%N)] (Some SSpace) false); 
   (VList [(VNum (4607182418800017408)%Z ""%string [49]%N); (VNum (4611686018427387904)%Z ""%string [50]%N)] (Some SComma) false); 
   (VList [(VNum (4607182418800017408)%Z ""%string [49]%N); (VNum (4611686018427387904)%Z ""%string [50]%N)] (Some SSpace) true); 
   (VList [(VNum (4607182418800017408)%Z ""%string [49]%N); (VNum (4611686018427387904)%Z ""%string [50]%N)] (Some SSpace) false); 
   (VList [(VStr (mkStr [97]%N QNone)); (VStr (mkStr [98]%N QNone))] (Some SSpace) false); 
   (VList [(VStr (mkStr [97]%N QDouble)); (VStr (mkStr [98]%N QNone))] (Some SSpace) false); 
   (VList [] None false); 
   (VMap [((VStr (mkStr [97]%N QNone)), (VNum (4607182418800017408)%Z ""%string [49]%N))]); 
   (VMap [((VStr (mkStr [97]%N QDouble)), (VNum (4607182418800017408)%Z ""%string [49]%N))])].
Definition val_pool : list value :=
  [
   (VNum (4607182418800017408)%Z ""%string [49]%N); 
   (VNum (4611686018427387904)%Z ""%string [50]%N); 
   (VNum (4613937818241073152)%Z ""%string [51]%N); 
   (VStr (mkStr [120]%N QNone)); 
   (VStr (mkStr [121]%N QDouble)); 
   VNull; 
   (VList [(VNum (4607182418800017408)%Z ""%string [49]%N); (VNum (4611686018427387904)%Z ""%string [50]%N)] (Some SComma) false); 
   (VMap [((VStr (mkStr [97]%N QNone)), (VNum (4607182418800017408)%Z ""%string [49]%N))]); 
   (VMap [((VStr (mkStr [97]%N QNone)), (VMap [((VStr (mkStr [98]%N QNone)), (VNum (4607182418800017408)%Z ""%string [49]%N))]))]); 
   (VList [] None false); 
   (VBool true); 
   (VList [(VStr (mkStr [97]%N QNone))] None true)].

Definition kp (i : nat) : value := nth i key_pool VNull.
Definition vp (i : nat) : value := nth i val_pool VNull.
Definition lit (l : list (nat * nat)) : vmap := map (fun p => (kp (fst p), vp (snd p))) l.

Inductive mop : Type :=
| OGet (k : nat)
| OHas (k : nat)
| ORemove (ks : list nat)
| OSet (ks : list nat) (v : nat)           (* map.set($m, ks..., v); ks non-empty *)
| OMerge (m2 : list (nat * nat))           (* map.merge($m, <literal>) *)
| OKeys
| OValues
| OEq (m2 : list (nat * nat))              (* $m == <literal> *)
| OEqRev (m2 : list (nat * nat))           (* <literal> == $m *)
| OIndex (ls : list (list (nat * nat))).   (* list.index((<literal>, ...), $m) *)

Record case := mkCase {
  c_init : list (nat * nat);
  c_ops : list mop;
  c_impl : option (list (list N)) }.       (* None: the compilation failed *)

(* ---- the model (mirrors rsass) ---- *)
Definition state_map (st : value) : vmap := match as_map st with Some m => m | None => [] end.

Fixpoint eval_literals (ls : list (list (nat * nat))) : option (list value) :=
  match ls with
  | [] => Some []
  | l :: r =>
      match eval_literal (lit l), eval_literals r with
      | Some v, Some vs => Some (v :: vs)
      | _, _ => None
      end
  end.

(* one step: new state and the text printed *)
Definition step_model (st : value) (o : mop) : option (value * list N) :=
  let m := state_map st in
  match o with
  | OGet k => Some (st, inspect (v_get m (kp k)))
  | OHas k => Some (st, inspect (v_has_key m (kp k)))
  | ORemove ks => let st' := VMap (v_remove m (map kp ks)) in Some (st', inspect st')
  | OSet ks v =>
      match set_inner m (map kp ks) (vp v) with
      | Some m' => Some (VMap m', inspect (VMap m'))
      | None => None
      end
  | OMerge l =>
      match eval_literal (lit l) with
      | Some v2 => let st' := VMap (v_merge m (state_map v2)) in Some (st', inspect st')
      | None => None
      end
  | OKeys => Some (st, inspect (v_keys m))
  | OValues => Some (st, inspect (v_values m))
  | OEq l =>
      match eval_literal (lit l) with
      | Some v2 => Some (st, inspect (VBool (veq st v2)))
      | None => None
      end
  | OEqRev l =>
      match eval_literal (lit l) with
      | Some v2 => Some (st, inspect (VBool (veq v2 st)))
      | None => None
      end
  | OIndex ls =>
      match eval_literals ls with
      | Some vs => Some (st, inspect (v_of_pos (position vs st O)))
      | None => None
      end
  end.

Fixpoint steps_model (st : value) (ops : list mop) : option (value * list (list N)) :=
  match ops with
  | [] => Some (st, [])
  | o :: r =>
      match step_model st o with
      | Some (st', t) =>
          match steps_model st' r with
          | Some (fin, ts) => Some (fin, t :: ts)
          | None => None
          end
      | None => None
      end
  end.

Definition run_model (c : case) : option (value * list (list N)) :=
  match eval_literal (lit (c_init c)) with
  | Some st =>
      match steps_model st (c_ops c) with
      | Some (fin, ts) => Some (fin, inspect st :: ts)
      | None => None
      end
  | None => None
  end.

Definition texts_eqb (a b : list (list N)) : bool := list_eqb bytes_eqb a b.
Definition otexts_eqb (a b : option (list (list N))) : bool :=
  match a, b with
  | Some x, Some y => texts_eqb x y
  | None, None => true
  | _, _ => false
  end.

Definition corr (c : case) : Z :=
  if otexts_eqb (option_map snd (run_model c)) (c_impl c) then 1%Z else 0%Z.

(* ---- the reference semantics on the same programs ---- *)
Definition sget := sp_get (V:=value) veq.
Definition sset := sp_set (V:=value) veq.

(* map.set with a key path: the nested maps are updated in place *)
Fixpoint sp_set_path (m : vmap) (keys : list value) (x : value) : vmap :=
  match keys with
  | [] => m
  | [k] => sset m k x
  | k :: rest =>
      let inner := match sget m k with Some (VMap i) => i | _ => [] end in
      sset m k (VMap (sp_set_path inner rest x))
  end.

Definition spec_literal (l : vmap) : option vmap :=
  if sp_has_dup veq l then None else Some l.

(* printing a spec map: the empty map prints as () either way *)
Definition show_map (m : vmap) : list N := inspect (VMap m).

(* order-insensitive equality of map states *)
Definition spec_map_eq (a b : vmap) : bool := sp_eq veq veq a b.

Fixpoint spec_literals (ls : list (list (nat * nat))) : option (list vmap) :=
  match ls with
  | [] => Some []
  | l :: r =>
      match spec_literal (lit l), spec_literals r with
      | Some v, Some vs => Some (v :: vs)
      | _, _ => None
      end
  end.
(* list.index: 1-based position of the first element equal to the map *)
Fixpoint spec_first_eq (ms : list vmap) (m : vmap) (i : Z) : option Z :=
  match ms with
  | [] => None
  | x :: r => if spec_map_eq x m then Some i else spec_first_eq r m (i + 1)%Z
  end.

Definition step_spec (m : vmap) (o : mop) : option (vmap * list N) :=
  match o with
  | OGet k => Some (m, inspect (match sget m (kp k) with Some v => v | None => VNull end))
  | OHas k => Some (m, inspect (VBool (sp_has veq m (kp k))))
  | ORemove ks => let m' := fold_left (sp_remove veq) (map kp ks) m in Some (m', show_map m')
  | OSet ks v => let m' := sp_set_path m (map kp ks) (vp v) in Some (m', show_map m')
  | OMerge l =>
      match spec_literal (lit l) with
      | Some m2 => let m' := sp_merge veq m m2 in Some (m', show_map m')
      | None => None
      end
  | OKeys => Some (m, inspect (VList (map fst m) (Some SComma) false))
  | OValues => Some (m, inspect (VList (map snd m) (Some SComma) false))
  | OEq l =>
      match spec_literal (lit l) with
      | Some m2 => Some (m, inspect (VBool (spec_map_eq m m2)))
      | None => None
      end
  | OEqRev l =>
      match spec_literal (lit l) with
      | Some m2 => Some (m, inspect (VBool (spec_map_eq m2 m)))
      | None => None
      end
  | OIndex ls =>
      match spec_literals ls with
      | Some ms =>
          Some (m, inspect (match spec_first_eq ms m 1 with Some i => v_int i | None => VNull end))
      | None => None
      end
  end.

(* the spec trace, with the OEq answers separated out (clause "equality ignores order") *)
Definition is_eq_op (o : mop) : bool := match o with OEq _ | OEqRev _ | OIndex _ => true | _ => false end.

Fixpoint steps_spec (m : vmap) (ops : list mop) : option (list (bool * list N)) :=
  match ops with
  | [] => Some []
  | o :: r =>
      match step_spec m o with
      | Some (m', t) =>
          match steps_spec m' r with
          | Some ts => Some ((is_eq_op o, t) :: ts)
          | None => None
          end
      | None => None
      end
  end.

Definition run_spec (c : case) : option (list (bool * list N)) :=
  match spec_literal (lit (c_init c)) with
  | Some m =>
      match steps_spec m (c_ops c) with
      | Some ts => Some ((false, show_map m) :: ts)
      | None => None
      end
  | None => None
  end.

(* clause 1: every non-equality step prints what the reference semantics gives *)
Fixpoint agree_on (want_eq : bool) (sp : list (bool * list N)) (im : list (list N)) : bool :=
  match sp, im with
  | [], [] => true
  | (e, t) :: sp', u :: im' =>
      (if Bool.eqb e want_eq then bytes_eqb t u else true) && agree_on want_eq sp' im'
  | _, _ => false
  end.

Definition clause_ops (c : case) : bool :=
  match run_spec c, c_impl c with
  | Some sp, Some im => agree_on false sp im
  | None, None => true
  | _, _ => true                      (* error / no error is clause_dup's business *)
  end.
(* clause 2: $m == literal is decided regardless of key order *)
Definition clause_eq (c : case) : bool :=
  match run_spec c, c_impl c with
  | Some sp, Some im => agree_on true sp im
  | _, _ => true
  end.
(* clause 3: the compilation fails exactly when some literal has two == keys *)
Definition clause_dup (c : case) : bool :=
  match run_spec c, c_impl c with
  | Some _, Some _ | None, None => true
  | _, _ => false
  end.

Definition b2z (b : bool) : Z := if b then 1%Z else 0%Z.

(* [corr; ops ok; class; eq ok; class; dup ok; class] *)
Definition run (c : case) : list Z :=
  [ corr c;
    b2z (clause_ops c); 0%Z;
    b2z (clause_eq c); 0%Z;
    b2z (clause_dup c); 0%Z ].
