(* C02 runner: model vs implementation, and the property predicate (Spec/LoadRef)
   evaluated on the IMPLEMENTATION's answer. *)
From Coq Require Import String List Bool Arith Ascii NArith ZArith.
From RV Require Import Gen.Candidates Model.Load Model.LoadRun Spec.Resolve Spec.LoadRef.
Import ListNotations.
Local Open Scope string_scope.

Record case : Type := mkCase {
  c_world : world;
  c_mode : mode;
  c_root : string;
  c_rootid : string;
  c_impl : impl }.

Definition corr (c : case) : Z :=
  corr_res (run_world (c_world c) (c_mode c) (c_root c) (c_rootid c)) (c_impl c).

(* worlds of this property live in one base directory: canonical names relative to it *)
Definition strip_base (c : case) (n : string) : string :=
  match c_mode c with
  | MFs (b :: _) => let p := (b ++ "/")%string in
                    if String.prefix p n then substring (String.length p) (String.length n) n else n
  | _ => n
  end.

Definition ref_files (c : case) : list string := map (strip_base c) (names (c_world c)).
Definition ref_content (c : case) : string -> body :=
  assoc_body (map (fun nb => (strip_base c (fst nb), snd nb)) (c_world c)).

Definition reference (c : case) : rres :=
  ref_run (ref_files c) (ref_content c) (strip_base c (c_rootid c)).

Definition impl_is_loop (c : case) : bool := Z.eqb (i_class (c_impl c)) 1 || Z.eqb (i_class (c_impl c)) 2.

(* clause 1: the compilation terminates with css or an error *)
Definition clause_terminates (c : case) : bool :=
  negb (Z.eqb (i_class (c_impl c)) 9) && negb (Z.eqb (i_class (c_impl c)) 8).

(* clause 2: loading a file that is already being loaded is reported as a loop error *)
Definition clause_loop_reported (c : case) (r : rres) : bool :=
  match r with
  | RefLoop _ _ => impl_is_loop c
  | _ => true
  end.

(* clause 3: no loop error unless a file really is loaded while being loaded *)
Definition clause_no_false_loop (c : case) (r : rres) : bool :=
  match r with
  | RefLoop _ _ => true
  | RefFuel => false        (* never happens: the reference stack holds a file once *)
  | _ => negb (impl_is_loop c)
  end.

(* clause 4: without a loop the outcome is the reference's (css or `not found`) *)
Definition clause_outcome (c : case) (r : rres) : bool :=
  match r with
  | RefDone _ _ _ => Z.eqb (i_class (c_impl c)) 0 || Z.eqb (i_class (c_impl c)) 9
  | RefNotFound => Z.eqb (i_class (c_impl c)) 3 || Z.eqb (i_class (c_impl c)) 9
  | _ => true
  end.

(* (the known-finding classes K1 = spelled url on a cycle and K2 = load-css-only cycle were closed by
   the fixes d80c9be and 2454c18: no escape is left) *)

Definition b2z (b : bool) : Z := if b then 1%Z else 0%Z.

Definition ref_class (r : rres) : Z :=
  match r with RefDone _ _ _ => 0 | RefLoop _ _ => 1 | RefNotFound => 3 | RefFuel => 9 end%Z.

(* [corr; terminates; loop reported; no false loop; outcome; known class (always 0); reference class] *)
Definition run (c : case) : list Z :=
  let r := reference c in
  [ corr c;
    b2z (clause_terminates c); b2z (clause_loop_reported c r); b2z (clause_no_false_loop c r); b2z (clause_outcome c r);
    0%Z;
    ref_class r ].
