(* C02 runner: model vs implementation, and the property predicate (Spec/LoadRef)
   evaluated on the IMPLEMENTATION's answer. *)
From Coq Require Import String List Bool Arith Ascii NArith ZArith.
From RV Require Import Gen.Candidates Model.Load Model.LoadRun Spec.Resolve Spec.LoadRef.
Import ListNotations.
Local Open Scope string_scope.

Record case : Type := mkCase {
  c_world : world;
  c_mode : mode;
  c_root : string;
  c_rootid : string;
  c_impl : impl }.

Definition corr (c : case) : Z :=
  corr_res (run_world (c_world c) (c_mode c) (c_root c) (c_rootid c)) (c_impl c).

(* worlds of this property live in one base directory: canonical names relative to it *)
Definition strip_base (c : case) (n : string) : string :=
  match c_mode c with
  | MFs (b :: _) => let p := (b ++ "/")%string in
                    if String.prefix p n then substring (String.length p) (String.length n) n else n
  | _ => n
  end.

Definition ref_files (c : case) : list string := map (strip_base c) (names (c_world c)).
Definition ref_content (c : case) : string -> body :=
  assoc_body (map (fun nb => (strip_base c (fst nb), snd nb)) (c_world c)).

Definition reference (c : case) : rres :=
  ref_run (ref_files c) (ref_content c) (strip_base c (c_rootid c)).

Definition impl_is_loop (c : case) : bool := Z.eqb (i_class (c_impl c)) 1 || Z.eqb (i_class (c_impl c)) 2.

(* clause 1: the compilation terminates with css or an error *)
Definition clause_terminates (c : case) : bool :=
  negb (Z.eqb (i_class (c_impl c)) 9) && negb (Z.eqb (i_class (c_impl c)) 8).

(* clause 2: loading a file that is already being loaded is reported as a loop error *)
Definition clause_loop_reported (c : case) (r : rres) : bool :=
  match r with
  | RefLoop _ _ => impl_is_loop c
  | _ => true
  end.

(* clause 3: no loop error unless a file really is loaded while being loaded *)
Definition clause_no_false_loop (c : case) (r : rres) : bool :=
  match r with
  | RefLoop _ _ => true
  | RefFuel => false        (* never happens: the reference stack holds a file once *)
  | _ => negb (impl_is_loop c)
  end.

(* clause 4: without a loop the outcome is the reference's (css or `not found`) *)
Definition clause_outcome (c : case) (r : rres) : bool :=
  match r with
  | RefDone _ _ _ => Z.eqb (i_class (c_impl c)) 0 || Z.eqb (i_class (c_impl c)) 9
  | RefNotFound => Z.eqb (i_class (c_impl c)) 3 || Z.eqb (i_class (c_impl c)) 9
  | _ => true
  end.

(* ---- known-finding classes: INPUT only (the reference run is a function of the input) ---- *)

(* F5: the loop passes through a url spelled with `.`, `..` or an empty segment *)
Definition known_K1 (r : rres) : bool :=
  match r with
  | RefLoop fr (k, u) => spelled u || existsb (fun f => spelled (snd f)) (removelast fr)
  | _ => false
  end.

(* F6: every file of the loop was entered through meta.load-css, and so is the closing load *)
Definition known_K2 (r : rres) : bool :=
  match r with
  | RefLoop fr (k, u) =>
      match k with KLoadCss => forallb (fun f => match snd (fst f) with KLoadCss => true | _ => false end) fr | _ => false end
  | _ => false
  end.

Definition b2z (b : bool) : Z := if b then 1%Z else 0%Z.

Definition ref_class (r : rres) : Z :=
  match r with RefDone _ _ _ => 0 | RefLoop _ _ => 1 | RefNotFound => 3 | RefFuel => 9 end%Z.

(* [corr; terminates; loop reported; no false loop; outcome; known class (0/1/2); reference class] *)
Definition run (c : case) : list Z :=
  let r := reference c in
  [ corr c;
    b2z (clause_terminates c); b2z (clause_loop_reported c r); b2z (clause_no_false_loop c r); b2z (clause_outcome c r);
    (if known_K1 r then 1 else if known_K2 r then 2 else 0)%Z;
    ref_class r ].
