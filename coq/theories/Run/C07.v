(* C07 runner.  A case carries the input (a CSS item tree fed to rsass as plain
   CSS, or just a source text), and the implementation's output in both styles.
   Result: correspondence of the writer model with the implementation, and the
   four framing clauses evaluated on the IMPLEMENTATION's output. *)
From Coq Require Import List NArith ZArith Bool.
From RV Require Import Base.Text Spec.CssTok Model.Out.
Import ListNotations.
Local Open Scope N_scope.

Record case := mkCase {
  c_tree : option (list item * list item);    (* imports, body: fed as plain CSS *)
  c_src : bytes;                              (* the input text *)
  c_scss : bool;                              (* the text is SCSS (else plain CSS) *)
  c_exp : option bytes;                       (* implementation output, expanded; None = error *)
  c_comp : option bytes }.

Definition b2z (b : bool) : Z := if b then 1%Z else 0%Z.

Definition corr1 (s : style) (c : case) : Z :=
  match c_tree c with
  | None => 2%Z
  | Some (im, bo) =>
      match (match s with Expanded => c_exp c | Compressed => c_comp c end) with
      | Some o => b2z (bytes_eqb (into_buffer s (mkData im bo)) o)
      | None => 0%Z
      end
  end.

(* clauses on one output *)
Definition clauses (compressed : bool) (o : option bytes) : list Z :=
  match o with
  | None => [1; 1; 1; 1]%Z
  | Some x => [ b2z (final_newline_ok x); b2z (balanced x); b2z (marker_ok compressed x);
                b2z (if compressed then one_line_ok x else true) ]
  end.

(* ---- known-finding classes: conditions on the INPUT text only ---- *)
Fixpoint contains (p x : bytes) : bool :=
  match x with
  | [] => match p with [] => true | _ => false end
  | _ :: r => starts_with p x || contains p r
  end.

(* K1 (F10): text that reaches the output unquoted and is not under the control
   of the CSS grammar: unquote(), interpolation, or - in plain CSS input -
   anything (the CSS reader copies at-rule arguments and values). The class is
   attributed to the balance clause only. *)
Definition txt_unquote : bytes := [117;110;113;117;111;116;101;40].
Definition txt_interp : bytes := [35;123].
Definition known_K1 (c : case) : bool :=
  contains txt_unquote (c_src c) || contains txt_interp (c_src c).

(* K2: a loud comment with a line break inside, written in compressed style
   (comments survive compression only in plain CSS input) *)
(* `bang` = only comments whose text starts with `!` count (SCSS input: the others
   are dropped when compressed); `fresh` = the previous byte opened the comment *)
Fixpoint comment_with_nl (bang : bool) (st : state) (fresh : bool) (live : bool) (x : bytes) : bool :=
  match x with
  | [] => false
  | c :: r =>
      let st' := step st c in
      match fst st with
      | Com | ComStar =>
          let live' := if fresh then (negb bang || (c =? 33)) else live in
          if (c =? 10) && live' then true else comment_with_nl bang st' false live' r
      | NSlash => comment_with_nl bang st' (match fst st' with Com => true | _ => false end) false r
      | _ => comment_with_nl bang st' false false r
      end
  end.
Definition known_K2 (c : case) : bool :=
  comment_with_nl (c_scss c) (N0, []) false false (c_src c).

(* K3: the arguments of an at-rule that rsass copies to the output (every at-rule
   that is neither a Sass directive nor @media) span several lines in the source *)
Definition sass_directives : list bytes :=
  [ [105;110;99;108;117;100;101];
    [109;105;120;105;110];
    [102;117;110;99;116;105;111;110];
    [105;102];
    [101;108;115;101];
    [101;97;99;104];
    [102;111;114];
    [119;104;105;108;101];
    [114;101;116;117;114;110];
    [117;115;101];
    [102;111;114;119;97;114;100];
    [105;109;112;111;114;116];
    [101;120;116;101;110;100];
    [97;116;45;114;111;111;116];
    [100;101;98;117;103];
    [119;97;114;110];
    [101;114;114;111;114];
    [99;111;110;116;101;110;116];
    [109;101;100;105;97];
    [99;104;97;114;115;101;116] ].
Definition is_ident_byte (c : N) : bool :=
  is_ascii_lower c || is_ascii_upper c || is_ascii_digit c || (c =? 45) || (c =? 95) || (128 <=? c).
Record pst := mkP { p_st : state; p_pre : bool; p_naming : bool; p_name : bytes; p_nl : bool; p_hit : bool }.
Definition pstep (a : pst) (c : N) : pst :=
  let st' := step (p_st a) c in
  if negb (normal_class (fst (p_st a))) then mkP st' (p_pre a) (p_naming a) (p_name a) (p_nl a) (p_hit a)
  else if c =? 64 then mkP st' true true [] false (p_hit a)
  else
    let still := p_naming a && is_ident_byte c in
    if still then mkP st' (p_pre a) true (c :: p_name a) false (p_hit a)
    else
      let pre := if p_naming a then p_pre a && negb (existsb (bytes_eqb (rev (p_name a))) sass_directives)
                 else p_pre a in
      if negb pre then mkP st' false false [] false (p_hit a)
      else if (c =? 123) || (c =? 59) || (c =? 125) then mkP st' false false [] false (p_hit a)
      else if c =? 10 then mkP st' true false [] true (p_hit a)
      else if is_blank c then mkP st' true false [] (p_nl a) (p_hit a)
      else mkP st' true false [] (p_nl a) (p_hit a || p_nl a).
Definition known_K3 (c : case) : bool :=
  p_hit (fold_left pstep (c_src c) (mkP (N0, []) false false [] false false)).

(* K4: the source ends inside a comment (rsass accepts it and copies the open comment) *)
Definition known_K4 (c : case) : bool :=
  match fst (run (c_src c)) with Com | ComStar => true | _ => false end.

Definition run (c : case) : list Z :=
  [ corr1 Expanded c; corr1 Compressed c ]
  ++ clauses false (c_exp c) ++ clauses true (c_comp c)
  ++ [ b2z (known_K1 c); b2z (known_K2 c); b2z (known_K3 c); b2z (known_K4 c) ].
