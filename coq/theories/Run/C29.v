(* C29 runner: model of the sass:math functions against the implementation's printed result
   (through the bit-exact number formatter of Model/NumFmt.v at precision 10), and the rational
   reference (Spec/MathRef.v, Spec/CssUnits.v) against the IMPLEMENTATION's printed result. *)
From Coq Require Import String List ZArith QArith Qabs Qround Bool NArith.
From RV Require Import Base.F64 Base.Text Gen.Units Model.Units Model.Numeric Model.NumFmt Model.MathFns
  Spec.CssUnits Spec.DecRound Spec.MathRef.
Import ListNotations.
Local Open Scope Z_scope.

Definition unit_of_text (t : string) : unit :=
  if String.eqb t "" then u_none else
  match assoc t parser_units with
  | Some v => UK v
  | None => UU t
  end.
Definition num_of (a : Z * string) : numeric :=
  mkNum (of_bits (fst a)) (us_of_unit (unit_of_text (snd a))).

Inductive implres : Type :=
| INum (text : list N) (unit : string)
| IErr
| IKept
| IInf (neg : bool)          (* calc(infinity) / calc(-infinity) *)
| IOther.

(* fn: 1 abs 2 ceil 3 floor 4 round 5 percentage 6 div 7 max 8 min 9 clamp 10 sqrt
       11 exp/log/pow (guard only) 12 sin/cos/tan (guard only)
       13 pow on the family whose value is known without libm: base in {0, 1, -1, 2, -2}, whole exponent *)
Record case := mkCase { c_fn : Z; c_args : list (Z * string); c_impl : implres }.

Definition guard_res (ok : bool) : mres := if ok then MOut else MErr.

Definition model (c : case) : mres :=
  let args := map num_of (c_args c) in
  match c_fn c, args with
  | 1, [a] => m_abs a
  | 2, [a] => m_ceil a
  | 3, [a] => m_floor a
  | 4, [a] => m_round a
  | 5, [a] => m_percentage a
  | 6, [a; b] => m_div a b
  | 7, _ => m_max args
  | 8, _ => m_min args
  | 9, [mn; x; mx] => m_clamp mn x mx
  | 10, [a] => m_sqrt a
  | 11, _ | 13, _ => guard_res (forallb unitless_arg args)
  | 12, [a] => guard_res (angle_or_unitless a)
  | _, _ => MOut
  end.

Definition corr (c : case) : Z :=
  match model c, c_impl c with
  | MOut, IErr => match c_fn c with 11 | 12 | 13 => 0 | _ => 2 end   (* guard says fine but the call failed *)
  | MOut, _ => 2
  | MNum n, INum t u =>
      if f_is_finite (nval n) then
        if bytes_eqb t (fmt_number false 10 (nval n)) && String.eqb u (us_display (nunit n)) then 1 else 0
      else 2
  | MNum n, IOther => if f_is_finite (nval n)
                      then match nunit n with [] | [(_, 1)] => 0 | _ => 2 end   (* `x / 1unit`, `calc(..)` forms of compound units *)
                      else 2
  | MNum n, IErr => match nunit n with [] | [(_, 1)] => 0 | _ => 2 end   (* compound units cannot be printed as CSS *)
  | MNum n, IInf _ => if f_is_finite (nval n) then 0 else 2
  | MErr, IErr => 1
  | MKept, IKept | MKept, IErr => 1
  | _, _ => 0
  end.

(* ---- reference on the implementation's answer ---- *)
Definition q_of_bits (z : Z) : option Q :=
  match f_to_Q (of_bits z) with
  | Some (m, e) => Some (if 0 <=? e then inject_Z (m * 2 ^ e) else (m # Z.to_pos (2 ^ (- e))))
  | None => None
  end.
Fixpoint all_some {A} (l : list (option A)) : option (list A) :=
  match l with
  | [] => Some []
  | Some x :: r => match all_some r with Some r' => Some (x :: r') | None => None end
  | None :: _ => None
  end.
Definition canon (x : Q) (u : string) : Q := fst (quantity x [(u, 1)]).
Definition unitless (u : string) : bool := String.eqb u "".

Definition printed (t : list N) : option Q :=
  match parse_numeral t with Some n => Some (numeral_Q n) | None => None end.

(* all arguments mutually comparable in the CSS sense: unitless, or one shared group *)
Fixpoint args_compatible (us : list string) : bool :=
  match us with
  | [] => true
  | u :: r => forallb (fun v => unitless u || unitless v || same_group u v) r && args_compatible r
  end.
(* a unit to read unitless arguments in: the first unit among the arguments *)
Definition common_unit (us : list string) : string :=
  match filter (fun u => negb (unitless u)) us with u :: _ => u | [] => ""%string end.
Definition canon_in (cu : string) (x : Q) (u : string) : Q := canon x (if unitless u then cu else u).

(* comparisons after conversion to canonical units: the printing error (5e-11) is scaled by the ratio *)
Definition slack7 (x : Q) : Q := ((1 # 10000000) * (1 + Qabs x))%Q.
Definition close7 (x v : Q) : bool := Qle_bool (Qabs (v - x)) (slack7 x).

(* reference fold for min / max *)
Definition rel (ismax : bool) (f v : Q * string) : Z :=     (* 0 incompatible, 1 keep f, 2 take v, 3 tie *)
  let '(x, u) := f in let '(y, w) := v in
  if negb (unitless u) && negb (unitless w) && negb (same_group u w) then 0 else
  let cx := if unitless u || unitless w then x else canon x u in
  let cy := if unitless u || unitless w then y else canon y w in
  if Qle_bool (Qabs (cx - cy)) ((1 # 1000000000) * Qmaxb (Qabs cx) (Qabs cy)) then 3
  else if (if ismax then Qle_bool cy cx else Qle_bool cx cy) then 1 else 2.
Fixpoint fold_ref (ismax : bool) (founds rest : list (Q * string)) : list (Q * string) * bool :=
  match rest with
  | [] => (founds, false)
  | v :: r =>
      let err := existsb (fun f => rel ismax f v =? 0) founds in
      let keep := filter (fun f => let z := rel ismax f v in (z =? 1) || (z =? 3)) founds in
      let takev := existsb (fun f => let z := rel ismax f v in (z =? 2) || (z =? 3)) founds in
      let '(res, e2) := fold_ref ismax (keep ++ (if takev then [v] else []))%list r in
      (res, err || e2)
  end.

Definition value_ok (c : case) : bool :=
  match all_some (map (fun a => q_of_bits (fst a)) (c_args c)) with
  | None => true                               (* non-finite arguments: outside the reference *)
  | Some xs =>
    let us := map snd (c_args c) in
    let cu := common_unit us in
    match c_fn c, xs, us, c_impl c with
    | 1, [x], [u], INum t ru => match printed t with Some v => printed_close (ref_abs x) v && String.eqb ru u | None => false end
    | 2, [x], [u], INum t ru => match printed t with Some v => printed_close (ref_ceil x) v && String.eqb ru u | None => false end
    | 3, [x], [u], INum t ru => match printed t with Some v => printed_close (ref_floor x) v && String.eqb ru u | None => false end
    | 4, [x], [u], INum t ru => match printed t with Some v => printed_close (ref_round x) v && String.eqb ru u | None => false end
    | 5, [x], [u], r =>
        if unitless u then match r with
                           | INum t ru => match printed t with Some v => printed_close (ref_percentage x) v && String.eqb ru "%" | None => false end
                           | _ => false
                           end
        else match r with IErr => true | _ => false end
    | 6, [x; y], [u; w], r =>
        if Qeq_bool y 0 then true else
        let same := String.eqb u w || (negb (unitless u) && negb (unitless w) && same_group u w) in
        match r with
        | INum t ru =>
            match printed t with
            | Some v =>
                if same then close7 (canon x u / canon y w) v && unitless ru
                else if unitless w then printed_close (x / y) v && String.eqb ru u
                else true
            | None => false
            end
        | _ => negb (same || unitless w)       (* only a compound unit may fail to print *)
        end
    | 7, _, _, r | 8, _, _, r =>
        (* the Sass definition: walk the arguments keeping the running extreme under the reference comparison
           (two unit-carrying numbers: canonical quantities, incompatible groups are an error; a unitless number
           compares by its plain value); on a tie either argument may be kept *)
        match combine xs us with
        | [] => match r with IErr => true | _ => false end
        | f :: rest =>
            let '(res, err) := fold_ref (c_fn c =? 7) [f] rest in
            match r with
            | INum t ru =>
                match printed t with
                | Some v => existsb (fun xu => String.eqb (snd xu) ru && printed_close (fst xu) v) res
                | None => false
                end
            | IErr | IKept => err
            | _ => false
            end
        end
    | 9, [mn; x; mx], [umn; ux; umx], r =>
        let all_unitless := unitless umn && unitless ux && unitless umx in
        let none_unitless := negb (unitless umn) && negb (unitless ux) && negb (unitless umx) in
        if all_unitless || (none_unitless && same_group umn ux && same_group umn umx) then
          match r with
          | INum t ru =>
              match printed t with
              | Some v =>
                  close7 (ref_clamp (canon mn umn) (canon x ux) (canon mx umx)) (canon v ru)
                  && existsb (fun xu => String.eqb (snd xu) ru && printed_close (fst xu) v) (combine xs us)
              | None => false
              end
          | _ => false
          end
        else match r with IErr => true | _ => false end   (* different groups, or unitless mixed with units (also % and fr) *)
    | 10, [x], [u], r =>
        if unitless u then
          match r with
          | INum t ru => if Qle_bool 0 x then
                           match printed t with
                           | Some v => Qle_bool (Qabs (v * v - x)) ((1 # 1000000000) * (Qabs x + 1)) && unitless ru
                           | None => false
                           end
                         else true
          | IOther => negb (Qle_bool 0 x)             (* sqrt of a negative: NaN *)
          | _ => false
          end
        else match r with IErr => true | _ => false end
    | 13, [b; n], [ub; un], r =>
        if unitless ub && unitless un && Qeq_bool (inject_Z (Qfloor n)) n then
          let nz := Qfloor n in
          let want_num (v : Q) := match r with
                                  | INum t ru => match printed t with Some w => Qeq_bool w v && unitless ru | None => false end
                                  | _ => false
                                  end in
          if Qeq_bool b 1%Q then want_num 1%Q
          else if Qeq_bool b (-1)%Q then want_num (if Z.even nz then 1%Q else (-1)%Q)
          else if Qeq_bool b 0%Q then (if (0 <? nz)%Z then want_num 0%Q else true)
          else if Qeq_bool (Qabs b) 2%Q then
            if (1100 <=? nz)%Z then
              match r with IInf neg => Bool.eqb neg (negb (Qle_bool 0%Q b) && Z.odd nz) | _ => false end
            else if (nz <=? -1100)%Z then want_num 0%Q
            else true
          else true
        else true
    | 11, _, _, r =>
        if forallb unitless us then match r with IErr => false | _ => true end
        else match r with IErr => true | _ => false end
    | 12, _, [u], r =>
        if unitless u || same_group u "deg" then match r with IErr => false | _ => true end
        else match r with IErr => true | _ => false end
    | _, _, _, _ => false
    end
  end.

Definition b2z (b : bool) : Z := if b then 1 else 0.
(* [corr; value/units/guard clause] *)
Definition run (c : case) : list Z := [ corr c; b2z (value_ok c) ].
