(* C20 runner: nested at-rules bubble, @at-root escapes. *)
From Coq Require Import List NArith ZArith Bool.
From RV Require Import Base.Text Spec.CssTok Model.Out Model.OutDest Spec.Reach Spec.Bubble.
Import ListNotations.
Local Open Scope N_scope.

Record case := mkCase { c_prog : program; c_exp : iout; c_comp : iout }.
Definition b2n (b : bool) : N := if b then 1 else 0.

(* the implementation's expanded output is the reference stylesheet, up to white space *)
Definition clause_bubble (c : case) : N :=
  match reference (c_prog c), c_exp c with
  | Some d, IOk o => b2n (bytes_eqb (normalize o) (normalize (into_buffer Expanded d)))
  | None, _ => 2          (* outside the reference *)
  | Some _, _ => 0        (* the reference gives a stylesheet, rsass fails *)
  end.

Definition run (c : case) : list N :=
  [ corr_of (compile FUEL Expanded (c_prog c)) (c_exp c);
    corr_of (compile FUEL Compressed (c_prog c)) (c_comp c);
    clause_bubble c;
    b2n (known_reorder (c_prog c)) ].
