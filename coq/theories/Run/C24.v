(* C24 runner: selector.nest / append / unify / extend / replace against nesting and is-superselector. *)
From Coq Require Import List NArith ZArith Bool.
From RV Require Import Base.Text Model.Sel Model.SelFmt Model.SelAlg Model.SelNest Model.SelExt Run.C22.
Import ListNotations.
Local Open Scope list_scope.

(* kind 0 nest:    c_t1 = selector.nest(A, B),   c_t2 = selector emitted for `A { B {x:y} }`
   kind 1 append:  c_t1 = selector.append(A, B), c_t2 = selector emitted for `A { &B {x:y} }`
   kind 2 unify:   c_t1 = selector.unify(A, B) (None = null), c_f1 / c_f2 = is-superselector(A / B, result)
   kind 3 extend:  c_t1 = selector.extend(A, B, C)
   kind 4 replace: c_t1 = selector.replace(A, B, C)
   status: 0 ok, 1 error, 2 panic/crash;  flags: 0 false, 1 true, 2 not available *)
Record case := mkCase { c_kind : N; c_a : sels; c_b : sels; c_c : sels;
                        c_t1 : option text; c_st1 : N; c_t2 : option text; c_st2 : N; c_f1 : N; c_f2 : N }.

Definition otext_eqb (a b : option text) : bool := opt_eqb text_eqb a b.

(* split a printed selector list at its top-level `, ` *)
Fixpoint split_top (s : text) (depth : nat) (cur : text) : list text :=
  match s with
  | [] => [rev cur]
  | c :: r =>
      if (N.eqb c 40 || N.eqb c 91)%bool then split_top r (S depth) (c :: cur)
      else if (N.eqb c 41 || N.eqb c 93)%bool then split_top r (pred depth) (c :: cur)
      else if N.eqb c 44 && Nat.eqb depth 0 then
        rev cur :: split_top (match r with 32%N :: r' => r' | _ => r end) depth []
      else split_top r depth (c :: cur)
  end.

Fixpoint is_subseq (a b : list text) : bool :=
  match a, b with
  | [], _ => true
  | _ :: _, [] => false
  | x :: a', y :: b' => if text_eqb x y then is_subseq a' b' else is_subseq a b'
  end.

(* extend / replace only reach unify when an extendee is a superselector of a member *)
Definition no_unify (_ _ : sel) : list sel := [].

Fixpoint nm_sel (original : sels) (s : sel) : bool :=
  match s with
  | Sel rel c => forallb (fun o => negb (sup_sel o s)) original && nm_comp original c
  end
with nm_comp (original : sels) (c : compound) : bool :=
  match c with Comp _ ps => forallb (nm_pseudo original) ps end
with nm_pseudo (original : sels) (p : pseudo) : bool :=
  match p with
  | Pseudo n _ (ArgSel l) => if name_in n replace_names then forallb (nm_sel original) l else true
  | Pseudo _ _ _ => true
  end.

Definition no_match_top (original s : sels) : bool :=
  forallb (fun x => forallb (fun o => negb (sup_sel o x)) original) s.

(* a pseudo-element somewhere in the top-level compounds: `.c` is (rightly) no superselector of `.c::after`,
   so the unify clause says nothing when an operand has one *)
Fixpoint has_pe (s : sel) : bool :=
  match s with
  | Sel rel c => existsb p_is_element (c_ps c) || match rel with Some (_, r) => has_pe r | None => false end
  end.

(* only descendant and child combinators *)
Fixpoint ap_only (s : sel) : bool :=
  match s with
  | Sel None _ => true
  | Sel (Some (k, r)) _ => match k with Ancestor | Parent => ap_only r | _ => false end
  end.

(* a child combinator / a sibling combinator somewhere in the chain *)
Fixpoint has_kind (test : relkind -> bool) (s : sel) : bool :=
  match s with
  | Sel None _ => false
  | Sel (Some (k, r)) _ => test k || has_kind test r
  end.
Definition is_parent_kind (k : relkind) : bool := match k with Parent => true | _ => false end.
Definition is_sibling_kind (k : relkind) : bool := match k with Sibling | Adjacent => true | _ => false end.
(* the one situation where rsass's is-superselector is an incomplete test: a child combinator meets a sibling
   combinator (`a > c` is a superselector of `a > b + c`, but the test wants the `>` link to be direct) *)
Definition child_meets_sibling (a b : sels) : bool :=
  existsb (has_kind is_parent_kind) (a ++ b) && existsb (has_kind is_sibling_kind) (a ++ b).

Definition fmt_opt (o : option sels) : option text :=
  match o with Some s => Some (fmt_sels false s) | None => None end.

(* the model's answer: Some (Some text) / Some None (= error) / None (= outside the model) *)
Definition model (c : case) : option (option text) :=
  match c_kind c with
  | 0%N => match nest_rule (c_a c) (c_b c) with
           | Ok s => Some (Some (fmt_sels false s))
           | _ => None
           end
  | 1%N => match append_set (c_a c) (c_b c) with
           | AOk s => Some (Some (fmt_sels false s))
           | AErr => Some None
           | _ => None
           end
  | 3%N => if existsb is_complex (c_b c) then Some None
           else if no_match_top (c_b c) (c_a c) then Some (fmt_opt (extend_set no_unify (c_a c) (c_b c) (c_c c))) else None
  | 4%N => if existsb is_complex (c_b c) then Some None
           else if forallb (nm_sel (c_b c)) (c_a c) then Some (fmt_opt (replace_set no_unify (c_a c) (c_b c) (c_c c))) else None
  | _ => None
  end.

Definition corr (c : case) : Z :=
  match model c with
  | None => 2%Z
  | Some None => if N.eqb (c_st1 c) 1 then 1%Z else 0%Z
  | Some (Some t) => if N.eqb (c_st1 c) 0 && otext_eqb (Some t) (c_t1 c) then 1%Z else 0%Z
  end.

Definition clause (c : case) : bool :=
  match c_kind c with
  | 0%N | 1%N =>
      (* `*...` and `|x` are no suffixes: selector.append must refuse them, nothing is said about the rule *)
      if N.eqb (c_kind c) 1 && existsb (fun e => comp_cant_append (s_comp e)) (c_b c) then N.eqb (c_st1 c) 1 else
      (* the function and the nested rule agree (an error on one side needs a failure on the other) *)
      if N.eqb (c_st1 c) 0 then N.eqb (c_st2 c) 0 && otext_eqb (c_t1 c) (c_t2 c)
      else negb (N.eqb (c_st2 c) 0)
  | 2%N =>
      match c_t1 c with
      | None => negb (N.eqb (c_st1 c) 2)
      | Some _ =>
          (* judged where the implementation's is-superselector is a complete test: no pseudo-element in an operand
             (`.c` is rightly no superselector of `.c::after`) and not a child combinator together with a sibling
             combinator (calibrated on the clean tree: 0 failures in 6675 results with descendant + sibling
             combinators, 0 in 3903 with descendant + child combinators; 320 of 2884 when `>` meets `+` / `~`) *)
          existsb has_pe (c_a c) || existsb has_pe (c_b c)
          || child_meets_sibling (c_a c) (c_b c)
          || (N.eqb (c_f1 c) 1 && N.eqb (c_f2 c) 1)
      end
  | 3%N =>
      match c_t1 c with
      | Some t => is_subseq (map (fmt_sel false) (c_a c)) (split_top t 0 [])
      | None => negb (N.eqb (c_st1 c) 2)
      end
  | 4%N =>
      if negb (existsb is_complex (c_b c)) && forallb (nm_sel (c_b c)) (c_a c)
      then otext_eqb (c_t1 c) (Some (fmt_sels false (c_a c)))
      else negb (N.eqb (c_st1 c) 2)
  | _ => true
  end.

(* where selector.append and `&` take different routes through the code: the `&` route unifies with the empty
   compound (C19 classes K2, K3, duplicates) *)
Definition append_class (c : case) : N :=
  match c_kind c with
  | 1%N =>
      if existsb (fun o => existsb (fun e =>
           match comp_append (s_comp o) (s_comp e) with
           | Ok a => match unify_default a with
                     | Some a' => negb (comp_eqb a a')
                     | None => true
                     end
           | _ => false
           end) (c_b c)) (c_a c) then 1%N else 0%N
  | _ => 0%N
  end.

(* unify: a selector pseudo of one operand is a strict superselector of a same-named pseudo of the other
   (`:not(.a)` / `:not(.a, .b)`): combine_vital keeps the more general one *)
Fixpoint comps_of (s : sel) : list compound :=
  match s with
  | Sel None c => [c]
  | Sel (Some (_, r)) c => c :: comps_of r
  end.
Definition comparable_pseudos (a b : compound) : bool :=
  existsb (fun p => match p_arg p with
                    | ArgSel _ => existsb (fun q => (sup_pseudo p q || sup_pseudo q p) && negb (pseudo_eqb p q)) (c_ps b)
                    | _ => false
                    end) (c_ps a).
Definition unify_class (c : case) : N :=
  match c_kind c with
  | 2%N =>
      if existsb (fun x => existsb (fun y =>
           existsb (fun ca => existsb (comparable_pseudos ca) (comps_of y)) (comps_of x)) (c_b c)) (c_a c)
      then 2%N else 0%N
  | _ => 0%N
  end.

Definition b2z (b : bool) : Z := if b then 1%Z else 0%Z.
Definition run (c : case) : list Z :=
  [corr c; b2z (clause c); Z.of_N (N.max (append_class c) (unify_class c)); Z.of_N (c_kind c); Z.of_N (c_st1 c)].
