(* C06 runner: what the implementation returned (ids per thread / random numbers), the
   correspondence with the model (is there a schedule / an oracle answer under which the
   model returns exactly this), and the property clauses evaluated on the implementation's
   own output.  Depends on Model and Spec only. *)
From Coq Require Import String List ZArith NArith Bool Arith Sorting.Mergesort Orders Uint63.
From RV Require Import Base.ListX Base.Text Base.FExpr Base.F64 Gen.Consts Model.Conc Model.Random Spec.CssIdent.
Import ListNotations.
Local Open Scope N_scope.

Definition uid_modulus : N := Eval vm_compute in (2 ^ uid_counter_bits).
Definition uidp : uid_params :=
  mkUid uid_modulus uid_incr uid_radix uid_upper (bytes_of_string uid_prefix) (bytes_of_string uid_suffix).

Inductive obs : Type :=
| OUid (calls : N) (per_thread : list (list (list int)))  (* per thread: the returned ids in call order, separated by spaces;
     this text is packed 7 bytes per 63-bit word (big endian, padded with spaces), in chunks of words *)
| OUidBad                                       (* an id with bytes that cannot even be transported as text, or a failed call *)
| OUnit (res : option Z)                        (* random(): Some bits | None = error / anything else *)
| OLimit (limit : Z) (res : Z + Z).             (* random(limit bits): inl result bits | inr 0 "not an int" | inr 1 "must be greater" | inr 2 other *)

Fixpoint split_sp (l cur : list N) : list (list N) :=
  match l with
  | [] => match cur with [] => [] | _ => [rev cur] end
  | c :: r => if c =? 32 then match cur with [] => split_sp r [] | _ => rev cur :: split_sp r [] end
              else split_sp r (c :: cur)
  end.
Definition bytes_of_word (w : int) : list N :=
  map (fun k => Z.to_N (Uint63.to_Z (Uint63.land (Uint63.lsr w k) 255%uint63))) [48; 40; 32; 24; 16; 8; 0]%uint63.
Definition ids_of_text (l : list (list int)) : list (list N) :=
  split_sp (flat_map (fun ch => flat_map bytes_of_word ch) l) [].

Fixpoint strip_prefix (p l : list N) : option (list N) :=
  match p, l with
  | [], _ => Some l
  | a :: p', b :: l' => if a =? b then strip_prefix p' l' else None
  | _ :: _, [] => None
  end.

(* the counter value an identifier denotes: parse, then re-print and compare *)
Definition value_of_id (id : list N) : option N :=
  match strip_prefix (up_prefix uidp) id with
  | None => None
  | Some rest =>
      let digits := firstn (length rest - length (up_suffix uidp)) rest in
      let v := parse_radix (up_radix uidp) digits in
      if bytes_eqb (id_bytes uidp v) id && (v <? modulus uidp) then Some v else None
  end.

Fixpoint opt_all {A} (l : list (option A)) : option (list A) :=
  match l with
  | [] => Some []
  | None :: _ => None
  | Some x :: r => match opt_all r with Some r' => Some (x :: r') | None => None end
  end.

(* ---- reconstruct a schedule explaining the per-thread results ---- *)
Fixpoint find_head (e : N) (ths : list (list N)) (i : nat) : option nat :=
  match ths with
  | [] => None
  | (h :: _) :: r => if h =? e then Some i else find_head e r (S i)
  | [] :: r => find_head e r (S i)
  end.
Fixpoint pop_at (i : nat) (ths : list (list N)) : list (list N) :=
  match ths, i with
  | [], _ => []
  | l :: r, O => tl l :: r
  | l :: r, S j => l :: pop_at j r
  end.
Definition all_empty (ths : list (list N)) : bool := forallb (fun l => match l with [] => true | _ => false end) ths.
Fixpoint recon (fuel : nat) (c : N) (ths : list (list N)) (acc : list nat) : option (list nat) :=
  match fuel with
  | O => if all_empty ths then Some (rev acc) else None
  | S f => let c' := bump uidp c in
           match find_head c' ths 0 with
           | Some i => recon f c' (pop_at i ths) (i :: acc)
           | None => if all_empty ths then Some (rev acc) else None
           end
  end.
Definition heads_min (ths : list (list N)) : option N :=
  fold_left (fun m l => match l, m with
                        | h :: _, Some x => Some (N.min h x)
                        | h :: _, None => Some h
                        | [], _ => m end) ths None.
Definition list_len_sum (ths : list (list N)) : nat := fold_left (fun a l => (a + length l)%nat) ths 0%nat.

(* 1 = the model, started at the counter value just before the smallest id and run on the
       reconstructed schedule, returns to every thread exactly the implementation's ids;
   0 = no schedule explains them (or an id is not even a printed counter value) *)
Definition corr_uid (calls : N) (texts : list (list (list int))) : Z :=
  let ids := map ids_of_text texts in
  if negb (forallb (fun l => N.of_nat (length l) =? calls) ids) then 0%Z else
  match opt_all (map (fun l => opt_all (map value_of_id l)) ids) with
  | None => 0%Z
  | Some vals =>
      match heads_min vals with
      | None => 1%Z                                   (* no call at all *)
      | Some m =>
          let c0 := (m + modulus uidp - up_incr uidp mod modulus uidp) mod modulus uidp in
          match recon (S (list_len_sum vals)) c0 vals [] with
          | None => 0%Z
          | Some sched =>
              let evs := run_atomic uidp c0 sched in
              if forallb (fun ti => list_eqb bytes_eqb (ids_of_thread uidp evs (fst ti)) (snd ti))
                         (combine (seq 0 (length ids)) ids)
              then 1%Z else 0%Z
          end
      end
  end.

(* ---- property clauses on the implementation's output ---- *)
Module NOrder <: TotalLeBool.
  Definition t := N.
  Definition leb := N.leb.
  Theorem leb_total : forall a1 a2, leb a1 a2 = true \/ leb a2 a1 = true.
  Proof. intros a b. unfold leb. destruct (N.leb_spec a b); [left; reflexivity|right]. apply N.leb_le. apply N.lt_le_incl. assumption. Qed.
End NOrder.
Module NSort := Sort NOrder.

(* injective code of a byte string (leading 1 keeps the length) *)
Definition code_of (l : list N) : N := fold_left (fun a c => a * 256 + c) l 1.
Fixpoint adjacent_distinct (l : list N) : bool :=
  match l with
  | a :: ((b :: _) as r) => negb (a =? b) && adjacent_distinct r
  | _ => true
  end.
Definition all_distinct (ids : list (list N)) : bool := adjacent_distinct (NSort.sort (map code_of ids)).

Definition clause_distinct (o : obs) : bool :=
  match o with
  | OUid _ texts => all_distinct (flat_map ids_of_text texts)
  | OUidBad => false
  | _ => true
  end.
Definition clause_ident (o : obs) : bool :=
  match o with
  | OUid _ texts => forallb is_css_ident (flat_map ids_of_text texts)
  | OUidBad => false
  | _ => true
  end.

Local Open Scope Z_scope.
Definition f_integer (x : f64) : bool :=
  match f_trunc_Z x with Some z => feq (f_of_Z z) x | None => false end.
Definition two53 : f64 := f_of_Z (2 ^ 53).
Definition in_domain (l : f64) : bool := f_integer l && fle f_one l && fle l two53.
Definition clause_range (o : obs) : bool :=
  match o with
  | OUnit (Some b) => fle f_zero (of_bits b) && flt (of_bits b) f_one
  | OUnit None => false
  | OLimit lb (inl ob) => let l := of_bits lb in let x := of_bits ob in
                          f_integer x && fle f_one x && fle x l
  | OLimit lb (inr _) => negb (in_domain (of_bits lb))
  | _ => true
  end.

(* random(): the oracle may answer anything in its contract; random(limit): is there an oracle
   answer r in the range handed to fastrand::i64 such that the model prints this result *)
Definition corr_random (o : obs) : Z :=
  match o with
  | OUnit (Some b) => if fle f_zero (of_bits b) && flt (of_bits b) f_one then 1 else 0
  | OUnit None => 0
  | OLimit lb res =>
      let l := of_bits lb in
      if negb (f_is_finite l) || flt two53 (fabs l) then 2 else
      match positive_int l, res with
      | inl bound, inl ob =>
          match f_trunc_Z (of_bits ob) with
          | Some z => let r := z - rnd_offset in
                      if (canon_bits (random_out r) =? canon_bits (of_bits ob)) && (rnd_lo <=? r) && (r <? rnd_upper bound)
                      then 1 else 0
          | None => 0
          end
      | inr k, inr k' => if k =? k' then 1 else 0
      | _, _ => 0
      end
  | _ => 2
  end.

Definition b2z (b : bool) : Z := if b then 1 else 0.
Definition count_ids (o : obs) : Z :=
  match o with OUid _ texts => Z.of_nat (length (flat_map ids_of_text texts)) | _ => 0 end.

(* [corr; distinct; ident; range; number of ids seen] *)
Definition run (o : obs) : list Z :=
  [ match o with OUid calls texts => corr_uid calls texts | OUidBad => 0 | _ => corr_random o end;
    b2z (clause_distinct o); b2z (clause_ident o); b2z (clause_range o); count_ids o ].
