(* C12 runner: model of == / != / < / > against the implementation's answers, and the
   property clauses (symmetry, negation, reflexivity, trichotomy) evaluated on the
   IMPLEMENTATION's answers.  Depends on Model and Spec only. *)
From Coq Require Import String List ZArith Bool NArith.
From RV Require Import Base.F64 Base.Text Gen.Units Model.Units Model.Numeric Model.ValueEq Spec.CssUnits.
Import ListNotations.
Local Open Scope Z_scope.

Definition unit_of_text (t : string) : unit :=
  if String.eqb t "" then u_none else
  match assoc t parser_units with
  | Some v => UK v
  | None => UU t
  end.
Definition num_of (bits : Z) (u : string) : numeric :=
  mkNum (of_bits bits) (us_of_unit (unit_of_text u)).

(* implementation answers: Some b = the boolean b; None = anything else *)
Record case := mkCase {
  c_a : value; c_b : value; c_ua : string; c_ub : string;
  c_eq_ab : option bool; c_eq_ba : option bool; c_ne_ab : option bool;
  c_lt : option bool; c_gt : option bool; c_eq_aa : option bool }.

Definition ob_eqb (x y : option bool) : bool :=
  match x, y with
  | Some a, Some b => Bool.eqb a b
  | None, None => true
  | _, _ => false
  end.

Definition both_num (c : case) : bool :=
  match c_a c, c_b c with VNum _ _, VNum _ _ => true | _, _ => false end.

(* maps: the model flips the direction of the inner comparisons (see Model/ValueEq.v); that is the code's
   behaviour when the numbers involved have aligned units (same unit set, or one unitless) *)
Fixpoint has_map (v : value) : bool :=
  match v with
  | VMap _ => true
  | VList xs _ _ => existsb has_map xs
  | _ => false
  end.
Definition aligned (x y : numeric) : bool :=
  us_eqb (nunit x) (nunit y) || num_is_no_unit x || num_is_no_unit y.
Definition all_aligned (a b : value) : bool :=
  forallb (fun x => forallb (aligned x) (numbers_of b)) (numbers_of a).

Definition corr (c : case) : Z :=
  if has_other (c_a c) || has_other (c_b c) then 2 else
  if (has_map (c_a c) || has_map (c_b c)) && negb (all_aligned (c_a c) (c_b c) && all_aligned (c_a c) (c_a c)) then 2 else
  let a := c_a c in let b := c_b c in
  let ords := if both_num c
              then match vlt a b, vgt a b with
                   | Some l, Some g => Some (ob_eqb (c_lt c) (Some l) && ob_eqb (c_gt c) (Some g))
                   | _, _ => None
                   end
              else Some true in
  match ords with
  | None => 2
  | Some o =>
      if ob_eqb (c_eq_ab c) (Some (veq a b)) && ob_eqb (c_eq_ba c) (Some (veq b a))
         && ob_eqb (c_ne_ab c) (Some (vneq a b)) && ob_eqb (c_eq_aa c) (Some (veq a a)) && o
      then 1 else 0
  end.

(* ---- the property on the implementation's answers ---- *)
Definition clause_sym (c : case) : bool :=
  match c_eq_ab c, c_eq_ba c with Some x, Some y => Bool.eqb x y | _, _ => false end.
Definition clause_neg (c : case) : bool :=
  match c_eq_ab c, c_ne_ab c with Some x, Some y => Bool.eqb y (negb x) | _, _ => false end.
Definition clause_refl (c : case) : bool :=
  if nan_free (c_a c) then match c_eq_aa c with Some true => true | _ => false end else true.

Definition unitless (u : string) : bool := String.eqb u "".
Definition comparable (c : case) : bool :=
  match c_a c, c_b c with
  | VNum x _, VNum y _ =>
      negb (f_is_nan (nval x)) && negb (f_is_nan (nval y)) &&
      (unitless (c_ua c) || unitless (c_ub c) || String.eqb (c_ua c) (c_ub c) || same_group (c_ua c) (c_ub c))
  | _, _ => false
  end.
Definition b2z (b : bool) : Z := if b then 1 else 0.
Definition clause_tri (c : case) : bool :=
  if comparable c then
    match c_lt c, c_eq_ab c, c_gt c with
    | Some l, Some e, Some g => (b2z l + b2z e + b2z g =? 1)
    | _, _, _ => false
    end
  else true.

(* ---- known classes: functions of the INPUT values only ---- *)
Definition mags_eq (x y : numeric) : bool := number_eq (nval x) (nval y) || number_eq (nval y) (nval x) || feq (nval x) (nval y).
(* K2 (F18): equal magnitudes, different `calculated` flags *)
Definition known_K2 (c : case) : bool :=
  match c_a c, c_b c with
  | VNum x cx, VNum y cy => negb (Bool.eqb cx cy) && num_eqb x y
  | _, _ => false
  end.
(* K3 (F19): exactly one operand unitless, equal magnitudes *)
Definition known_K3 (c : case) : bool :=
  match c_a c, c_b c with
  | VNum x _, VNum y _ => xorb (unitless (c_ua c)) (unitless (c_ub c)) && mags_eq x y
  | _, _ => false
  end.

(* [corr; sym; neg; refl; tri; class] *)
Definition run (c : case) : list Z :=
  [ corr c;
    b2z (clause_sym c);
    b2z (clause_neg c);
    b2z (clause_refl c);
    b2z (clause_tri c); (if known_K3 c then 3 else if known_K2 c then 2 else 0) ].
