(* C18 runner. *)
From Coq Require Import String List ZArith NArith Bool.
From RV Require Import Base.Text Model.EvValue Model.EvArgs Spec.SassArgs.
Import ListNotations.
Local Open Scope string_scope.
Local Open Scope list_scope.

Inductive cinput : Type :=
| CBind (s : sigT) (c : callT)          (* @mixin m(<sig>) { p0: inspect($..); ...; pr: inspect($rest); pk: inspect(keywords($rest)) } *)
| CRet (body : list fstmt).             (* @function f() { <body> }  q { p0: inspect(f()) } *)

Inductive implres : Type :=
| IDecls (l : list (string * list N))
| IErr | IPanic | IOther.

Record case := mkCase { c_in : cinput; c_impl : implres }.

Definition pname (i : nat) : string :=
  nth i ["p0"; "p1"; "p2"; "p3"; "p4"; "p5"; "p6"; "p7"] "px".

(* Display of Value::ArgList in introspection format *)
Definition inspect_arglist (pos : list value) : list N :=
  match pos with
  | [] => tx "()"
  | [x] => tx "(" ++ inspect x ++ tx ",)"
  | _ => join (tx ", ") (map inspect pos)
  end.
(* keywords($rest) is a map from the (displayed) names to the values *)
Definition inspect_kw (kw : named) : list N :=
  match kw with
  | [] => tx "()"
  | _ => tx "(" ++ join (tx ", ") (map (fun kv => tx (disp (fst kv)) ++ tx ": " ++ inspect (snd kv)) kw) ++ tx ")"
  end.

Fixpoint render_bound (l : list (string * value)) (i : nat) : list (string * list N) :=
  match l with
  | [] => []
  | (_, v) :: r => (pname i, inspect v) :: render_bound r (S i)
  end.

(* None = the compilation fails *)
Definition render (b : bres) : option (list (string * list N)) :=
  match b with
  | BErr => None
  | BOk bound None => Some (render_bound bound 0)
  | BOk bound (Some (RArgs pos kw)) =>
      Some (render_bound bound 0 ++ [("pr", inspect_arglist pos); ("pk", inspect_kw kw)])
  | BOk bound (Some (RValue _)) => None          (* keywords() of a non-arglist is an error *)
  end.

Definition render_ret (o : option value) : list (string * list N) :=
  [("p0", match o with Some v => inspect v | None => tx "null" end)].

Fixpoint decls_eqb (a b : list (string * list N)) : bool :=
  match a, b with
  | [], [] => true
  | (n, t) :: a', (m, u) :: b' => String.eqb n m && bytes_eqb t u && decls_eqb a' b'
  | _, _ => false
  end.
Definition matches (expected : option (list (string * list N))) (i : implres) : bool :=
  match expected, i with
  | None, IErr => true
  | Some l, IDecls l' => decls_eqb l l'
  | _, _ => false
  end.

Definition model_out (i : cinput) : option (list (string * list N)) :=
  match i with
  | CBind s c => render (model_bind s c)
  | CRet b => Some (render_ret (body_eval b))
  end.
Definition spec_out (i : cinput) : option (list (string * list N)) :=
  match i with
  | CBind s c => render (spec_bind s c)
  | CRet b => Some (render_ret (first_return b))
  end.

(* ---- known classes, INPUT only ---- *)
(* (classes 1 and 2 - keyword repeating a positionally bound parameter with a rest parameter, map-splat entry
   repeating a keyword - were fixed by 09ccabb and 5cd805f) *)
(* K3: the lone left-over keyword is named like the rest parameter: the rest parameter becomes that value *)
Definition known_K3 (s : sigT) (c : callT) : bool :=
  match model_bind s c with BOk _ (Some (RValue _)) => true | _ => false end.

Definition known_class (i : cinput) : Z :=
  match i with
  | CBind s c => if known_K3 s c then 3 else 0
  | CRet _ => 0
  end%Z.

Definition b2z (b : bool) : Z := if b then 1%Z else 0%Z.

(* [corr; clause ok; known class; kind; expected-is-error] *)
Definition run (c : case) : list Z :=
  [ b2z (matches (model_out (c_in c)) (c_impl c));
    b2z (matches (spec_out (c_in c)) (c_impl c));
    known_class (c_in c);
    match c_in c with CBind _ _ => 1 | CRet _ => 2 end%Z;
    b2z (match spec_out (c_in c) with None => true | _ => false end) ].
