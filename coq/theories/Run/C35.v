(* C35 runner: the metamorphic relation judged on the implementation's two outputs. *)
From Coq Require Import String List ZArith NArith Bool.
From RV Require Import Base.Text Model.EvArgs Model.EvScope.
Import ListNotations.
Local Open Scope string_scope.

Inductive out : Type := OOk (css : list N) | OErr | OOther.

Record case := mkCase {
  c_base : out;                       (* output of the original source *)
  c_rew : out;                        (* output of the rewritten source *)
  c_pairs : list (string * string);   (* spellings exchanged by the -/_ rewrite *)
  c_frag : option (list stmt);        (* the top-level fragment moved into an @import-ed partial *)
  c_tags : list string }.             (* places where the whitespace rewrite put a `//` comment that matter for a class *)

Definition same_output (a b : out) : bool :=
  match a, b with
  | OOk x, OOk y => bytes_eqb x y
  | OErr, OErr => true
  | _, _ => false
  end.

(* the -/_ rewrite only ever exchanges spellings of the same Name *)
Definition pairs_ok (l : list (string * string)) : bool :=
  forallb (fun p => String.eqb (norm (fst p)) (norm (snd p))) l.

(* K1: the fragment moved into the partial assigns a variable at its top level (or in top-level
   @if/@each, which share the scope; an @each binds its variable there) without !global, and later -
   still inside the fragment - includes a mixin or makes a !global assignment: rsass runs an
   @import-ed file in a sub scope whose variables are copied to the importing scope only when the
   file ends, so a mixin defined outside still sees the old global, and the copy overwrites what a
   !global assignment wrote meanwhile *)
Fixpoint assigns_here (s : stmt) : bool :=
  let go := fix go (l : list stmt) : bool := match l with [] => false | x :: r => assigns_here x || go r end in
  match s with
  | SSet _ _ _ g => negb g
  | SIf _ t e => go t || go e
  | SEach _ _ b => true
  | _ => false
  end.
Fixpoint includes (s : stmt) : bool :=
  let go := fix go (l : list stmt) : bool := match l with [] => false | x :: r => includes x || go r end in
  match s with
  | SMixin _ _ => true
  | SBlock _ b | SEach _ _ b | SFor _ _ _ _ b | SWhile _ b => go b
  | SIf _ t e => go t || go e
  | _ => false
  end.
Fixpoint sets_global (s : stmt) : bool :=
  let go := fix go (l : list stmt) : bool := match l with [] => false | x :: r => sets_global x || go r end in
  match s with
  | SSet _ _ _ g => g
  | SBlock _ b | SEach _ _ b | SFor _ _ _ _ b | SWhile _ b | SMixin _ b => go b
  | SIf _ t e => go t || go e
  | SRead _ _ => false
  end.
Fixpoint frag_risky (l : list stmt) : bool :=
  match l with
  | [] => false
  | s :: r => (assigns_here s && existsb (fun x => includes x || sets_global x) (s :: r)) || frag_risky r
  end.
Definition known_K1 (c : case) : bool :=
  match c_frag c with Some f => frag_risky f | None => false end.

(* (class 2 - a silent comment next to a comparison operator - was fixed by bdd7c93; the tags stay in the
   case record for the statistics) *)

Definition b2z (b : bool) : Z := if b then 1%Z else 0%Z.

(* [tie of the -/_ rewrite to the Name model (2 = not applicable); outputs equal; known class] *)
Definition run (c : case) : list Z :=
  [ match c_pairs c with [] => 2%Z | l => b2z (pairs_ok l) end;
    b2z (same_output (c_base c) (c_rew c));
    (if known_K1 c then 1 else 0)%Z ].
