(* C37 runner. *)
From Coq Require Import String Ascii List ZArith Bool.
From RV Require Import Model.EvArgs Model.EvModule Spec.SassModule.
Import ListNotations.
Local Open Scope string_scope.
Local Open Scope list_scope.

Inductive cinput : Type :=
| CNs (url : string)                      (* @use "<url>";  a { v: <reference namespace>.$v } *)
| CFwd (pfx : option string) (e : expose) (* mid: @forward "lib" [as p*] [show|hide ..];  main: @use "mid"; members of mid *)
| CCfg (decls : list (string * Z * bool)) (cfg : list (string * Z))   (* @use "lib" with (cfg); variables of lib *)
| CFwdB (a : fb_action) (pfx : option string) (e : expose)   (* numbers.scss: @forward "sass:math" ...; $own: 1 !default; *)
| CBuiltin (k : nat).                     (* 0: configure sass:math; 1: assign math.$pi; 2: read math.$pi *)

Inductive implres : Type :=
| IOkNs                                   (* the probe compiled and printed the variable *)
| IView (vars : list (string * Z)) (funs mixins : list string)
| IVars (vars : list (string * Z))
| IOk
| IVal (v : Z)                            (* `x: v` of the probe; 0 stands for pi *)
| IErr | IOther.

Record case := mkCase { c_in : cinput; c_impl : implres }.

(* the library module behind CFwd *)
Definition lib : members := mkMem [("v", 1%Z); ("w", 2%Z)] ["f"; "g"] ["m"; "n"].

Definition names_sub (a b : list string) : bool :=
  forallb (fun x => existsb (fun y => String.eqb (norm x) (norm y)) b) a.
Definition names_eq (a b : list string) : bool := names_sub a b && names_sub b a.
Definition vars_sub (a b : list (string * Z)) : bool :=
  forallb (fun x => existsb (fun y => String.eqb (norm (fst x)) (norm (fst y)) && (snd x =? snd y)%Z) b) a.
Definition vars_eq (a b : list (string * Z)) : bool := vars_sub a b && vars_sub b a.

Inductive expect : Type :=
| XNs (ok : bool) | XView (m : members) | XVars (o : option (list (string * Z))) | XPlain (ok : bool)
| XVal (r : fb_res).

Definition matches (x : expect) (i : implres) : bool :=
  match x, i with
  | XNs true, IOkNs | XNs false, IErr => true
  | XView m, IView v f mx => vars_eq (m_vars m) v && names_eq (m_funs m) f && names_eq (m_mixins m) mx
  | XVars (Some v), IVars v' => vars_eq v v'
  | XVars None, IErr => true
  | XPlain true, IOk | XPlain false, IErr => true
  | XVal (FOk v), IVal w => (v =? w)%Z
  | XVal FErr, IErr => true
  | _, _ => false
  end.

Definition model_out (i : cinput) : expect :=
  match i with
  | CNs url => XNs (String.eqb (norm (default_namespace url)) (norm (spec_namespace url)))
  | CFwd p e => XView (forward_view lib p e)
  | CCfg d c => XVars (configure d c)
  | CFwdB a p e => XVal (fwd_builtin a p e)
  | CBuiltin 0 => XPlain (builtin_configure true)
  | CBuiltin 1 => XPlain builtin_assign
  | CBuiltin _ => XPlain true
  end.
Definition spec_out (i : cinput) : expect :=
  match i with
  | CNs url => XNs true                     (* the module is reachable through the reference namespace *)
  | CFwd p e => XView (spec_forward_view lib p e)
  | CCfg d c => XVars (spec_configure d c)
  | CFwdB a p e => XVal (spec_fwd_builtin a p e)
  | CBuiltin 0 | CBuiltin 1 => XPlain false  (* built-ins can be neither configured nor assigned to *)
  | CBuiltin _ => XPlain true
  end.

(* ---- known classes, INPUT only ---- *)
(* (class 1 - the namespace kept a leading `_` / the extension - was fixed by 18a59ef) *)
(* K2: a configured variable is not declared with !default by the module: silently accepted *)
Definition known_K2 (decls : list (string * Z * bool)) (cfg : list (string * Z)) : bool :=
  negb (cfg_dup cfg) && negb (forallb (fun kv => declares_default decls (fst kv)) cfg).
(* (class 3, F29 - prefix filter tested against the wrong list - was fixed by 2f8ada8) *)

(* K4: the built-in guard is an internal variable of the module scope: through a forwarding user module
   it is lost with `show` or a prefix (a forwarded built-in variable can then be assigned), it blocks the
   user module's own variables when it survives, and `with` can always override a forwarded built-in variable *)
Definition known_K4 (a : fb_action) (pfx : option string) (e : expose) : bool :=
  match a with
  | FAssignBuiltin => allow_var e (pfx_name pfx "pi") && negb (marker_survives pfx e)
  | FAssignOwn => marker_survives pfx e
  | FConfigBuiltin => true
  | FReadBuiltin | FConfigOwn => false
  end.

Definition known_class (i : cinput) : Z :=
  match i with
  | CNs url => 0
  | CCfg d c => if known_K2 d c then 2 else 0
  | CFwd p e => 0
  | CFwdB a p e => if known_K4 a p e then 4 else 0
  | CBuiltin _ => 0
  end%Z.

Definition b2z (b : bool) : Z := if b then 1%Z else 0%Z.
Definition kind (i : cinput) : Z :=
  match i with CNs _ => 1 | CFwd _ _ => 2 | CCfg _ _ => 3 | CBuiltin _ => 4 | CFwdB _ _ _ => 5 end%Z.

Definition run (c : case) : list Z :=
  [ b2z (matches (model_out (c_in c)) (c_impl c));
    b2z (matches (spec_out (c_in c)) (c_impl c));
    known_class (c_in c); kind (c_in c) ].
