(* C05 runner.  One case = one history: compilations performed in ONE process, either one after the other
   or on N threads at once.  For every compilation: what a FRESH process answers for the same input and format
   (baseline) and what was observed inside the history.  Answers cross the boundary as (tag, digest): tag 0 = CSS,
   1 = error text, 2 = panic/crash; digest = first 16 bytes of the SHA-256 of the bytes / error text.

   Model (Props/C05.v, C05_interleaving): for inputs not calling unique-id()/random(), what a compilation
   reads from the process-wide store does not depend on the earlier history nor on the interleaving, so it answers
   what it answers alone. *)
From Coq Require Import List ZArith Bool.
Import ListNotations.
Local Open Scope Z_scope.

Record comp := mkComp { b_tag : Z; b_dig : Z; o_tag : Z; o_dig : Z }.
Record case := mkCase { c_threads : Z;           (* 0 = sequential history *)
                        c_comps : list comp }.

Definition same (c : comp) : bool := (b_tag c =? o_tag c) && (b_dig c =? o_dig c) && negb (o_tag c =? 2).
Definition all_same (c : case) : bool := forallb same (c_comps c).

Definition b2z (b : bool) : Z := if b then 1 else 0.
(* [corr; sequential clause; concurrent clause; number of compilations; number of failing compilations in the history] *)
Definition run (c : case) : list Z :=
  [ b2z (all_same c);
    (if c_threads c =? 0 then b2z (all_same c) else 1);
    (if c_threads c =? 0 then 1 else b2z (all_same c));
    Z.of_nat (length (c_comps c));
    Z.of_nat (length (filter (fun x => negb (b_tag x =? 0)) (c_comps c))) ].
