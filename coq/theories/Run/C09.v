(* C09 runner: rsass's own CSS output reads back as the same stylesheet. *)
From Coq Require Import List NArith ZArith Bool.
From RV Require Import Base.Text Spec.CssTok Model.Out Model.CssStr Model.CssRead.
Import ListNotations.
Local Open Scope N_scope.

Inductive iout := IOk (o : list N) | IErr (msg : list N) | ICrash.
Record case := mkCase {
  c_src : list N;                 (* the stylesheet (SCSS = plain CSS subset), bytes *)
  c_out1 : iout;                  (* compiled, expanded *)
  c_out2 : iout;                  (* out1 read back as plain CSS, expanded *)
  c_probe : option (list N * bool * iout) }.   (* a string probe: raw text (code points), double quotes?, rsass's
                                                  output for the plain CSS `a{b:QrawQ}` *)
Definition b2n (b : bool) : N := if b then 1 else 0.

(* remove blank lines *)
Fixpoint drop_blank (x : list N) (at_bol : bool) : list N :=
  match x with
  | [] => []
  | c :: r => if (c =? 10) && at_bol then drop_blank r true else c :: drop_blank r (c =? 10)
  end.

Definition clause_roundtrip (c : case) : bool :=
  match c_out1 c, c_out2 c with
  | IOk a, IOk b => bytes_eqb (drop_blank a true) (drop_blank b true)
  | IOk _, _ => false
  | _, _ => true
  end.

(* the string probe: model of the reader + Display vs rsass *)
Definition probe_expected (raw : list N) (dq : bool) : option (list N) :=
  let q := if dq then 34 else 39 in
  match read_quoted q (q :: raw ++ [q]) with
  | Some (v, []) =>
      let txt := utf8_encode (display_q (pref_dquotes (mkStr v (if dq then QDouble else QSingle)))) in
      Some (into_buffer Expanded (mkData [] [IRule [same_leaf [97]] [IProp [98] (same_leaf txt)]]))
  | _ => None
  end.
Definition corr (c : case) : N :=
  match c_probe c with
  | None => 2
  | Some (raw, dq, o) =>
      match probe_expected raw dq, o with
      | Some e, IOk a => b2n (bytes_eqb e a)
      | None, _ => 2              (* an escape the reader model does not cover, or no closing quote *)
      | Some _, _ => 0
      end
  end.

(* known class: an identifier with a hex escape for a Latin-1 symbol that is not a letter
   (U+00A1..U+00BF without the letters ª µ º, and × ÷): rsass prints the character raw,
   the plain-CSS reader accepts only alphanumeric characters in an unquoted token *)
Definition hexval (c : N) : option N :=
  if is_ascii_digit c then Some (c - 48)
  else if (97 <=? c) && (c <=? 102) then Some (c - 87)
  else if (65 <=? c) && (c <=? 70) then Some (c - 55) else None.
Fixpoint read_hex (x : list N) (acc : N) (n : nat) : N :=
  match n, x with
  | S k, c :: r => match hexval c with Some d => read_hex r (acc * 16 + d) k | None => acc end
  | _, _ => acc
  end.
Definition latin1_symbol (v : N) : bool :=
  ((161 <=? v) && (v <=? 191) && negb ((v =? 170) || (v =? 181) || (v =? 186))) || (v =? 215) || (v =? 247).
Fixpoint has_symbol_escape (x : list N) : bool :=
  match x with
  | 92 :: r => latin1_symbol (read_hex r 0 6) || has_symbol_escape r
  | _ :: r => has_symbol_escape r
  | [] => false
  end.

(* known class F37: a hex escape of a control character inside the source: rsass prints it as
   `\a` + space only where the space is needed, the plain-CSS reader (which now decodes and
   re-normalises escapes) always puts the space: `"\a*/"` reads back as `"\a */"` - the same
   string, another text *)
Definition control_value (v : N) : bool := ((1 <=? v) && (v <? 32)) || ((127 <=? v) && (v <=? 159)).
Fixpoint has_control_escape (x : list N) : bool :=
  match x with
  | 92 :: r => (match r with c :: _ => match hexval c with Some _ => control_value (read_hex r 0 6) | None => false end | [] => false end)
               || has_control_escape r
  | _ :: r => has_control_escape r
  | [] => false
  end.

Definition run (c : case) : list N :=
  [ corr c; b2n (clause_roundtrip c); b2n (has_symbol_escape (c_src c)); b2n (has_control_escape (c_src c)) ].
