(* C08 runner: expanded and compressed describe the same stylesheet. *)
From Coq Require Import List NArith ZArith Bool.
From RV Require Import Base.Text Spec.CssTok Spec.CssColor.
Import ListNotations.
Local Open Scope N_scope.

Inductive iout := IOk (o : list N) | IErr (msg : list N) | ICrash.
Record case := mkCase { c_src : list N; c_exp : iout; c_comp : iout }.
Definition b2n (b : bool) : N := if b then 1 else 0.

Definition canon (x : list N) : list N := color_canon (normalize x).

(* clause 1: both succeed or both fail; clause 2: equal messages; clause 3: same stylesheet *)
Definition clause_same_outcome (c : case) : bool :=
  match c_exp c, c_comp c with
  | IOk _, IOk _ | IErr _, IErr _ => true
  | ICrash, _ | _, ICrash => true          (* a crash is C01's subject *)
  | _, _ => false
  end.
Definition clause_same_message (c : case) : bool :=
  match c_exp c, c_comp c with
  | IErr a, IErr b => bytes_eqb a b
  | _, _ => true
  end.
Definition clause_same_sheet (c : case) : bool :=
  match c_exp c, c_comp c with
  | IOk a, IOk b => bytes_eqb (canon a) (canon b)
  | _, _ => true
  end.

(* known class: text produced DURING evaluation (interpolation, `+` on strings) is
   formatted with the output style: list separators lose their space, numbers
   their leading zero - inside strings and concatenated tokens *)
Fixpoint has_sub (p x : list N) : bool :=
  match x with
  | [] => match p with [] => true | _ => false end
  | _ :: r => starts_with p x || has_sub p r
  end.
Definition known_eval_text (c : case) : bool :=
  has_sub [35;123] (c_src c) || (has_sub [43] (c_src c) && has_sub [47] (c_src c)).

Definition run (c : case) : list N :=
  [ b2n (clause_same_outcome c); b2n (clause_same_message c); b2n (clause_same_sheet c);
    b2n (known_eval_text c) ].
