(* C23 runner: selector.is-superselector on generated pairs / triples. *)
From Coq Require Import List NArith ZArith Bool.
From RV Require Import Model.Sel Model.SelAlg.
Import ListNotations.
Local Open Scope list_scope.

(* one call of selector.is-superselector(a, b): q_res 0 = false, 1 = true, 2 = error / anything else *)
Record query := mkQ { q_a : sels; q_b : sels; q_res : N }.

(* kind 0: plain pair (correspondence only)
   kind 1: the second list is [c'] with c' an extension (Run.C23.extends_b) of a member of the first: expect true
   kind 2: three queries (a,b) (b,c) (a,c): transitivity *)
Record case := mkCase { c_kind : N; c_qs : list query }.

Definition model_q (q : query) : N := if sup_sels (q_a q) (q_b q) then 1%N else 0%N.

Definition corr (c : case) : Z :=
  if forallb (fun q => N.eqb (model_q q) (q_res q)) (c_qs c) then 1%Z else 0%Z.

(* ---- "c' is obtained from c by adding simple selectors to compounds and ancestors/parents at
   the root" as a decidable relation ---- *)
Section Incl.
  Context {A : Type} (eqb : A -> A -> bool).
  Definition inclb (a b : list A) : bool := forallb (fun x => existsb (eqb x) b) a.
End Incl.

Definition first_elem (ps : list pseudo) : option pseudo := find p_is_element ps.

Definition ext_comp_b (a b : compound) : bool :=
  let ba := c_base a in let bb := c_base b in
  Bool.eqb (b_backref ba) (b_backref bb)
  && match b_elem ba with None => true | Some e => opt_eqb text_eqb (b_elem bb) (Some e) end
  && inclb text_eqb (b_phs ba) (b_phs bb)
  && inclb text_eqb (b_classes ba) (b_classes bb)
  && match b_id ba with None => true | Some i => opt_eqb text_eqb (b_id bb) (Some i) end
  && inclb attr_eqb (b_attrs ba) (b_attrs bb)
  && inclb pseudo_eqb (c_ps a) (c_ps b)
  && opt_eqb pseudo_eqb (first_elem (c_ps a)) (first_elem (c_ps b)).

Fixpoint extends_b (c c' : sel) : bool :=
  ext_comp_b (s_comp c) (s_comp c')
  && match c, s_rel c' with
     | Sel None _, None => true
     | Sel None _, Some (k, _) => match k with Ancestor | Parent => true | _ => false end
     | Sel (Some (k, r)) _, Some (k', r') => relkind_eqb k k' && extends_b r r'
     | Sel (Some _) _, None => false
     end.

Definition clause_expect_true (c : case) : bool :=
  match c_kind c, c_qs c with
  | 1%N, [q] =>
      match q_b q with
      | [c'] => if existsb (fun x => extends_b x c') (q_a q) then N.eqb (q_res q) 1 else false
      | _ => false
      end
  | 1%N, _ => false
  | _, _ => true
  end.

Definition clause_trans (c : case) : bool :=
  match c_kind c, c_qs c with
  | 2%N, [ab; bc; ac] =>
      leqb sel_eqb (q_b ab) (q_a bc) && leqb sel_eqb (q_a ab) (q_a ac) && leqb sel_eqb (q_b bc) (q_b ac)
      && (negb (N.eqb (q_res ab) 1 && N.eqb (q_res bc) 1) || N.eqb (q_res ac) 1)
      && negb (N.eqb (q_res ab) 2) && negb (N.eqb (q_res bc) 2) && negb (N.eqb (q_res ac) 2)
  | 2%N, _ => false
  | _, _ => true
  end.

Definition b2z (b : bool) : Z := if b then 1%Z else 0%Z.

Definition run (c : case) : list Z :=
  [corr c; b2z (clause_expect_true c); b2z (clause_trans c);
   match c_qs c with q :: _ => Z.of_N (q_res q) | [] => 2%Z end;
   match c_qs c with [ab; bc; _] => b2z (N.eqb (q_res ab) 1 && N.eqb (q_res bc) 1) | _ => 0%Z end].
