(* C03 runner: model vs implementation, and the property predicate (Spec/LoadRef: every module
   executed once, in load order) evaluated on the IMPLEMENTATION's css. *)
From Coq Require Import String List Bool Arith Ascii NArith ZArith.
From RV Require Import Gen.Candidates Model.Load Model.LoadRun Spec.Resolve Spec.LoadRef.
Import ListNotations.
Local Open Scope string_scope.

Record case : Type := mkCase {
  c_world : world;           (* file i emits marker i exactly once in its body *)
  c_mode : mode;
  c_root : string;
  c_rootid : string;
  c_impl : impl }.

Definition corr (c : case) : Z :=
  corr_res (run_world (c_world c) (c_mode c) (c_root c) (c_rootid c)) (c_impl c).

Definition strip_base (c : case) (n : string) : string :=
  match c_mode c with
  | MFs (b :: _) => let p := (b ++ "/")%string in
                    if String.prefix p n then substring (String.length p) (String.length n) n else n
  | _ => n
  end.

Definition reference (c : case) : rres :=
  ref_run (map (strip_base c) (names (c_world c)))
          (assoc_body (map (fun nb => (strip_base c (fst nb), snd nb)) (c_world c)))
          (strip_base c (c_rootid c)).

Definition count_n (m : N) (l : list N) : nat := List.length (filter (N.eqb m) l).

(* clause 1: no module's css appears twice; every module the reference executes appears *)
Definition clause_once (c : case) (r : rres) : bool :=
  match r with
  | RefDone _ out _ =>
      Z.eqb (i_class (c_impl c)) 0
      && forallb (fun m => Nat.leb (count_n m (i_markers (c_impl c))) 1) (i_markers (c_impl c))
      && forallb (fun m => Nat.eqb (count_n m (i_markers (c_impl c))) 1) out
  | _ => true
  end.

(* clause 2: the css is the reference's: each module once, in the order of first load *)
Definition clause_output (c : case) (r : rres) : bool :=
  match r with
  | RefDone _ out _ => Z.eqb (i_class (c_impl c)) 0 && ns_eqb (rev out) (i_markers (c_impl c))
  | _ => true
  end.

(* (class K1 = spelled module url, F7, was closed by fix d80c9be: no escape is left for the graph clauses) *)

Definition b2z (b : bool) : Z := if b then 1%Z else 0%Z.

Definition ref_class (r : rres) : Z :=
  match r with RefDone _ _ _ => 0 | RefLoop _ _ => 1 | RefNotFound => 3 | RefFuel => 9 end%Z.

(* [corr; once; output; known class; reference class; number of modules executed by the reference] *)
Definition run (c : case) : list Z :=
  let r := reference c in
  [ corr c; b2z (clause_once c r); b2z (clause_output c r); 0%Z; ref_class r;
    match r with RefDone _ _ ex => Z.of_nat (List.length ex) | _ => 0%Z end ].

(* ---- the clause "every user sees the same module variables" (checked on the implementation only;
   the model has no variables): one user assigns `written` to the variable of module lib through a
   chain of `fw` forwarding modules, another user then reads it through a chain of `fr` forwarding
   modules; a module is one instance per compilation, so the value read is the value written ---- *)
Record vcase : Type := mkV { v_fw : nat; v_fr : nat; v_written : N; v_got : option N }.

Definition clause_vars (v : vcase) : bool :=
  match v_got v with Some g => N.eqb g (v_written v) | None => false end.

(* known class F8 (INPUT only): the write or the read goes through a module that @forwards *)
Definition known_V (v : vcase) : bool := negb (Nat.eqb (v_fw v) 0) || negb (Nat.eqb (v_fr v) 0).

Inductive anycase : Type := CGraph (c : case) | CVars (v : vcase).

Definition run_any (a : anycase) : list Z :=
  match a with
  | CGraph c => run c
  | CVars v => [2%Z; b2z (clause_vars v); 1%Z; (if known_V v then 2 else 0)%Z; 0%Z; 0%Z]
  end.
