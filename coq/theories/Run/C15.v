(* C15 runner: canonical text of a tree, model parse / value vs the
   implementation's parse / value, and the property predicate (reference value
   of the tree vs the IMPLEMENTATION's value).  No proofs here. *)
From Coq Require Import List NArith ZArith Bool.
From RV Require Import Base.F64 Base.FMod Base.Text Spec.SassExpr Model.ExprParse Model.ExprEval.
Import ListNotations.

Record case := mkCase {
  c_tree : tree;
  c_text : list N;            (* the text that was sent to the implementation *)
  c_parse : option ast;       (* Debug output of parse_value_data, read back *)
  c_value : val }.            (* compile result: VNum / VBool / VErr / VOther *)

(* ---- known-finding classes: decidable, functions of the tree only ---- *)

Fixpoint exists_node (p : tree -> bool) (t : tree) : bool :=
  p t || match t with
         | TNeg a | TNot a => exists_node p a
         | TBin _ l r => exists_node p l || exists_node p r
         | _ => false
         end.

(* does the unparenthesised and/or chain printed for t contain an `and` *)
Fixpoint chain_has_and (t : tree) : bool :=
  match t with
  | TBin BAnd _ _ => true
  | TBin BOr l r => chain_has_and l || match r with TBin BAnd _ _ => true | _ => false end
  | _ => false
  end.
(* K1: an `or` whose left operand is printed as a chain containing `and`
   (`a and b or c`): rsass groups the chain to the right *)
Definition k1_node (t : tree) : bool :=
  match t with TBin BOr l _ => chain_has_and l | _ => false end.
Definition known_K1 (t : tree) : bool := exists_node k1_node t.

(* K2: `==`/`!=` whose right operand is an unparenthesised relational node
   (`a == b < c`): rsass folds all six operators at one level *)
Definition is_relational (o : binop) : bool := match o with BLt | BLe | BGt | BGe => true | _ => false end.
Definition is_equality (o : binop) : bool := match o with BEq | BNe => true | _ => false end.
Definition k2_node (t : tree) : bool :=
  match t with
  | TBin o _ (TBin o' _ _) => is_equality o && is_relational o'
  | _ => false
  end.
Definition known_K2 (t : tree) : bool := exists_node k2_node t.

(* K4: a relational operator applied to a boolean (`true < 1`): Sass reports an
   error, rsass keeps the text, which is then a true value, equal to itself... *)
Definition is_vbool (v : val) : bool := match v with VBool _ => true | _ => false end.
Definition k4_node (t : tree) : bool :=
  match t with
  | TBin o l r => is_relational o && (is_vbool (eval_spec l) || is_vbool (eval_spec r))
  | _ => false
  end.
Definition known_K4 (t : tree) : bool := exists_node k4_node t.

Definition known_class (t : tree) : Z :=
  if known_K1 t then 1 else if known_K2 t then 2 else if known_K4 t then 4 else 0.

(* ---- correspondence ---- *)
Definition val_same (a b : val) : bool :=
  match a, b with
  | VNum x, VNum y => (canon_bits x =? canon_bits y)%Z
  | VBool x, VBool y => Bool.eqb x y
  | VErr, VErr | VOther, VOther => true
  | _, _ => false
  end.

Definition b2z (b : bool) : Z := if b then 1%Z else 0%Z.

Definition corr_parse (c : case) : Z :=
  match parse (pr (c_tree c)), c_parse c with
  | Some a, Some b => b2z (ast_eqb a b)
  | None, None => 1
  | _, _ => 0
  end%Z.

Definition corr_value (c : case) : Z :=
  match model_value (c_tree c) with
  | VUnmod => 2%Z
  | v => b2z (val_same v (c_value c))
  end.

Definition is_num_or_bool (v : val) : bool := match v with VNum _ | VBool _ => true | _ => false end.

(* [text ok; parse corr; value corr; property clause; known class; reference value is a number/boolean] *)
Definition run (c : case) : list Z :=
  [ b2z (bytes_eqb (tree_text (c_tree c)) (c_text c));
    corr_parse c;
    corr_value c;
    b2z (agrees (eval_spec (c_tree c)) (c_value c));
    known_class (c_tree c);
    b2z (is_num_or_bool (eval_spec (c_tree c))) ].
