(* C10 runner: model text vs implementation text (byte for byte) and the
   property clauses evaluated on the IMPLEMENTATION's text against the exact
   rational reference Spec/DecRound.v.  Depends on Model and Spec only. *)
From Coq Require Import ZArith QArith Qabs Qround List Bool NArith.
From RV Require Import Base.F64 Base.Text Model.NumFmt Spec.DecRound.
Import ListNotations.
Local Open Scope Z_scope.

(* kind 0: Number::format(..) text (harness numfmt); kind 1: the number as a CSS value (compile_value) *)
Record case := mkCase {
  c_comp : bool; c_prec : Z; c_bits : Z; c_kind : Z; c_impl : option (list N) }.

Definition model_text (c : case) : list N :=
  if c_kind c =? 0 then fmt_number (c_comp c) (c_prec c) (of_bits (c_bits c))
  else fmt_css_unitless (c_comp c) (c_prec c) (of_bits (c_bits c)).

Definition corr (c : case) : Z :=
  match c_impl c with
  | Some t => if bytes_eqb t (model_text c) then 1 else 0
  | None => 0
  end.

(* exact value of the double *)
Definition q_of_bits (z : Z) : option Q :=
  match f_to_Q (of_bits z) with
  | Some (m, e) => Some (if 0 <=? e then inject_Z (m * 2 ^ e) else (m # Z.to_pos (2 ^ (- e))))
  | None => None
  end.

(* half the distance to the neighbouring doubles, for |x| >= 2^53 (integers) *)
Definition half_ulp (z : Z) : Q :=
  match f_to_Q (of_bits z) with
  | Some (_, e) => inject_Z (2 ^ (e - 1))
  | None => 0%Q
  end.

Definition b2z (b : bool) : Z := if b then 1 else 0.

Definition strip_calc (t : list N) : option (list N) :=
  match t with
  | 99%N :: 97%N :: 108%N :: 99%N :: 40%N :: r =>
      match rev r with 41%N :: r' => Some (rev r') | _ => None end
  | _ => None
  end.

(* 2^-52: bound on the error the digit loop can accumulate (see notes/C10.md) *)
Definition loop_slack : Q := 1 # (Z.to_pos (2 ^ 52)).
Definition rounded_within (slack : Q) (d : Z) (x v : Q) : bool :=
  Qle_bool (Qabs (v - x)) ((1 # 2) / inject_Z (10 ^ d) + slack).

(* clause flags on the implementation text: [syntax; fraclen; sig; round; bounded; nonfinite] *)
Definition clauses (c : case) : list bool :=
  match c_impl c with
  | None => [false; false; false; false; false; false]
  | Some t =>
    match q_of_bits (c_bits c) with
    | None =>
        (* NaN / infinities: exact texts required by the statement *)
        let x := of_bits (c_bits c) in
        let want := if f_is_nan x then txt_nan
                    else ((if f_sign_neg x then [45%N] else []) ++ txt_infinity)%list in
        let got := if c_kind c =? 0 then Some t else strip_calc t in
        [true; true; true; true; true;
         match got with Some g => bytes_eqb g want | None => false end]
    | Some x =>
        match parse_numeral t with
        | None => [false; false; false; false; false; true]
        | Some n =>
            let ip := Qfloor (Qabs x) in
            let v := numeral_Q n in
            [ syntax_ok (c_comp c) n;
              Z.of_nat (length (n_frac n)) <=? c_prec c;
              (match n_frac n with [] => true | _ => sig_digits n <=? 16 end);
              (if 2 ^ 53 <=? ip
               then Qle_bool (Qabs (v - x)) (half_ulp (c_bits c))
               else rounded_to (places (c_prec c) ip) x v);
              (if 2 ^ 53 <=? ip then true
               else rounded_within loop_slack (places (c_prec c) ip) x v);
              true ]
        end
    end
  end.

(* known-finding classes: conditions on the INPUT (precision, value) only *)
Definition non_integer (x : Q) : bool := negb (Qeq_bool (inject_Z (Qfloor x)) x).
(* K1 (F13): precision 0 still prints one fractional digit *)
Definition known_K1 (c : case) : bool :=
  match q_of_bits (c_bits c) with
  | Some x => (c_prec c =? 0) && non_integer x
  | None => false
  end.
(* K2 (F14): integer part 10^k and precision >= 16 - k: 17 significant digits *)
Definition known_K2 (c : case) : bool :=
  match q_of_bits (c_bits c) with
  | Some x => let ip := Qfloor (Qabs x) in
              non_integer x && is_pow10 ip && (16 - (ndigits ip - 1) <=? c_prec c)
  | None => false
  end.
(* K3: non-integer with |x| >= 10^15: 16 integer digits and one fractional digit *)
Definition known_K3 (c : case) : bool :=
  match q_of_bits (c_bits c) with
  | Some x => non_integer x && (10 ^ 15 <=? Qfloor (Qabs x))
  | None => false
  end.

(* K4: |x| lies within 2^-52 of a tie (k + 1/2) * 10^-d at the d places the statement asks for *)
Definition known_K4 (c : case) : bool :=
  match q_of_bits (c_bits c) with
  | Some x =>
      let ip := Qfloor (Qabs x) in
      let d := places (c_prec c) ip in
      let y := (Qabs x * inject_Z (10 ^ d))%Q in
      let t := (inject_Z (Qfloor y) + (1 # 2))%Q in
      Qle_bool (Qabs (y - t)) (loop_slack * inject_Z (10 ^ d))
  | None => false
  end.

(* [corr; syntax; fraclen; class; sig; class; round; class; bounded; nonfinite; finite?] *)
Definition run (c : case) : list Z :=
  match clauses c with
  | [s; l; g; r; bd; nf] =>
      [ corr c; b2z s;
        b2z l; (if known_K1 c then 1 else 0);
        b2z g; (if known_K3 c then 3 else if known_K2 c then 2 else 0);
        b2z r; (if known_K4 c then 4 else 0); b2z bd; b2z nf;
        match q_of_bits (c_bits c) with Some _ => 1 | None => 0 end ]
  | _ => [0; 0; 0; 0; 0; 0; 0; 0; 0; 0; 0]
  end.
