(* C22 runner: model of Rule::write's selector filtering, correspondence with the emitted
   selector text, and the property clauses evaluated on the implementation's output. *)
From Coq Require Import List NArith ZArith Bool.
From RV Require Import Base.Text Model.Sel Model.SelFmt Model.SelAlg Spec.SelVisible.
Import ListNotations.
Local Open Scope list_scope.

(* what the implementation did: c_status 0 = ok, 1 = error, 2 = panic/crash;
   c_out = Some text of the emitted rule's selector, None = no rule emitted *)
Record case := mkCase { c_sel : sels; c_status : N; c_out : option text }.

(* Rule::write: Opt::None -> nothing; an empty selector text is written as `*` *)
Definition model_out (l : sels) : option text :=
  match np_sels l with
  | OSome s => Some (match fmt_sels false s with [] => [42%N] | t => t end)
  | OAny => Some [42%N]
  | ONone => None
  end.

Definition otext_eqb (a b : option text) : bool := opt_eqb text_eqb a b.

Definition corr (c : case) : Z :=
  if negb (N.eqb (c_status c) 0) then 0%Z
  else if otext_eqb (model_out (c_sel c)) (c_out c) then 1%Z else 0%Z.

Definition spec_out (l : sels) : option text :=
  match spec_emitted l with
  | Some v => Some (fmt_sels false v)
  | None => None
  end.

(* clause 1: no `%` reaches the output (names of the generated cases contain no `%`) *)
Definition clause_no_percent (c : case) : bool :=
  N.eqb (c_status c) 0 &&
  match c_out c with Some t => negb (existsb (N.eqb 37) t) | None => true end.

(* clause 2: exactly the selectors that can match something are emitted, with their text and
   order (vacuous for inputs with an empty compound next to a combinator) *)
Definition clause_spec (c : case) : bool :=
  if negb (plain_sels (c_sel c)) then true
  else N.eqb (c_status c) 0 && otext_eqb (spec_out (c_sel c)) (c_out c).

Definition known_K1 (c : case) : Z := if vanish_sels (c_sel c) then 1%Z else 0%Z.

Definition b2z (b : bool) : Z := if b then 1%Z else 0%Z.

Definition run (c : case) : list Z :=
  [corr c; b2z (clause_no_percent c); 0%Z; b2z (clause_spec c); known_K1 c;
   b2z (plain_sels (c_sel c)); b2z (match spec_emitted (c_sel c) with None => true | _ => false end)].
