(* IEEE-754 remainder with truncated quotient (C fmod, Rust `a % b` on f64),
   computed exactly on the representation: the result of fmod is always
   representable, so no rounding takes place. *)
From Coq Require Import ZArith Bool.
From Flocq Require Import Core.Core IEEE754.BinarySingleNaN IEEE754.Binary IEEE754.Bits.
From RV Require Import Base.F64.
Local Open Scope Z_scope.

Definition f_neg_zero : f64 := fneg f_zero.

Definition ffmod (x y : f64) : f64 :=
  match x, y with
  | B754_nan _ _ _ _ _, _ => f_nan
  | _, B754_nan _ _ _ _ _ => f_nan
  | B754_infinity _ _ _, _ => f_nan
  | _, B754_zero _ _ _ => f_nan
  | B754_zero _ _ _, _ => x
  | B754_finite _ _ _ _ _ _, B754_infinity _ _ _ => x
  | B754_finite _ _ sx mx ex _, B754_finite _ _ _ my ey _ =>
      let e := Z.min ex ey in
      let X := Zpos mx * 2 ^ (ex - e) in
      let Y := Zpos my * 2 ^ (ey - e) in
      let R := X mod Y in
      if R =? 0 then (if sx then f_neg_zero else f_zero)
      else
        let v := Binary.binary_normalize 53 1024 (refl_equal _) (refl_equal _) mode_NE R e false in
        if sx then fneg v else v
  end.

(* a float from a natural number (exact below 2^53) *)
Definition f_of_N (n : N) : f64 := f_of_Z (Z.of_N n).

(* numeric agreement of two results: both NaN, or IEEE-equal (so -0 = +0) *)
Definition f_same (a b : f64) : bool := (f_is_nan a && f_is_nan b) || feq a b.
