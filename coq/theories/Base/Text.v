(* Text as `list N`: byte strings and code-point strings; decimal / hex printing. *)
From Coq Require Import List NArith ZArith String Ascii Bool.
Import ListNotations.
Open Scope N_scope.

Definition bytes_of_string (s : string) : list N :=
  map (fun a => N_of_ascii a) (list_ascii_of_string s).

Definition digit_char (d : N) : N := 48 + d.

(* decimal digits of a natural number, most significant first (fuel = number of bits + 1) *)
Fixpoint dec_digits_fuel (fuel : nat) (n : N) (acc : list N) : list N :=
  match fuel with
  | O => acc
  | S f => if n <? 10 then digit_char n :: acc
           else dec_digits_fuel f (n / 10) (digit_char (n mod 10) :: acc)
  end.
Definition dec_of_N (n : N) : list N := dec_digits_fuel (S (N.to_nat (N.size n))) n [].
Definition dec_of_Z (z : Z) : list N :=
  match z with
  | Z0 => [48]
  | Zpos p => dec_of_N (Npos p)
  | Zneg p => 45 :: dec_of_N (Npos p)
  end.

Definition hex_char (d : N) : N := if d <? 10 then 48 + d else 87 + d.   (* lower case *)
Fixpoint hex_digits_fuel (fuel : nat) (n : N) (acc : list N) : list N :=
  match fuel with
  | O => acc
  | S f => if n <? 16 then hex_char n :: acc
           else hex_digits_fuel f (n / 16) (hex_char (n mod 16) :: acc)
  end.
Definition hex_of_N (n : N) : list N := hex_digits_fuel (S (N.to_nat (N.size n))) n [].

(* UTF-8 encoding of one Unicode scalar value *)
Definition utf8_encode1 (c : N) : list N :=
  if c <? 128 then [c]
  else if c <? 2048 then [192 + c / 64; 128 + c mod 64]
  else if c <? 65536 then [224 + c / 4096; 128 + (c / 64) mod 64; 128 + c mod 64]
  else [240 + c / 262144; 128 + (c / 4096) mod 64; 128 + (c / 64) mod 64; 128 + c mod 64].
Definition utf8_encode (cps : list N) : list N := flat_map utf8_encode1 cps.

Fixpoint bytes_eqb (a b : list N) : bool :=
  match a, b with
  | [], [] => true
  | x :: a', y :: b' => (x =? y) && bytes_eqb a' b'
  | _, _ => false
  end.

Definition is_ascii_lower (c : N) : bool := (97 <=? c) && (c <=? 122).
Definition is_ascii_upper (c : N) : bool := (65 <=? c) && (c <=? 90).
Definition is_ascii_digit (c : N) : bool := (48 <=? c) && (c <=? 57).
Definition to_ascii_upper (c : N) : N := if is_ascii_lower c then c - 32 else c.
Definition to_ascii_lower (c : N) : N := if is_ascii_upper c then c + 32 else c.
