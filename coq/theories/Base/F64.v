(* L1: Rust f64 as Flocq binary64, round-to-nearest-even.
   Only operations whose IEEE-754 result is fully specified are modelled. *)
From Coq Require Import ZArith String List Bool.
From Flocq Require Import Core.Core IEEE754.BinarySingleNaN IEEE754.Binary IEEE754.Bits.
From RV Require Import Base.FExpr.
Import ListNotations.
Open Scope Z_scope.

Definition f64 := binary64.

Definition of_bits (z : Z) : f64 := b64_of_bits z.
Definition to_bits (x : f64) : Z := bits_of_b64 x.

Definition fadd (a b : f64) : f64 := b64_plus mode_NE a b.
Definition fsub (a b : f64) : f64 := b64_minus mode_NE a b.
Definition fmul (a b : f64) : f64 := b64_mult mode_NE a b.
Definition fdiv (a b : f64) : f64 := b64_div mode_NE a b.
Definition fsqrt (a : f64) : f64 := b64_sqrt mode_NE a.
Definition fneg (a : f64) : f64 := b64_opp a.
Definition fabs (a : f64) : f64 := b64_abs a.
Definition fcmp (a b : f64) : option comparison := b64_compare a b.

Definition f_is_nan (a : f64) : bool := Binary.is_nan 53 1024 a.
Definition f_is_finite (a : f64) : bool := Binary.is_finite 53 1024 a.
Definition f_is_inf (a : f64) : bool :=
  match a with B754_infinity _ _ _ => true | _ => false end.
Definition f_sign_neg (a : f64) : bool := Binary.Bsign 53 1024 a.

Definition feq (a b : f64) : bool := match fcmp a b with Some Eq => true | _ => false end.
Definition flt (a b : f64) : bool := match fcmp a b with Some Lt => true | _ => false end.
Definition fle (a b : f64) : bool := match fcmp a b with Some Lt | Some Eq => true | _ => false end.
Definition fgt (a b : f64) : bool := match fcmp a b with Some Gt => true | _ => false end.
Definition fge (a b : f64) : bool := match fcmp a b with Some Gt | Some Eq => true | _ => false end.

(* some constants, by bit pattern *)
Definition f_zero : f64 := of_bits 0.
Definition f_one : f64 := of_bits 4607182418800017408.
Definition f_ten : f64 := of_bits 4621819117588971520.
Definition f_nan : f64 := of_bits 9221120237041090560.
Definition f_epsilon : f64 := of_bits 4372995238176751616.      (* f64::EPSILON = 2^-52 *)
Definition f32_epsilon : f64 := of_bits 4503599627370496000.    (* f32::EPSILON as f64 = 2^-23 *)

(* bit pattern with every NaN mapped to one representative: what may be compared *)
Definition canon_bits (x : f64) : Z := if f_is_nan x then 9221120237041090560 else to_bits x.

(* integer conversions *)
Definition f_of_Z (z : Z) : f64 :=
  Binary.binary_normalize 53 1024 (refl_equal _) (refl_equal _) mode_NE z 0 false.

(* trunc toward zero as an integer (None for NaN / infinities) *)
Definition f_trunc_Z (x : f64) : option Z :=
  match x with
  | B754_zero _ _ _ => Some 0
  | B754_finite _ _ s m e _ =>
      let v := if (0 <=? e) then (Zpos m) * 2 ^ e else (Zpos m) / 2 ^ (- e) in
      Some (if s then - v else v)
  | _ => None
  end.

(* x.trunc() as a float *)
Definition ftrunc (x : f64) : f64 :=
  match x with
  | B754_finite _ _ s m e _ =>
      if (0 <=? e) then x
      else match f_trunc_Z x with
           | Some 0 => if s then fneg f_zero else f_zero
           | Some z => f_of_Z z
           | None => x
           end
  | _ => x
  end.

(* x.fract() = x - x.trunc() *)
Definition ffract (x : f64) : f64 := fsub x (ftrunc x).

(* floor / ceil / round (half away from zero), as floats *)
Definition ffloor (x : f64) : f64 :=
  let t := ftrunc x in
  if f_is_finite x && flt x t then fsub t f_one else t.
Definition fceil (x : f64) : f64 :=
  let t := ftrunc x in
  if f_is_finite x && flt t x then
    (let r := fadd t f_one in
     if feq r f_zero && f_sign_neg x then fneg f_zero else r)
  else t.
Definition f_half : f64 := of_bits 4602678819172646912.
Definition fround (x : f64) : f64 :=
  (* Rust f64::round: half away from zero; exact on the representation *)
  match x with
  | B754_finite _ _ s m e _ =>
      if (0 <=? e) then x else
      let a := fabs x in
      let t := ftrunc a in
      let d := fsub a t in                 (* exact: same binade or below *)
      let r := if fge d f_half then fadd t f_one else t in
      if s then fneg r else r
  | _ => x
  end.

(* Rust `x as i64` (saturating, NaN -> 0) *)
Definition i64_min : Z := - 2 ^ 63.
Definition i64_max : Z := 2 ^ 63 - 1.
Definition f_as_i64 (x : f64) : Z :=
  match x with
  | B754_nan _ _ _ _ _ => 0
  | B754_infinity _ _ s => if s then i64_min else i64_max
  | _ => match f_trunc_Z x with
         | Some z => Z.max i64_min (Z.min i64_max z)
         | None => 0
         end
  end.
Definition f_as_sat (lo hi : Z) (x : f64) : Z :=
  match x with
  | B754_nan _ _ _ _ _ => 0
  | B754_infinity _ _ s => if s then lo else hi
  | _ => match f_trunc_Z x with
         | Some z => Z.max lo (Z.min hi z)
         | None => 0
         end
  end.

(* named std constants that appear in source tables *)
Definition f_const (name : string) : option f64 :=
  if String.eqb name "FRAC_1_PI" then Some (of_bits 4599405781057128579)
  else if String.eqb name "PI" then Some (of_bits 4614256656552045848)
  else if String.eqb name "EPSILON" then Some f_epsilon
  else None.

Fixpoint feval (e : fexpr) : option f64 :=
  match e with
  | FLit b => Some (of_bits b)
  | FConst n => f_const n
  | FDiv a b => match feval a, feval b with Some x, Some y => Some (fdiv x y) | _, _ => None end
  | FMul a b => match feval a, feval b with Some x, Some y => Some (fmul x y) | _, _ => None end
  end.

(* x.powi(n) for small n as repeated multiplication is NOT what Rust's powi
   computes bit-for-bit (llvm.powi); callers that need powi restrict to
   exponents -1, 0, 1 where the result is exact: x, 1, 1/x. *)
Definition fpowi_small (x : f64) (n : Z) : option f64 :=
  if n =? 0 then Some f_one
  else if n =? 1 then Some x
  else if n =? -1 then Some (fdiv f_one x)
  else None.

(* exact value of a finite float as a rational m * 2^e *)
Definition f_to_Q (x : f64) : option (Z * Z) :=
  match x with
  | B754_zero _ _ _ => Some (0, 0)
  | B754_finite _ _ s m e _ => Some ((if s then - Zpos m else Zpos m), e)
  | _ => None
  end.

(* Rust f64::max / f64::min: the non-NaN operand wins *)
Definition fmax (a b : f64) : f64 :=
  if f_is_nan a then b else if f_is_nan b then a else if flt a b then b else a.
Definition fmin (a b : f64) : f64 :=
  if f_is_nan a then b else if f_is_nan b then a else if flt b a then b else a.
