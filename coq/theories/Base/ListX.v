(* List helpers shared by the models and proofs. *)
From Coq Require Import List Bool.
Import ListNotations.

(* lifting finite sweeps decided by vm_compute to universally quantified statements *)
Lemma sweep1 {A} (l : list A) (P : A -> bool) :
  forallb P l = true -> forall u, In u l -> P u = true.
Proof. intros H u Hu. rewrite forallb_forall in H. exact (H u Hu). Qed.

Lemma sweep2 {A B} (l : list A) (m : list B) (P : A -> B -> bool) :
  forallb (fun u => forallb (P u) m) l = true -> forall u v, In u l -> In v m -> P u v = true.
Proof.
  intros H u v Hu Hv. rewrite forallb_forall in H. specialize (H u Hu).
  rewrite forallb_forall in H. exact (H v Hv).
Qed.

Fixpoint list_eqb {A} (eqb : A -> A -> bool) (a b : list A) : bool :=
  match a, b with
  | [], [] => true
  | x :: a', y :: b' => eqb x y && list_eqb eqb a' b'
  | _, _ => false
  end.
