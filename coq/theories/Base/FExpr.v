(* Constant f64 expressions as they appear in Rust source tables (T1 output). *)
From Coq Require Import String ZArith.

Inductive fexpr : Type :=
| FLit (bits : Z)            (* a float literal, as its IEEE-754 binary64 bit pattern *)
| FConst (name : string)     (* a named std constant, e.g. FRAC_1_PI *)
| FDiv (a b : fexpr)
| FMul (a b : fexpr).
