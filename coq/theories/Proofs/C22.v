(* C22 proofs: no_placeholder on the four levels (Model/SelAlg.v). *)
From Coq Require Import List NArith ZArith Bool Lia.
From RV Require Import Base.Text Model.Sel Model.SelFmt Model.SelAlg Spec.SelVisible Run.C22.
Import ListNotations.
Import String.StringSyntax.
Local Open Scope string_scope.
Local Open Scope list_scope.

(* ---------- Opt::collect_pos / collect_neg as filter-maps ---------- *)
Definition is_any {T} (o : opt T) : bool := match o with OAny => true | _ => false end.
Definition is_onone {T} (o : opt T) : bool := match o with ONone => true | _ => false end.
Definition somes {T} (l : list (opt T)) : list T :=
  flat_map (fun o => match o with OSome t => [t] | _ => [] end) l.

Lemma somes_cons {T} (o : opt T) l :
  somes (o :: l) = match o with OSome t => [t] | _ => [] end ++ somes l.
Proof. reflexivity. Qed.

Lemma collect_pos_go_spec {T} (l : list (opt T)) acc :
  collect_pos_go l acc =
  if existsb is_any l then OAny
  else match rev acc ++ somes l with [] => ONone | x => OSome x end.
Proof.
  revert acc; induction l as [|o l IH]; intros acc; cbn.
  - rewrite app_nil_r. destruct acc as [|a acc]; cbn; [reflexivity|].
    destruct (rev acc ++ [a]) eqn:E; [|reflexivity]. destruct (rev acc); discriminate.
  - destruct o; cbn.
    + rewrite IH. cbn. rewrite <- app_assoc. reflexivity.
    + reflexivity.
    + apply IH.
Qed.

Lemma collect_pos_spec {T} (l : list (opt T)) :
  collect_pos l = if existsb is_any l then OAny else match somes l with [] => ONone | x => OSome x end.
Proof. unfold collect_pos. rewrite collect_pos_go_spec. reflexivity. Qed.

Lemma collect_neg_go_spec {T} (l : list (opt T)) acc :
  collect_neg_go l acc =
  if existsb is_onone l then ONone
  else match rev acc ++ somes l with [] => OAny | x => OSome x end.
Proof.
  revert acc; induction l as [|o l IH]; intros acc; cbn.
  - rewrite app_nil_r. destruct acc as [|a acc]; cbn; [reflexivity|].
    destruct (rev acc ++ [a]) eqn:E; [|reflexivity]. destruct (rev acc); discriminate.
  - destruct o; cbn.
    + rewrite IH. cbn. rewrite <- app_assoc. reflexivity.
    + apply IH.
    + reflexivity.
Qed.

Lemma collect_neg_spec {T} (l : list (opt T)) :
  collect_neg l = if existsb is_onone l then ONone else match somes l with [] => OAny | x => OSome x end.
Proof. unfold collect_neg. rewrite collect_neg_go_spec. reflexivity. Qed.

Arguments somes : simpl never.

(* Selector::no_placeholder and CompoundSelector::no_placeholder never answer Any *)
Lemma np_comp_not_any c : np_comp c <> OAny.
Proof.
  destruct c as [b ps]; cbn. destruct (negb (is_nil (b_phs b))); [discriminate|].
  destruct (collect_neg (map np_pseudo ps)); discriminate.
Qed.

Lemma np_sel_not_any s : np_sel s <> OAny.
Proof.
  destruct s as [rel c]; cbn. destruct (np_comp c) eqn:E.
  - destruct (comp_is_empty c && negb (is_none rel)); [discriminate|].
    destruct rel as [[k r]|]; [|discriminate]. destruct (np_sel r); discriminate.
  - exfalso; exact (np_comp_not_any c E).
  - discriminate.
Qed.

Lemma np_sel_char rel c :
  np_sel (Sel rel c) =
  match np_comp c with
  | OSome c' =>
      if comp_is_empty c && negb (is_none rel) then ONone
      else match rel with
           | Some (k, r) =>
               match np_sel r with
               | OSome r' => OSome (Sel (Some (k, r')) c')
               | OAny => OSome (Sel None c')
               | ONone => ONone
               end
           | None => OSome (Sel None c')
           end
  | _ => ONone
  end.
Proof.
  cbn [np_sel]. destruct (np_comp c) eqn:E; try reflexivity. exfalso; exact (np_comp_not_any c E).
Qed.

Lemma np_comp_char b ps :
  np_comp (Comp b ps) =
  if negb (is_nil (b_phs b)) then ONone
  else match collect_neg (map np_pseudo ps) with
       | OSome p => OSome (Comp b p)
       | OAny => OSome (Comp b [])
       | ONone => ONone
       end.
Proof. reflexivity. Qed.

Lemma np_sels_no_any l : existsb is_any (map np_sel l) = false.
Proof.
  induction l as [|s l IH]; cbn; [reflexivity|]. rewrite IH, orb_false_r.
  destruct (np_sel s) eqn:E; try reflexivity. exfalso; exact (np_sel_not_any s E).
Qed.

(* SelectorSet::no_placeholder is an order preserving filter-map *)
Definition survivors (l : sels) : sels :=
  flat_map (fun s => match np_sel s with OSome t => [t] | _ => [] end) l.

Lemma survivors_cons s l :
  survivors (s :: l) = match np_sel s with OSome t => [t] | _ => [] end ++ survivors l.
Proof. reflexivity. Qed.
Arguments survivors : simpl never.

Lemma somes_map_np l : somes (map np_sel l) = survivors l.
Proof. unfold somes, survivors. rewrite flat_map_concat_map, map_map, <- flat_map_concat_map. reflexivity. Qed.

Lemma np_sels_spec l :
  np_sels l = match survivors l with [] => ONone | x => OSome x end.
Proof. unfold np_sels. rewrite collect_pos_spec, np_sels_no_any, somes_map_np. reflexivity. Qed.

Lemma np_pseudo_char n e l :
  np_pseudo (Pseudo n e (ArgSel l)) =
  match survivors l with
  | [] => if name_in n [str "not"] then OAny else ONone
  | t => if name_in n [str "is"] then
           match nlc_sels t with
           | OSome t' => OSome (Pseudo n e (ArgSel t'))
           | OAny => OAny
           | ONone => ONone
           end
         else OSome (Pseudo n e (ArgSel t))
  end.
Proof.
  cbn [np_pseudo]. fold (np_sels l). rewrite np_sels_spec.
  destruct (survivors l); cbn [opt_map]; destruct (name_in n [str "not"]); reflexivity.
Qed.

(* ---------- "contains a placeholder" ---------- *)
Fixpoint hasph_sel (s : sel) : bool :=
  match s with
  | Sel rel c => hasph_comp c || match rel with Some (_, r) => hasph_sel r | None => false end
  end
with hasph_comp (c : compound) : bool :=
  match c with Comp b ps => negb (is_nil (b_phs b)) || existsb hasph_pseudo ps end
with hasph_pseudo (p : pseudo) : bool :=
  match p with
  | Pseudo _ _ (ArgSel l) => existsb hasph_sel l
  | Pseudo _ _ _ => false
  end.
Definition hasph_sels (l : sels) : bool := existsb hasph_sel l.

(* a complex selector one of whose own compounds carries a placeholder *)
Fixpoint top_ph (s : sel) : bool :=
  match s with
  | Sel rel c => negb (is_nil (b_phs (c_base c))) || match rel with Some (_, r) => top_ph r | None => false end
  end.

Definition arg_forall (P : sel -> Prop) (a : parg) : Prop :=
  match a with ArgSel l => Forall P l | _ => True end.

Lemma existsb_false_Forall {A} (f : A -> bool) l : existsb f l = false <-> Forall (fun x => f x = false) l.
Proof.
  induction l; cbn; split; intros H; auto.
  - apply orb_false_iff in H as [H1 H2]. constructor; [assumption | apply IHl; assumption].
  - inversion H; subst. apply orb_false_iff; split; [assumption | apply IHl; assumption].
Qed.

Lemma survivors_clean l :
  Forall (fun s => forall s', np_sel s = OSome s' -> hasph_sel s' = false) l ->
  existsb hasph_sel (survivors l) = false.
Proof.
  induction 1 as [|s l Hs _ IH]; [reflexivity|]. rewrite survivors_cons.
  rewrite existsb_app, IH, orb_false_r. destruct (np_sel s) eqn:E; cbn; try reflexivity.
  rewrite (Hs _ eq_refl). reflexivity.
Qed.

Lemma nlc_sels_sub (t t' : sels) : nlc_sels t = OSome t' -> forall x, In x t' -> In x t.
Proof.
  unfold nlc_sels. rewrite collect_pos_spec.
  destruct (existsb is_any (map nlc_sel t)); [discriminate|].
  destruct (somes (map nlc_sel t)) eqn:E; [discriminate|]. intros H; inversion H; subst; clear H.
  intros x Hx. rewrite <- E in Hx. unfold somes in Hx. apply in_flat_map in Hx as [o [Ho Hx]].
  apply in_map_iff in Ho as [y [Hy Hin]]. subst o. unfold nlc_sel in Hx.
  destruct (has_leading_combinator y); cbn in Hx; [contradiction|]. destruct Hx as [->|[]]. exact Hin.
Qed.

Lemma clean_all :
  (forall s, forall s', np_sel s = OSome s' -> hasph_sel s' = false)
  /\ (forall c, forall c', np_comp c = OSome c' -> hasph_comp c' = false)
  /\ (forall p, forall p', np_pseudo p = OSome p' -> hasph_pseudo p' = false)
  /\ (forall a, arg_forall (fun s => forall s', np_sel s = OSome s' -> hasph_sel s' = false) a).
Proof.
  apply sel_mutind.
  - (* Sel None *)
    intros c IHc s' H. rewrite np_sel_char in H. destruct (np_comp c) eqn:E; try discriminate.
    cbn [is_none negb] in H. rewrite andb_false_r in H. inversion H; subst. cbn. rewrite (IHc _ eq_refl). reflexivity.
  - (* Sel Some *)
    intros k s c IHs IHc s' H. rewrite np_sel_char in H. destruct (np_comp c) eqn:E; try discriminate.
    destruct (comp_is_empty c && negb (is_none (Some (k, s)))); [discriminate|].
    destruct (np_sel s) eqn:Es; try discriminate.
    + inversion H; subst. cbn. rewrite (IHc _ eq_refl), (IHs _ eq_refl). reflexivity.
    + inversion H; subst. cbn. rewrite (IHc _ eq_refl). reflexivity.
  - (* Comp *)
    intros b ps IH c' H. rewrite np_comp_char in H. destruct (is_nil (b_phs b)) eqn:Eb; cbn [negb] in H; [|discriminate].
    rewrite collect_neg_spec in H. destruct (existsb is_onone (map np_pseudo ps)); [discriminate|].
    assert (Hc : existsb hasph_pseudo (somes (map np_pseudo ps)) = false).
    { clear H. induction IH as [|p ps Hp _ IHps]; [reflexivity|]. cbn [map]. rewrite somes_cons.
      rewrite existsb_app, IHps, orb_false_r. destruct (np_pseudo p) eqn:E; cbn; try reflexivity.
      rewrite (Hp _ eq_refl). reflexivity. }
    destruct (somes (map np_pseudo ps)) eqn:E; inversion H; subst; cbn; rewrite Eb; cbn; [reflexivity|].
    exact Hc.
  - (* Pseudo *)
    intros n e a IH p' H. destruct a as [l| |]; try (cbn in H; inversion H; subst; reflexivity).
    cbn in IH. rewrite np_pseudo_char in H.
    pose proof (survivors_clean l IH) as Hcl.
    destruct (survivors l) as [|x t] eqn:Et.
    + destruct (name_in n [str "not"]); discriminate.
    + cbv zeta in H. destruct (name_in n [str "is"]).
      * destruct (nlc_sels (x :: t)) eqn:En; try discriminate. inversion H; subst; cbn.
        apply existsb_false_Forall. apply Forall_forall. intros y Hy.
        apply (nlc_sels_sub _ _ En) in Hy. apply existsb_false_Forall in Hcl.
        rewrite Forall_forall in Hcl. exact (Hcl y Hy).
      * inversion H; subst. exact Hcl.
  - intros l H; exact H.
  - intros; exact I.
  - exact I.
Qed.

Lemma clean_sel s s' : np_sel s = OSome s' -> hasph_sel s' = false.
Proof. apply clean_all. Qed.

Lemma clean_sels l l' : np_sels l = OSome l' -> hasph_sels l' = false.
Proof.
  rewrite np_sels_spec. intros H.
  assert (existsb hasph_sel (survivors l) = false).
  { apply survivors_clean. apply Forall_forall. intros s _ s'. apply clean_sel. }
  destruct (survivors l); inversion H; subst. exact H0.
Qed.

(* a placeholder in one of the selector's own compounds removes it *)
Lemma removed_top s : top_ph s = true -> np_sel s = ONone.
Proof.
  induction s as [c _|k s c IHs _| | | | |] using sel_ind'
    with (Pc := fun _ => True) (Pp := fun _ => True) (Pa := fun _ => True); auto.
  - rewrite np_sel_char. destruct c as [b ps]. rewrite np_comp_char. cbn [top_ph c_base].
    rewrite orb_false_r. intros H. rewrite H. reflexivity.
  - rewrite np_sel_char. destruct c as [b ps]. rewrite np_comp_char. cbn [top_ph c_base].
    intros H. apply orb_true_iff in H as [H|H].
    + rewrite H. reflexivity.
    + rewrite (IHs H). destruct (negb (is_nil (b_phs b))); [reflexivity|].
      destruct (collect_neg (map np_pseudo ps)); try reflexivity;
      destruct (comp_is_empty (Comp b ps) && negb (is_none (Some (k, s)))); reflexivity.
Qed.

Lemma order_spec l l' :
  np_sels l = OSome l' -> l' = survivors l /\ l' <> [].
Proof. rewrite np_sels_spec. destruct (survivors l); intros H; inversion H; subst. split; [reflexivity|discriminate]. Qed.

Lemma rule_skipped l :
  model_out l = None <-> (forall s, In s l -> forall t, np_sel s <> OSome t).
Proof.
  unfold model_out. rewrite np_sels_spec. split.
  - intros H s Hs t Ht. destruct (survivors l) eqn:E; [|discriminate].
    assert (In t (survivors l)).
    { unfold survivors. apply in_flat_map. exists s; split; [assumption|]. rewrite Ht. left; reflexivity. }
    rewrite E in H0. contradiction.
  - intros H. destruct (survivors l) as [|x r] eqn:E; [reflexivity|]. exfalso.
    assert (Hx : In x (survivors l)) by (rewrite E; left; reflexivity).
    unfold survivors in Hx. apply in_flat_map in Hx as [s [Hs Hx]].
    destruct (np_sel s) eqn:Es; cbn in Hx; try contradiction. destruct Hx as [->|[]].
    exact (H s Hs x Es).
Qed.

(* ---------- agreement with the Sass semantics (Spec/SelVisible.v) ---------- *)
Definition spec_np_sel (s : sel) : opt sel := if inv_sel s then ONone else OSome (strip_sel s).

Definition leading_free_is (p : pseudo) : bool := true.

(* extra side condition: members of an `:is()` argument keep no leading combinator after the
   filtering (true of plain selectors without vanishing compounds, shown below) *)
Lemma hlc_plain s : plain_sel s = true -> has_leading_combinator s = false.
Proof.
  induction s as [c _|k s c IHs _| | | | |] using sel_ind'
    with (Pc := fun _ => True) (Pp := fun _ => True) (Pa := fun _ => True); auto.
  cbn. intros H. apply andb_true_iff in H as [H1 H2]. specialize (IHs H2).
  destruct s as [[[k' r]|] c']; [exact IHs|].
  cbn in H2. unfold is_local_empty; cbn. rewrite andb_true_r in H2.
  apply andb_true_iff in H2 as [H2 _]. apply negb_true_iff in H2. exact H2.
Qed.

Lemma strip_emptiness c : vanish_comp c = false -> comp_is_empty (strip_comp c) = comp_is_empty c.
Proof.
  destruct c as [b ps]; cbn -[comp_is_empty]. intros H. apply orb_false_iff in H as [H _].
  destruct (comp_is_empty (Comp b ps)) eqn:E.
  - cbn in E. cbn. destruct ps; [|rewrite !andb_false_r in E; discriminate]. cbn. exact E.
  - cbn -[comp_is_empty] in H. exact H.
Qed.

Definition good_sel (s : sel) : Prop := plain_sel s = true /\ vanish_sel s = false.

Lemma plain_strip_all :
  (forall s, plain_sel s = true -> vanish_sel s = false -> inv_sel s = false -> plain_sel (strip_sel s) = true)
  /\ (forall c, plain_comp c = true -> vanish_comp c = false -> inv_comp c = false -> plain_comp (strip_comp c) = true)
  /\ (forall p, plain_pseudo p = true -> vanish_pseudo p = false -> inv_pseudo p = false ->
                forallb plain_pseudo (strip_pseudo p) = true)
  /\ (forall a, arg_forall (fun s => plain_sel s = true -> vanish_sel s = false -> inv_sel s = false ->
                                     plain_sel (strip_sel s) = true) a).
Proof.
  apply sel_mutind.
  - intros c IHc Hp Hv Hi. cbn -[comp_is_empty] in *. rewrite andb_true_r in Hp. rewrite orb_false_r in Hv, Hi.
    apply andb_true_iff in Hp as [Hp1 Hp2]. rewrite (strip_emptiness c Hv), Hp1. cbn.
    rewrite (IHc Hp2 Hv Hi). reflexivity.
  - intros k s c IHs IHc Hp Hv Hi. cbn -[comp_is_empty] in *.
    apply andb_true_iff in Hp as [Hp Hp3]. apply andb_true_iff in Hp as [Hp1 Hp2].
    apply orb_false_iff in Hv as [Hv1 Hv2]. apply orb_false_iff in Hi as [Hi1 Hi2].
    rewrite (strip_emptiness c Hv1), Hp1, (IHc Hp2 Hv1 Hi1), (IHs Hp3 Hv2 Hi2). reflexivity.
  - intros b ps IH Hp Hv Hi. cbn -[comp_is_empty] in *.
    apply orb_false_iff in Hv as [_ Hv]. apply orb_false_iff in Hi as [_ Hi].
    induction IH as [|p ps Hp' _ IHps]; cbn; [reflexivity|].
    cbn in Hp, Hv, Hi. apply andb_true_iff in Hp as [Hp1 Hp2].
    apply orb_false_iff in Hv as [Hv1 Hv2]. apply orb_false_iff in Hi as [Hi1 Hi2].
    rewrite forallb_app, (Hp' Hp1 Hv1 Hi1), (IHps Hp2 Hv2 Hi2). reflexivity.
  - intros n e a IH Hp Hv Hi. destruct a as [l| |]; try reflexivity. cbn [strip_pseudo].
    cbn in IH, Hp, Hv. apply andb_true_iff in Hp as [Hp0 Hp].
    assert (Hall : forallb plain_sel (flat_map (fun s => if inv_sel s then [] else [strip_sel s]) l) = true).
    { clear Hi Hp0. induction IH as [|s l Hs _ IHl]; cbn; [reflexivity|].
      cbn in Hp, Hv. apply andb_true_iff in Hp as [Hp1 Hp2]. apply orb_false_iff in Hv as [Hv1 Hv2].
      rewrite forallb_app, (IHl Hp2 Hv2), andb_true_r. destruct (inv_sel s) eqn:E; cbn; [reflexivity|].
      rewrite (Hs Hp1 Hv1 eq_refl). reflexivity. }
    destruct (flat_map (fun s => if inv_sel s then [] else [strip_sel s]) l) as [|x t] eqn:E.
    + destruct (spec_is_not n); cbn; [reflexivity|]. rewrite Hp0, Hp. reflexivity.
    + cbn [forallb plain_pseudo]. cbn [forallb] in Hall. rewrite andb_true_r. cbn [is_nil negb andb]. exact Hall.
  - intros l H; exact H.
  - intros; exact I.
  - exact I.
Qed.

Lemma survivors_spec l :
  Forall (fun s => plain_sel s = true -> vanish_sel s = false -> np_sel s = spec_np_sel s) l ->
  forallb plain_sel l = true -> existsb vanish_sel l = false ->
  survivors l = flat_map (fun s => if inv_sel s then [] else [strip_sel s]) l.
Proof.
  induction 1 as [|s l Hs _ IH]; intros Hp Hv; [reflexivity|]. rewrite survivors_cons. cbn [flat_map].
  cbn in Hp, Hv. apply andb_true_iff in Hp as [Hp1 Hp2]. apply orb_false_iff in Hv as [Hv1 Hv2].
  rewrite (IH Hp2 Hv2), (Hs Hp1 Hv1). unfold spec_np_sel. destruct (inv_sel s); reflexivity.
Qed.

Lemma nlc_plain_id (t : sels) : t <> [] -> forallb plain_sel t = true -> nlc_sels t = OSome t.
Proof.
  intros Hne Hp. unfold nlc_sels. rewrite collect_pos_spec.
  assert (H1 : existsb is_any (map nlc_sel t) = false).
  { clear. induction t; cbn; [reflexivity|]. rewrite IHt, orb_false_r. unfold nlc_sel.
    destruct (has_leading_combinator a); reflexivity. }
  assert (H2 : somes (map nlc_sel t) = t).
  { clear Hne H1. induction t as [|s t IH]; cbn; [reflexivity|]. cbn in Hp.
    apply andb_true_iff in Hp as [Hp1 Hp2]. unfold nlc_sel at 1. rewrite (hlc_plain s Hp1).
    rewrite somes_cons. cbn [app]. f_equal. apply IH. exact Hp2. }
  rewrite H1, H2. destruct t; [contradiction|reflexivity].
Qed.

Definition spec_np_pseudo (p : pseudo) : opt pseudo :=
  if inv_pseudo p then ONone
  else match strip_pseudo p with [] => OAny | q :: _ => OSome q end.

Lemma semantics_all :
  (forall s, plain_sel s = true -> vanish_sel s = false -> np_sel s = spec_np_sel s)
  /\ (forall c, plain_comp c = true -> vanish_comp c = false ->
                np_comp c = if inv_comp c then ONone else OSome (strip_comp c))
  /\ (forall p, plain_pseudo p = true -> vanish_pseudo p = false -> np_pseudo p = spec_np_pseudo p)
  /\ (forall a, arg_forall (fun s => plain_sel s = true -> vanish_sel s = false -> np_sel s = spec_np_sel s) a).
Proof.
  apply sel_mutind.
  - intros c IHc Hp Hv. unfold spec_np_sel. cbn -[comp_is_empty] in *.
    rewrite andb_true_r in Hp. rewrite orb_false_r in Hv. rewrite orb_false_r.
    apply andb_true_iff in Hp as [Hp1 Hp2]. rewrite (IHc Hp2 Hv).
    destruct (inv_comp c); [reflexivity|]. rewrite andb_false_r. reflexivity.
  - intros k s c IHs IHc Hp Hv. unfold spec_np_sel. cbn -[comp_is_empty] in *.
    apply andb_true_iff in Hp as [Hp Hp3]. apply andb_true_iff in Hp as [Hp1 Hp2].
    apply orb_false_iff in Hv as [Hv1 Hv2]. rewrite (IHc Hp2 Hv1), (IHs Hp3 Hv2).
    apply negb_true_iff in Hp1. rewrite Hp1. cbn. unfold spec_np_sel.
    destruct (inv_comp c); [reflexivity|]. cbn. destruct (inv_sel s); reflexivity.
  - intros b ps IH Hp Hv. cbn -[comp_is_empty] in *. apply orb_false_iff in Hv as [_ Hv].
    destruct (is_nil (b_phs b)); cbn; [|reflexivity].
    rewrite collect_neg_spec.
    assert (H1 : existsb is_onone (map np_pseudo ps) = existsb inv_pseudo ps
                 /\ (existsb inv_pseudo ps = false -> somes (map np_pseudo ps) = flat_map strip_pseudo ps)).
    { induction IH as [|p ps Hp' _ IHps]; [split; reflexivity|].
      cbn [map existsb flat_map]. rewrite somes_cons.
      cbn in Hp, Hv. apply andb_true_iff in Hp as [Hp1 Hp2]. apply orb_false_iff in Hv as [Hv1 Hv2].
      destruct (IHps Hp2 Hv2) as [E1 E2]. rewrite (Hp' Hp1 Hv1), E1. unfold spec_np_pseudo.
      destruct (inv_pseudo p) eqn:Ei; cbn; [split; [reflexivity|discriminate]|].
      assert (Hlen : strip_pseudo p = [] \/ exists q, strip_pseudo p = [q]).
      { destruct p as [n e [l| |]]; cbn; try (right; eexists; reflexivity).
        destruct (flat_map (fun s => if inv_sel s then [] else [strip_sel s]) l);
          [destruct (spec_is_not n); [left; reflexivity | right; eexists; reflexivity]
          | right; eexists; reflexivity]. }
      destruct Hlen as [Hl|[q Hl]]; rewrite Hl; cbn; (split; [reflexivity|]); intros H0;
        rewrite (E2 H0); reflexivity. }
    destruct H1 as [E1 E2]. rewrite E1. destruct (existsb inv_pseudo ps) eqn:Ei; [reflexivity|].
    rewrite (E2 eq_refl). destruct (flat_map strip_pseudo ps); reflexivity.
  - intros n e a IH Hp Hv. unfold spec_np_pseudo.
    destruct a as [l| |]; try reflexivity.
    cbn [arg_forall] in IH. cbn [plain_pseudo] in Hp. cbn [vanish_pseudo] in Hv.
    apply andb_true_iff in Hp as [Hp0 Hp].
    rewrite np_pseudo_char.
    rewrite (survivors_spec l IH Hp Hv). cbn [inv_pseudo strip_pseudo]. unfold spec_is_not.
    assert (Hinv : forallb inv_sel l = is_nil (flat_map (fun s => if inv_sel s then [] else [strip_sel s]) l)).
    { clear. induction l as [|s l IHl]; cbn; [reflexivity|]. rewrite IHl. destruct (inv_sel s); reflexivity. }
    assert (Hpl : forallb plain_sel (flat_map (fun s => if inv_sel s then [] else [strip_sel s]) l) = true).
    { clear IH Hp0 Hinv. induction l as [|s l IHl]; cbn; [reflexivity|]. cbn in Hp, Hv.
      apply andb_true_iff in Hp as [Hp1 Hp2]. apply orb_false_iff in Hv as [Hv1 Hv2].
      rewrite forallb_app, (IHl Hp2 Hv2), andb_true_r. destruct (inv_sel s) eqn:E; cbn; [reflexivity|].
      rewrite (proj1 plain_strip_all s Hp1 Hv1 E). reflexivity. }
    destruct (flat_map (fun s => if inv_sel s then [] else [strip_sel s]) l) as [|x t] eqn:E.
    + rewrite Hinv. cbn [is_nil]. destruct (name_in n [str "not"]); reflexivity.
    + rewrite Hinv. cbn [is_nil]. cbv zeta.
      destruct (name_in n [str "is"]) eqn:Eis.
      * rewrite (nlc_plain_id (x :: t)); [|discriminate|exact Hpl].
        destruct (name_in n [str "not"]); reflexivity.
      * destruct (name_in n [str "not"]); reflexivity.
  - intros l H; exact H.
  - intros; exact I.
  - exact I.
Qed.

Lemma semantics_sels l :
  plain_sels l = true -> vanish_sels l = false ->
  np_sels l = match spec_visible l with [] => ONone | v => OSome v end.
Proof.
  intros Hp Hv. rewrite np_sels_spec. unfold spec_visible.
  rewrite (survivors_spec l); [reflexivity| |exact Hp|exact Hv].
  apply Forall_forall. intros s _. apply semantics_all.
Qed.

(* identity on placeholder-free plain selectors *)
Definition noph_goal (s : sel) : Prop :=
  hasph_sel s = false -> plain_sel s = true -> inv_sel s = false /\ vanish_sel s = false /\ strip_sel s = s.

Lemma noph_list l :
  Forall noph_goal l -> existsb hasph_sel l = false -> forallb plain_sel l = true ->
  flat_map (fun s => if inv_sel s then [] else [strip_sel s]) l = l
  /\ existsb vanish_sel l = false /\ existsb inv_sel l = false.
Proof.
  induction 1 as [|s l Hs _ IH]; intros Hh Hp; [repeat split; reflexivity|].
  cbn in Hh, Hp. apply orb_false_iff in Hh as [Hh1 Hh2]. apply andb_true_iff in Hp as [Hp1 Hp2].
  destruct (Hs Hh1 Hp1) as [A [B C]]. destruct (IH Hh2 Hp2) as [A' [B' C']].
  cbn. rewrite A, B, C, A', B', C'. repeat split; reflexivity.
Qed.

Lemma noph_all :
  (forall s, noph_goal s)
  /\ (forall c, hasph_comp c = false -> plain_comp c = true ->
                inv_comp c = false /\ vanish_comp c = false /\ strip_comp c = c)
  /\ (forall p, hasph_pseudo p = false -> plain_pseudo p = true ->
                inv_pseudo p = false /\ vanish_pseudo p = false /\ strip_pseudo p = [p])
  /\ (forall a, arg_forall noph_goal a).
Proof.
  apply sel_mutind.
  - intros c IHc Hh Hp. cbn -[comp_is_empty] in *. rewrite orb_false_r in Hh. rewrite andb_true_r in Hp.
    apply andb_true_iff in Hp as [Hp1 Hp2]. destruct (IHc Hh Hp2) as [A [B C]].
    rewrite A, B, C. repeat split; reflexivity.
  - intros k s c IHs IHc Hh Hp. cbn -[comp_is_empty] in *.
    apply orb_false_iff in Hh as [Hh1 Hh2].
    apply andb_true_iff in Hp as [Hp Hp3]. apply andb_true_iff in Hp as [Hp1 Hp2].
    destruct (IHc Hh1 Hp2) as [A [B C]]. destruct (IHs Hh2 Hp3) as [A' [B' C']].
    rewrite A, B, C, A', B', C'. repeat split; reflexivity.
  - intros b ps IH Hh Hp. cbn -[comp_is_empty] in Hh, Hp. apply orb_false_iff in Hh as [Hh1 Hh2].
    assert (H : flat_map strip_pseudo ps = ps /\ existsb vanish_pseudo ps = false /\ existsb inv_pseudo ps = false).
    { clear Hh1. induction IH as [|p ps Hp' _ IHps]; [repeat split; reflexivity|].
      cbn in Hh2, Hp. apply orb_false_iff in Hh2 as [Hh1 Hh2]. apply andb_true_iff in Hp as [Hp1 Hp2].
      destruct (Hp' Hh1 Hp1) as [A [B C]]. destruct (IHps Hh2 Hp2) as [A' [B' C']].
      cbn. rewrite A, B, C, A', B', C'. repeat split; reflexivity. }
    destruct H as [A [B C]]. cbn -[comp_is_empty]. rewrite A, B, C, Hh1.
    destruct (comp_is_empty (Comp b ps)); repeat split; reflexivity.
  - intros n e a IH Hh Hp. destruct a as [l| |]; try (repeat split; reflexivity).
    cbn [arg_forall] in IH. cbn [hasph_pseudo] in Hh. cbn [plain_pseudo] in Hp.
    apply andb_true_iff in Hp as [Hp0 Hp]. destruct (noph_list l IH Hh Hp) as [A [B C]].
    cbn [inv_pseudo vanish_pseudo strip_pseudo]. rewrite A, B.
    destruct l as [|x t]; [discriminate|]. cbn in C. apply orb_false_iff in C as [C1 C2].
    cbn [forallb]. rewrite C1. cbn [andb]. destruct (spec_is_not n); repeat split; reflexivity.
  - intros l H; exact H.
  - intros; exact I.
  - exact I.
Qed.

Lemma id_sel s : hasph_sel s = false -> plain_sel s = true -> np_sel s = OSome s.
Proof.
  intros Hh Hp. destruct (proj1 noph_all s Hh Hp) as [A [B C]].
  rewrite (proj1 semantics_all s Hp B). unfold spec_np_sel. rewrite A, C. reflexivity.
Qed.

Lemma id_sels l : l <> [] -> hasph_sels l = false -> plain_sels l = true -> np_sels l = OSome l.
Proof.
  intros Hne Hh Hp.
  destruct (noph_list l (proj2 (Forall_forall _ _) (fun s _ => proj1 noph_all s)) Hh Hp) as [A [B C]].
  rewrite (semantics_sels l Hp B). unfold spec_visible. rewrite A. destruct l; [contradiction|reflexivity].
Qed.

(* the recorded class: the full statement fails on a compound made only of vanishing :not() *)
Definition witness_K1 : sels :=
  [Sel None (Comp base0 [Pseudo (str "not") false (ArgSel [Sel None (Comp (mkBase false None [str "r"] [] None []) [])])]);
   Sel None (Comp (mkBase false (Some (str "b")) [] [] None []) [])].

Lemma refuted_K1 :
  plain_sels witness_K1 = true /\ vanish_sels witness_K1 = true
  /\ model_out witness_K1 = Some (str ", b") /\ spec_out witness_K1 = Some (str "*, b").
Proof. vm_compute. repeat split; reflexivity. Qed.
