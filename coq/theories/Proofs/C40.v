(* Proofs for C40: symbolic execution of the extracted Args::run against the documented behaviour, for every library. *)
From Coq Require Import String List Bool.
From RV Require Import Gen.Entry Model.Entry Spec.EntryDocs.
Import ListNotations.
Local Open Scope string_scope.

Definition cli_loop : option (string * rexpr * list rstmt) :=
  match fst cli_run_body with
  | [_; SFor x it b] => Some (x, it, b)
  | _ => None
  end.
Definition cli_loop_body : list rstmt := match cli_loop with Some (_, _, b) => b | None => [] end.

Section Cli.
  Variable lib : string -> list val -> val.

  Lemma for_loop_ext f g x vs st : (forall s, f s = g s) -> for_loop f x vs st = for_loop g x vs st.
  Proof.
    intros H. revert st. induction vs as [|v r IH]; intros st; [reflexivity|].
    cbn [for_loop]. rewrite H. destruct (g _); try reflexivity. apply IH.
  Qed.

  Variables style precision : val.
  Definition fmt := doc_cli_format lib style precision.
  Definition selfv (lp : val) (names : list val) : val :=
    VRec "Args" [("_version", VNone); ("precision", precision); ("style", style); ("load_path", lp); ("input", VList names)].
  Definition E0 lp names : env := [("self", selfv lp names); ("format", fmt)].
  Definition E1 lp names n c s r : env := (E0 lp names ++ [("name", n); ("context", c); ("source", s); ("result", r)])%list.
  Definition E2 lp names n c s p r : env :=
    (E0 lp names ++ [("name", n); ("context", c); ("source", s); ("include_path", p); ("result", r)])%list.

  Definition inv (lp : val) (names : list val) (en : env) : Prop :=
    en = E0 lp names
    \/ (lp = VNone /\ exists n c s r, en = E1 lp names n c s r)
    \/ (exists q, lp = VSome q /\ exists n c s p r, en = E2 lp names n c s p r).

  Lemma body_step : forall lp all en out name,
    (lp = VNone \/ exists q, lp = VSome q) -> inv lp all en ->
    match doc_cli_compile1 lib fmt lp name with
    | Some (VOk bytes) => exists en', exec_list lib cli_loop_body (bind "name" name en, out) = XVal (en', (out ++ [bytes])%list) /\ inv lp all en'
    | Some (VErr e) => exec_list lib cli_loop_body (bind "name" name en, out) = XRet (VErr e) out
    | _ => True
    end.
  Proof.
    intros lp all en out name Hlp Hinv.
    unfold doc_cli_compile1.
    destruct Hlp as [->|[q ->]].
    - (* no load path *)
      destruct Hinv as [->|[(_ & n & c & s & r & ->)|(q & Hq & _)]]; [| |discriminate].
      + cbn. destruct (lib "FsContext::for_path" [name]) as [| | | | | | | |x|e|]; try exact I.
        * destruct x as [| | |l| | | | | | |]; try exact I.
          destruct l as [|a [|b [|c r]]]; try exact I. cbn.
          destruct (lib "transform" _) as [| | | | | | | |x|e|]; try exact I.
          -- eexists. split; [reflexivity|]. right; left. split; [reflexivity|]. repeat eexists.
          -- reflexivity.
        * reflexivity.
      + cbn. destruct (lib "FsContext::for_path" [name]) as [| | | | | | | |x|e|]; try exact I.
        * destruct x as [| | |l| | | | | | |]; try exact I.
          destruct l as [|a [|b [|c0 r0]]]; try exact I. cbn.
          destruct (lib "transform" _) as [| | | | | | | |x|e|]; try exact I.
          -- eexists. split; [reflexivity|]. right; left. split; [reflexivity|]. repeat eexists.
          -- reflexivity.
        * reflexivity.
    - destruct Hinv as [->|[(Hq & _)|(q' & Hq & n & c & s & p & r & ->)]]; [|discriminate|].
      + cbn. destruct (lib "FsContext::for_path" [name]) as [| | | | | | | |x|e|]; try exact I.
        * destruct x as [| | |l| | | | | | |]; try exact I.
          destruct l as [|a [|b [|c r]]]; try exact I. cbn.
          destruct (lib "transform" _) as [| | | | | | | |x|e|]; try exact I.
          -- eexists. split; [reflexivity|]. right; right. eexists. split; [reflexivity|]. repeat eexists.
          -- reflexivity.
        * reflexivity.
      + cbn. destruct (lib "FsContext::for_path" [name]) as [| | | | | | | |x|e|]; try exact I.
        * destruct x as [| | |l| | | | | | |]; try exact I.
          destruct l as [|a [|b [|c0 r0]]]; try exact I. cbn.
          destruct (lib "transform" _) as [| | | | | | | |x|e|]; try exact I.
          -- eexists. split; [reflexivity|]. right; right. eexists. split; [reflexivity|]. repeat eexists.
          -- reflexivity.
        * reflexivity.
  Qed.

  Lemma exec_for x it body st :
    exec lib (SFor x it body) st
    = lift st (eval lib (fst st) it) (fun v => match v with VList vs => for_loop (exec_list lib body) x vs st | _ => XStuck end).
  Proof.
    reflexivity.
  Qed.

  Lemma loop_spec : forall lp all, (lp = VNone \/ exists q, lp = VSome q) -> forall names en out r,
    inv lp all en ->
    doc_cli_run lib fmt lp names out = Some r ->
    match for_loop (exec_list lib cli_loop_body) "name" names (en, out) with
    | XVal st' => r = (VOk VUnit, snd st') /\ inv lp all (fst st')
    | XRet v out' => r = (v, out')
    | XStuck => False
    end.
  Proof.
    intros lp all Hlp. induction names as [|a names IH]; intros en out r Hinv Hrun.
    - cbn in *. inversion Hrun. split; [reflexivity|assumption].
    - cbn [for_loop doc_cli_run fst snd] in *.
      pose proof (body_step lp all en out a Hlp Hinv) as Hs.
      destruct (doc_cli_compile1 lib fmt lp a) as [[| | | | | | | |bytes|e|]|]; try discriminate.
      + destruct Hs as (en' & Heq & Hinv'). rewrite Heq. apply IH; assumption.
      + rewrite Hs. inversion Hrun. reflexivity.
  Qed.

  Theorem cli_run_spec : forall lp names r, (lp = VNone \/ exists q, lp = VSome q) ->
    doc_cli_run lib fmt lp names [] = Some r ->
    run_body lib cli_run_body cli_run_params [selfv lp names] = Some r.
  Proof.
    intros lp names r Hlp Hrun.
    unfold run_body, cli_run_params. cbn [bind_all bind].
    unfold cli_run_body. cbn [fst snd exec_list].
    match goal with |- context [exec lib (SLet ?p ?e) ?st] => remember (exec lib (SLet p e) st) as first eqn:Hf end.
    cbn in Hf. subst first.
    rewrite exec_for. cbn [fst snd]. unfold lift.
    match goal with |- context [eval lib ?en ?e] => remember (eval lib en e) as it eqn:Hi end.
    cbn in Hi. subst it.
    pose proof (loop_spec lp names Hlp names (E0 lp names) [] r (or_introl eq_refl) Hrun) as Hl.
    unfold cli_loop_body, cli_loop, cli_run_body in Hl. cbn [fst] in Hl.
    unfold E0, fmt, doc_cli_format in Hl.
    revert Hl.
    match goal with |- context [for_loop ?f ?x ?vs ?st] => destruct (for_loop f x vs st) as [st'|v out'|] end; intros Hl.
    - destruct Hl as [-> _]. reflexivity.
    - subst r. reflexivity.
    - contradiction.
  Qed.

  (* reading doc_cli_run: what is written, and when the result is Ok *)
  Section Reading.
    Variables (f lp : val).
    Fixpoint ok_prefix (names : list val) : list val :=
      match names with
      | [] => []
      | n :: r => match doc_cli_compile1 lib f lp n with Some (VOk b) => b :: ok_prefix r | _ => [] end
      end.
    Lemma run_stdout : forall names w res out, doc_cli_run lib f lp names w = Some (res, out) -> out = (w ++ ok_prefix names)%list.
    Proof.
      induction names as [|n r IH]; intros w res out H; cbn in *.
      - inversion H. rewrite app_nil_r. reflexivity.
      - destruct (doc_cli_compile1 lib f lp n) as [[| | | | | | | |b|e|]|]; try discriminate.
        + apply IH in H. rewrite H, <- app_assoc. reflexivity.
        + inversion H. rewrite app_nil_r. reflexivity.
    Qed.
    Lemma run_status : forall names w res out, doc_cli_run lib f lp names w = Some (res, out) ->
      (res = VOk VUnit <-> Forall (fun n => exists b, doc_cli_compile1 lib f lp n = Some (VOk b)) names)
      /\ (res <> VOk VUnit -> exists e, res = VErr e).
    Proof.
      induction names as [|n r IH]; intros w res out H; cbn in *.
      - inversion H. split; [split; [constructor|reflexivity]|intros C; contradiction].
      - destruct (doc_cli_compile1 lib f lp n) as [[| | | | | | | |b|e|]|] eqn:E; try discriminate.
        + destruct (IH _ _ _ H) as [[H1 H2] H3]. split; [split|exact H3].
          * intros Hr. constructor; [exists b; exact E|apply H1; exact Hr].
          * intros Hf. inversion Hf; subst. apply H2. assumption.
        + inversion H; subst. split; [split|].
          * discriminate.
          * intros Hf. inversion Hf; subst. destruct H2 as [b Hb]. rewrite E in Hb. discriminate.
          * intros _. exists e. reflexivity.
    Qed.
  End Reading.
End Cli.

Lemma style_map_id : forall p, In p cli_style_map -> fst p = snd p.
Proof.
  assert (H : forallb (fun p => String.eqb (fst p) (snd p)) cli_style_map = true) by (vm_compute; reflexivity).
  intros p Hp. rewrite forallb_forall in H. apply String.eqb_eq. exact (H p Hp).
Qed.

Fixpoint assoc_s {A} (x : string) (l : list (string * A)) : option A :=
  match l with [] => None | (y, v) :: r => if String.eqb x y then Some v else assoc_s x r end.
