(* Proofs for C17. *)
From Coq Require Import String List ZArith NArith Bool Lia.
From RV Require Import Base.F64 Model.Units Model.Numeric Model.EvValue Model.EvRange Model.EvFlow
  Spec.SassFlow Run.C17.
Import ListNotations.
Local Open Scope Z_scope.

(* ------------------------------------------------------------------ i64 *)
Lemma i64_ok_iff z : i64_ok z = true <-> -9223372036854775808 <= z <= 9223372036854775807.
Proof.
  unfold i64_ok, i64_min, i64_max. rewrite andb_true_iff, !Z.leb_le.
  change (2 ^ 63) with 9223372036854775808. lia.
Qed.

Lemma i64_ok_false z : i64_ok z = false <-> (z < -9223372036854775808 \/ 9223372036854775807 < z).
Proof.
  destruct (i64_ok z) eqn:E.
  - apply i64_ok_iff in E. split; [discriminate | lia].
  - split; [intros _ | reflexivity].
    destruct (Z_lt_le_dec z (-9223372036854775808)); [now left|].
    destruct (Z_lt_le_dec 9223372036854775807 z); [now right|].
    assert (i64_ok z = true) by (apply i64_ok_iff; lia). congruence.
Qed.

(* ------------------------------------------------------------------ ValueRange *)
Lemma i128_ok_of z : -9223372036854775809 <= z <= 9223372036854775808 -> i128_ok z = true.
Proof.
  intros H. unfold i128_ok. rewrite andb_true_iff, !Z.leb_le.
  change (2 ^ 127) with 170141183460469231731687303715884105728. lia.
Qed.
Lemma as_i64_id z : -9223372036854775808 <= z <= 9223372036854775807 -> as_i64 z = z.
Proof.
  intros H. unfold as_i64. change (2 ^ 63) with 9223372036854775808. change (2 ^ 64) with 18446744073709551616.
  rewrite Z.mod_small by lia. lia.
Qed.

Lemma map_seq_shift_asc from n :
  map (fun k => from + Z.of_nat k) (seq 0 (S n)) = from :: map (fun k => (from + 1) + Z.of_nat k) (seq 0 n).
Proof.
  cbn [seq map]. f_equal; [lia|]. rewrite <- seq_shift, map_map. apply map_ext. intros; lia.
Qed.
Lemma map_seq_shift_desc from n :
  map (fun k => from - Z.of_nat k) (seq 0 (S n)) = from :: map (fun k => (from + -1) - Z.of_nat k) (seq 0 n).
Proof.
  cbn [seq map]. f_equal; [lia|]. rewrite <- seq_shift, map_map. apply map_ext. intros; lia.
Qed.

(* `to` may be one past i64::MAX (inclusive end): it lives in an i128 *)
Lemma collect_asc n : forall from to fuel,
  -9223372036854775808 <= from -> to <= 9223372036854775808 ->
  Z.of_nat n = to - from -> (n < fuel)%nat ->
  vr_collect fuel (mkVR from to 1) = RItems (map (fun k => from + Z.of_nat k) (seq 0 n)).
Proof.
  induction n as [|n IH]; intros from to fuel Hlo Hhi Hn Hf.
  - destruct fuel as [|f]; [lia|]. assert (from = to) by lia. subst to.
    cbn [vr_collect]. unfold vr_next, vr_continue. cbn [vr_from vr_to vr_step].
    rewrite Z.compare_refl. reflexivity.
  - destruct fuel as [|f]; [lia|].
    cbn [vr_collect]. unfold vr_next, vr_continue. cbn [vr_from vr_to vr_step].
    assert (Hlt : (from ?= to) = Lt) by (apply Z.compare_lt_iff; lia). rewrite Hlt.
    change (0 ?= 1) with Lt. cbn iota.
    rewrite (i128_ok_of (from + 1)) by lia. rewrite (as_i64_id from) by lia.
    rewrite (IH (from + 1) to f) by lia. rewrite map_seq_shift_asc. reflexivity.
Qed.

Lemma collect_desc n : forall from to fuel,
  from <= 9223372036854775807 -> -9223372036854775809 <= to ->
  Z.of_nat n = from - to -> (n < fuel)%nat ->
  vr_collect fuel (mkVR from to (-1)) = RItems (map (fun k => from - Z.of_nat k) (seq 0 n)).
Proof.
  induction n as [|n IH]; intros from to fuel Hhi Hlo Hn Hf.
  - destruct fuel as [|f]; [lia|]. assert (from = to) by lia. subst to.
    cbn [vr_collect]. unfold vr_next, vr_continue. cbn [vr_from vr_to vr_step].
    rewrite Z.compare_refl. reflexivity.
  - destruct fuel as [|f]; [lia|].
    cbn [vr_collect]. unfold vr_next, vr_continue. cbn [vr_from vr_to vr_step].
    assert (Hgt : (from ?= to) = Gt) by (apply Z.compare_gt_iff; lia). rewrite Hgt.
    change (0 ?= -1) with Gt. cbn iota.
    rewrite (i128_ok_of (from + -1)) by lia. rewrite (as_i64_id from) by lia.
    rewrite (IH (from + -1) to f) by lia. rewrite map_seq_shift_desc. reflexivity.
Qed.

(* the interval theorem at full strength: ALL i64 bounds, both directions, inclusive and exclusive *)
Lemma range_correct from to incl fuel :
  i64_ok from = true -> i64_ok to = true ->
  (Z.to_nat (Z.abs (to - from)) + 1 < fuel)%nat ->
  range_items fuel from to incl = RItems (spec_range from to incl).
Proof.
  intros Hf Ht Hfuel. apply i64_ok_iff in Hf, Ht.
  unfold range_items, vr_new, spec_range in *.
  destruct (to >=? from) eqn:Hdir.
  - apply Z.geb_le in Hdir. assert (Hle : (from <=? to) = true) by (apply Z.leb_le; lia). rewrite Hle.
    destruct incl; cbn [incl_extra]; apply collect_asc; lia.
  - assert (Hlt : to < from) by (rewrite Z.geb_leb in Hdir; apply Z.leb_gt in Hdir; lia).
    assert (Hle : (from <=? to) = false) by (apply Z.leb_gt; lia). rewrite Hle.
    destruct incl; cbn [incl_extra]; apply collect_desc; lia.
Qed.

(* no i64 range ever panics, whatever the fuel *)
Lemma never_panics from to incl fuel :
  i64_ok from = true -> i64_ok to = true -> range_items fuel from to incl <> RPanic.
Proof.
  intros Hf Ht.
  destruct (le_lt_dec fuel (Z.to_nat (Z.abs (to - from)) + 1)) as [Hs|Hb].
  - (* short fuel: compare with a long run *)
    intros HP.
    assert (M : forall f r, vr_collect f r = RPanic -> forall g, (f <= g)%nat -> vr_collect g r = RPanic).
    { induction f as [|f IH]; intros r H g Hg; [discriminate|]. destruct g as [|g]; [lia|].
      cbn [vr_collect] in *. destruct (vr_next r) as [v r'| |]; try discriminate; [|reflexivity].
      destruct (vr_collect f r') eqn:E; try discriminate. rewrite (IH r' E g) by lia. reflexivity. }
    pose proof (M _ _ HP (Z.to_nat (Z.abs (to - from)) + 2)%nat ltac:(lia)) as HP'.
    unfold range_items in HP'. fold (range_items (Z.to_nat (Z.abs (to - from)) + 2) from to incl) in HP'.
    rewrite (range_correct from to incl _ Hf Ht) in HP' by lia. discriminate.
  - rewrite (range_correct from to incl fuel Hf Ht) by lia. discriminate.
Qed.

(* ------------------------------------------------------------------ SrcRange / @for *)
Lemma f_as_i64_ok x : i64_ok (f_as_i64 x) = true.
Proof.
  apply i64_ok_iff. unfold f_as_i64.
  assert (Hmin : i64_min = -9223372036854775808) by reflexivity.
  assert (Hmax : i64_max = 9223372036854775807) by reflexivity.
  destruct x as [s|s| |s m e p]; try (destruct s); rewrite ?Hmin, ?Hmax; try lia;
  match goal with |- context [f_trunc_Z ?y] => destruct (f_trunc_Z y) end; rewrite ?Hmin, ?Hmax; lia.
Qed.

Lemma into_integer_ok x z : into_integer x = Some z -> i64_ok z = true.
Proof.
  unfold into_integer. destruct (fle _ _); [|discriminate].
  intros H; inversion H. apply f_as_i64_ok.
Qed.

Lemma src_evaluate_shape from to f t u :
  src_evaluate from to = SRange f t u ->
  u = nunit from /\ into_integer (nval from) = Some f /\
  ((us_is_none (nunit from) || num_is_no_unit to = true /\ into_integer (nval to) = Some t)
   \/ (us_is_none (nunit from) || num_is_no_unit to = false /\
       exists s, us_scale_to (nunit to) (nunit from) = SSome s /\ into_integer (fmul (nval to) s) = Some t)).
Proof.
  unfold src_evaluate. destruct (into_integer (nval from)) as [f'|] eqn:Ef; [|discriminate].
  destruct (us_is_none (nunit from) || num_is_no_unit to) eqn:Eu.
  - destruct (into_integer (nval to)) as [t'|] eqn:Et; [|discriminate].
    intros H; inversion H; subst. auto.
  - unfold num_as_unitset. destruct (us_scale_to (nunit to) (nunit from)) as [s| |] eqn:Es; try discriminate.
    destruct (into_integer (fmul (nval to) s)) as [t'|] eqn:Et; [|discriminate].
    intros H; inversion H; subst. split; [reflexivity|]. split; [reflexivity|]. right. split; [reflexivity|].
    exists s. auto.
Qed.

(* `$i` takes a's unit and runs over the interval of the two converted integer bounds *)
Lemma for_unit from to incl l u :
  for_eval from to incl = FItems l u ->
  u = nunit from /\ exists f t, src_evaluate from to = SRange f t (nunit from)
                            /\ l = map f_of_Z (spec_range f t incl).
Proof.
  unfold for_eval. destruct (src_evaluate from to) as [f t u'| | | |] eqn:Es; try discriminate.
  destruct (src_evaluate_shape _ _ _ _ _ Es) as (Hu & Hf & Ht).
  assert (Hfo : i64_ok f = true) by (eapply into_integer_ok; eauto).
  assert (Hto : i64_ok t = true).
  { destruct Ht as [[_ H]|[_ [s [_ H]]]]; eapply into_integer_ok; eauto. }
  rewrite (range_correct f t incl (range_fuel f t) Hfo Hto) by (unfold range_fuel; lia).
  intros H; inversion H; subst. split; [reflexivity|]. exists f, t. auto.
Qed.

(* the loop never panics and never runs out of the model's fuel: error or items *)
Lemma for_total from to incl : for_eval from to incl <> FPanic.
Proof.
  unfold for_eval. destruct (src_evaluate from to) as [f t u'| | | |] eqn:Es; try discriminate.
  destruct (src_evaluate_shape _ _ _ _ _ Es) as (Hu & Hf & Ht).
  assert (Hfo : i64_ok f = true) by (eapply into_integer_ok; eauto).
  assert (Hto : i64_ok t = true).
  { destruct Ht as [[_ H]|[_ [s [_ H]]]]; eapply into_integer_ok; eauto. }
  rewrite (range_correct f t incl (range_fuel f t) Hfo Hto) by (unfold range_fuel; lia). discriminate.
Qed.

(* ------------------------------------------------------------------ @if *)
Lemma is_true_truthy v : is_true v = truthy v.
Proof. destruct v; reflexivity. Qed.

Lemma if_chain : forall i, if_eval i = let (br, els) := chain_of i in first_truthy br els.
Proof.
  fix IH 1. intros [c b e]. destruct e as [|b'|i']; cbn [if_eval chain_of first_truthy].
  - rewrite is_true_truthy. destruct (truthy c); reflexivity.
  - rewrite is_true_truthy. destruct (truthy c); reflexivity.
  - rewrite is_true_truthy. specialize (IH i'). destruct (chain_of i') as [r els].
    cbn [first_truthy]. destruct (truthy c); [reflexivity | exact IH].
Qed.

(* ------------------------------------------------------------------ define_multi / @each *)
Lemma skipn_nil_nth {A} (d : A) : forall o l, skipn o l = [] -> nth o l d = d /\ skipn (S o) l = [].
Proof.
  induction o as [|o IH]; intros [|x l] H; cbn in *; try discriminate; auto.
Qed.
Lemma skipn_cons_nth {A} (d : A) : forall o l v vs, skipn o l = v :: vs -> nth o l d = v /\ skipn (S o) l = vs.
Proof.
  induction o as [|o IH]; intros [|x l] v vs H; cbn in *; try discriminate.
  - inversion H; auto.
  - destruct (IH l v vs H) as [H1 H2]. split; [exact H1|]. destruct l; [destruct o; discriminate | exact H2].
Qed.

Lemma zip_pad_nth names : forall o l,
  zip_pad names (skipn o l) =
  map (fun kn => (snd kn, nth (fst kn) l VNull)) (combine (seq o (length names)) names).
Proof.
  induction names as [|n ns IH]; intros o l; [reflexivity|].
  cbn [zip_pad length seq combine map fst snd].
  destruct (skipn o l) as [|v vs] eqn:E.
  - destruct (skipn_nil_nth VNull o l E) as [H1 H2]. rewrite H1. f_equal.
    rewrite <- (IH (S o) l), H2. reflexivity.
  - destruct (skipn_cons_nth VNull o l v vs E) as [H1 H2]. rewrite H1. f_equal.
    rewrite <- (IH (S o) l), H2. reflexivity.
Qed.

Lemma iter_items_elements v : iter_items v = elements v.
Proof. destruct v; reflexivity. Qed.

Lemma define_multi_spec names item : define_multi names item = destructure names item.
Proof.
  unfold define_multi, destructure.
  destruct names as [|n [|m r]]; try reflexivity;
  rewrite <- (iter_items_elements item); exact (zip_pad_nth _ 0%nat (iter_items item)).
Qed.

Lemma each_spec names v : each_eval names v = spec_each names v.
Proof.
  unfold each_eval, spec_each. rewrite iter_items_elements.
  apply map_ext. intros; apply define_multi_spec.
Qed.

(* ------------------------------------------------------------------ @while *)
Section WhileProofs.
  Context {S : Type}.
  Variable cond : S -> value.
  Variable body : S -> S.

  Lemma iter_n_S n : forall s, iter_n body (Datatypes.S n) s = body (iter_n body n s).
  Proof. induction n as [|n IH]; intros s; [reflexivity|]. cbn [iter_n] in *. rewrite <- IH. reflexivity. Qed.

  Lemma while_sound fuel : forall s l e,
    while_eval cond body fuel s = Some (l, e) ->
    exists n, (n < fuel)%nat /\
      l = map (fun k => iter_n body k s) (seq 0 n) /\ e = iter_n body n s /\
      (forall k, (k < n)%nat -> is_true (cond (iter_n body k s)) = true) /\
      is_true (cond e) = false.
  Proof.
    induction fuel as [|f IH]; intros s l e; cbn [while_eval]; [discriminate|].
    destruct (is_true (cond s)) eqn:C.
    - destruct (while_eval cond body f (body s)) as [[l' e']|] eqn:W; [|discriminate].
      intros H; inversion H; subst. destruct (IH _ _ _ W) as (n & Hn & Hl & He & Hall & Hstop).
      exists (Datatypes.S n). split; [lia|]. split.
      + cbn [seq map iter_n]. f_equal. rewrite Hl, <- seq_shift, map_map. reflexivity.
      + split; [exact He|]. split; [|exact Hstop].
        intros [|k] Hk; [exact C|]. cbn [iter_n]. apply Hall. lia.
    - intros H; inversion H; subst. exists 0%nat. split; [lia|]. cbn. repeat split; auto. intros k Hk; lia.
  Qed.

  Lemma while_complete n : forall s fuel,
    (forall k, (k < n)%nat -> is_true (cond (iter_n body k s)) = true) ->
    is_true (cond (iter_n body n s)) = false -> (n < fuel)%nat ->
    while_eval cond body fuel s = Some (map (fun k => iter_n body k s) (seq 0 n), iter_n body n s).
  Proof.
    induction n as [|n IH]; intros s fuel Hall Hstop Hf; (destruct fuel as [|f]; [lia|]); cbn [while_eval].
    - cbn in Hstop. rewrite Hstop. reflexivity.
    - assert (C0 : is_true (cond s) = true) by (apply (Hall 0%nat); lia). rewrite C0. cbn [iter_n] in Hstop.
      rewrite (IH (body s) f); try lia; try exact Hstop.
      + cbn [seq map iter_n]. rewrite <- seq_shift, map_map. reflexivity.
      + intros k Hk. apply (Hall (Datatypes.S k)). lia.
  Qed.

  Lemma find_map {A B} (P : B -> bool) (g : A -> B) l :
    find P (map g l) = option_map g (find (fun x => P (g x)) l).
  Proof. induction l as [|x l IH]; [reflexivity|]. cbn. destruct (P (g x)); [reflexivity | exact IH]. Qed.

  (* the model loop is the reference "first falsey state" semantics, for every fuel *)
  Lemma while_spec fuel : forall s, while_eval cond body fuel s = spec_while cond body fuel s.
  Proof.
    induction fuel as [|f IH]; intros s; [reflexivity|].
    cbn [while_eval]. unfold spec_while, first_stop. cbn [seq find iter_n].
    rewrite <- (is_true_truthy (cond s)). destruct (is_true (cond s)) eqn:C; cbn [negb].
    - rewrite IH. unfold spec_while, first_stop.
      rewrite <- seq_shift, find_map. cbn [iter_n].
      match goal with |- context [find ?P ?l] => destruct (find P l) as [n|] end; [|reflexivity].
      cbn [option_map seq map iter_n]. rewrite <- seq_shift, map_map. reflexivity.
    - reflexivity.
  Qed.
End WhileProofs.
