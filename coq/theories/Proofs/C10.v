(* Proofs for C10 (number formatting). *)
From Coq Require Import ZArith List Bool NArith Lia.
From RV Require Import Base.F64 Base.Text Model.NumFmt Spec.DecRound.
Import ListNotations.
Local Open Scope Z_scope.

(* ------------------------------------------------------------------ *)
(* A. structure of the digit loop: holds for ANY float primitives       *)
Section Structure.
  Variable F : Type.
  Variables (mul10 fract : F -> F) (is0 : F -> bool) (digit enddigit : F -> Z).
  Notation loop := (loop F mul10 fract is0 digit).
  Notation frac_part := (frac_part F mul10 fract is0 digit enddigit).

  Lemma loop_len : forall n f acc,
    (length (snd (loop n f acc)) <= length acc + n)%nat.
  Proof.
    induction n; intros f acc; cbn [NumFmt.loop].
    - cbn. lia.
    - destruct (is0 (fract (mul10 f))).
      + cbn. lia.
      + specialize (IHn (fract (mul10 f)) (digit (mul10 f) :: acc)). cbn [length] in IHn. lia.
  Qed.

  Lemma carry_len : forall r r', carry r = Some r' -> (length r' <= length r)%nat.
  Proof.
    induction r; intros r' H; cbn [carry] in H; [discriminate|].
    destruct (a =? 9).
    - apply IHr in H. cbn. lia.
    - inversion H. cbn. lia.
  Qed.

  Lemma strip0_len : forall r, (length (strip0 r) <= length r)%nat.
  Proof.
    induction r; cbn [strip0]; [lia|]. destruct (a =? 0); cbn [length] in *; lia.
  Qed.

  (* number of fractional digits: at most max(1, min(max_decimals, precision)) *)
  Lemma frac_part_len : forall md prec f,
    (length (fst (frac_part md prec f)) <= Nat.max 1 (Z.to_nat (Z.min md prec)))%nat.
  Proof.
    intros md prec f. unfold NumFmt.frac_part.
    destruct (is0 f); [cbn; lia|].
    set (n := Z.to_nat (Z.min md prec)).
    pose proof (loop_len (Nat.pred n) f []) as HL.
    destruct (loop (Nat.pred n) f []) as [fr racc]. cbn [snd length] in HL.
    destruct (is0 fr).
    - cbn [fst]. rewrite rev_length. lia.
    - destruct (enddigit (mul10 fr) =? 10).
      + destruct (carry racc) eqn:HC.
        * cbn [fst]. rewrite rev_length. apply carry_len in HC. lia.
        * cbn. lia.
      + destruct (enddigit (mul10 fr) =? 0).
        * cbn [fst]. rewrite rev_length. pose proof (strip0_len racc). lia.
        * cbn [fst]. rewrite rev_length. cbn [length]. lia.
  Qed.

  (* a carry into the whole part leaves no fractional digits *)
  Lemma frac_part_carry : forall md prec f,
    snd (frac_part md prec f) = true -> fst (frac_part md prec f) = [].
  Proof.
    intros md prec f. unfold NumFmt.frac_part.
    destruct (is0 f); [cbn; discriminate|].
    destruct (loop _ f []) as [fr racc].
    destruct (is0 fr); [cbn; discriminate|].
    destruct (_ =? 10).
    - destruct (carry racc); cbn; [discriminate|reflexivity].
    - destruct (_ =? 0); cbn; discriminate.
  Qed.

  (* ---------------------------------------------------------------- *)
  (* B. digit values: for primitives meeting the digit-range contract  *)
  Variable unit : F -> Prop.        (* invariant: 0 < |f| < 1 *)
  Record prims_ok : Prop := {
    pk_fract : forall f, unit f -> is0 (fract (mul10 f)) = false -> unit (fract (mul10 f));
    pk_digit : forall f, unit f -> 0 <= digit (mul10 f) <= 9;
    pk_end : forall f, unit f -> 0 <= enddigit (mul10 f) <= 10;
    pk_exact : forall f, unit f -> is0 (fract (mul10 f)) = true -> digit (mul10 f) <> 0 }.

  Definition isdigit (d : Z) : Prop := 0 <= d <= 9.
  Definition head_nonzero (r : list Z) : Prop := match r with [] => True | d :: _ => d <> 0 end.

  Hypothesis PK : prims_ok.

  Lemma loop_inv : forall n f acc, unit f -> is0 f = false -> Forall isdigit acc ->
    Forall isdigit (snd (loop n f acc)) /\
    (is0 (fst (loop n f acc)) = true -> head_nonzero (snd (loop n f acc)) /\ snd (loop n f acc) <> []) /\
    (is0 (fst (loop n f acc)) = false -> unit (fst (loop n f acc))).
  Proof.
    induction n; intros f acc Hu Hz Hacc; cbn [NumFmt.loop].
    - cbn [fst snd]. split; [exact Hacc|]. split; intros H; [congruence|exact Hu].
    - pose proof (pk_digit PK f Hu) as Hd.
      destruct (is0 (fract (mul10 f))) eqn:E.
      + cbn [fst snd]. split; [constructor; assumption|]. split; intros H; [|congruence].
        split; [cbn; apply (pk_exact PK f Hu E)|discriminate].
      + apply IHn; [apply (pk_fract PK f Hu E)|exact E|constructor; assumption].
  Qed.

  Lemma carry_ok : forall r r', Forall isdigit r -> carry r = Some r' ->
    Forall isdigit r' /\ head_nonzero r' /\ r' <> [].
  Proof.
    induction r; intros r' H HC; cbn [carry] in HC; [discriminate|].
    inversion H; subst. destruct (a =? 9) eqn:E.
    - apply IHr; assumption.
    - inversion HC; subst. apply Z.eqb_neq in E. unfold isdigit in *.
      split; [constructor; [lia|assumption]|]. split; [cbn; lia|discriminate].
  Qed.

  Lemma strip0_ok : forall r, Forall isdigit r -> Forall isdigit (strip0 r) /\ head_nonzero (strip0 r).
  Proof.
    induction r; intros H; cbn [strip0]; [split; [constructor|exact I]|].
    inversion H; subst. destruct (a =? 0) eqn:E.
    - apply IHr; assumption.
    - apply Z.eqb_neq in E. split; [assumption|cbn; assumption].
  Qed.

  (* all fractional digits are decimal digits and the last one is not 0 *)
  Lemma frac_part_digits : forall md prec f, (is0 f = false -> unit f) ->
    Forall isdigit (fst (frac_part md prec f)) /\ head_nonzero (rev (fst (frac_part md prec f))).
  Proof.
    intros md prec f Hu0. unfold NumFmt.frac_part.
    destruct (is0 f) eqn:Hz; [cbn; split; [constructor|exact I]|].
    specialize (Hu0 eq_refl). rename Hu0 into Hu.
    pose proof (loop_inv (Nat.pred (Z.to_nat (Z.min md prec))) f [] Hu Hz (Forall_nil _)) as [HD [HB HU]].
    destruct (loop _ f []) as [fr racc]. cbn [fst snd] in *.
    destruct (is0 fr) eqn:Hz2.
    - cbn [fst]. rewrite rev_involutive. split; [apply Forall_rev; exact HD|apply HB; reflexivity].
    - specialize (HU eq_refl). pose proof (pk_end PK fr HU) as He.
      destruct (enddigit (mul10 fr) =? 10) eqn:E10.
      + destruct (carry racc) eqn:HC.
        * cbn [fst]. rewrite rev_involutive. destruct (carry_ok racc l HD HC) as [H1 [H2 _]].
          split; [apply Forall_rev; exact H1|exact H2].
        * cbn. split; [constructor|exact I].
      + destruct (enddigit (mul10 fr) =? 0) eqn:E0.
        * cbn [fst]. rewrite rev_involutive. destruct (strip0_ok racc HD) as [H1 H2].
          split; [apply Forall_rev; exact H1|exact H2].
        * cbn [fst]. rewrite rev_involutive. apply Z.eqb_neq in E10, E0.
          split; [apply Forall_rev; constructor; [unfold isdigit; lia|exact HD]|cbn; exact E0].
  Qed.
End Structure.

(* ------------------------------------------------------------------ *)
(* C. integer helpers *)

Lemma clog10_fuel_spec : forall fuel j k w, 0 <= j <= k -> (Z.to_nat (k - j) < fuel)%nat ->
  (k = 0 \/ 10 ^ (k - 1) < w) -> w <= 10 ^ k -> clog10_fuel fuel j (10 ^ j) w = k.
Proof.
  induction fuel; intros j k w Hj Hf Hlo Hhi; [lia|]. cbn [clog10_fuel].
  destruct (w <=? 10 ^ j) eqn:E.
  - apply Z.leb_le in E. destruct (Z.eq_dec j k); [assumption|]. exfalso.
    destruct Hlo as [->|Hlo]; [lia|].
    assert (10 ^ j <= 10 ^ (k - 1)) by (apply Z.pow_le_mono_r; lia). lia.
  - apply Z.leb_gt in E. assert (j < k) by (destruct (Z.eq_dec j k); [subst; lia|lia]).
    replace (10 * 10 ^ j) with (10 ^ (j + 1)) by (rewrite Z.pow_add_r; lia).
    apply IHfuel; lia.
Qed.

Lemma clog10_spec : forall k w, 0 <= k <= 300 -> (k = 0 \/ 10 ^ (k - 1) < w) -> w <= 10 ^ k -> clog10 w = k.
Proof.
  intros k w Hk Hlo Hhi. unfold clog10. change 1 with (10 ^ 0).
  apply clog10_fuel_spec; lia.
Qed.

Lemma digits_fuel_ok : forall fuel z, 0 <= z < 2 ^ (Z.of_nat fuel + 3) ->
  Forall isdigit (digits_fuel (S fuel) z) /\ digits_fuel (S fuel) z <> [] /\
  (0 < z -> hd 0 (digits_fuel (S fuel) z) <> 0).
Proof.
  induction fuel; intros z Hz.
  - cbn [digits_fuel]. change (2 ^ (Z.of_nat 0 + 3)) with 8 in Hz.
    assert (z <? 10 = true) as -> by (apply Z.ltb_lt; lia).
    split; [constructor; [unfold isdigit; lia|constructor]|]. split; [discriminate|cbn; lia].
  - remember (S fuel) as f1. cbn [digits_fuel]. destruct (z <? 10) eqn:E.
    + apply Z.ltb_lt in E. split; [constructor; [unfold isdigit; lia|constructor]|].
      split; [discriminate|cbn; lia].
    + apply Z.ltb_ge in E. subst f1.
      assert (Hq : 0 <= z / 10 < 2 ^ (Z.of_nat fuel + 3)).
      { split; [apply Z.div_pos; lia|]. apply Z.div_lt_upper_bound; [lia|].
        replace (Z.of_nat (S fuel) + 3) with (Z.of_nat fuel + 3 + 1) in Hz by lia.
        rewrite Z.pow_add_r in Hz by lia. lia. }
      destruct (IHfuel _ Hq) as [H1 [H2 H3]].
      split; [apply Forall_app; split; [exact H1|]|].
      { constructor; [|constructor]. unfold isdigit. pose proof (Z.mod_pos_bound z 10). lia. }
      split; [intros H; apply app_eq_nil in H; destruct H; discriminate|].
      intros _. destruct (digits_fuel (S fuel) (z / 10)) eqn:ED; [congruence|].
      cbn [app hd]. cbn [hd] in H3. apply H3.
      assert (1 <= z / 10) by (apply Z.div_le_lower_bound; lia). lia.
Qed.

(* the integer part: decimal digits, non-empty, no leading zero except for 0 itself *)
Lemma digits_of_ok : forall z, 0 <= z ->
  Forall isdigit (digits_of z) /\ digits_of z <> [] /\ (0 < z -> hd 0 (digits_of z) <> 0).
Proof.
  intros z Hz. unfold digits_of. apply digits_fuel_ok. split; [assumption|].
  destruct (Z.eq_dec z 0) as [->|Hn]; [cbn; lia|].
  pose proof (Z.log2_spec z ltac:(lia)) as [_ H].
  rewrite Z2Nat.id by apply Z.log2_nonneg.
  eapply Z.lt_le_trans; [exact H|]. apply Z.pow_le_mono_r; lia.
Qed.

Lemma digits_of_0 : digits_of 0 = [0].
Proof. reflexivity. Qed.

(* ------------------------------------------------------------------ *)
(* D. the rendered text parses back (Spec/DecRound.v parser) *)

Lemma dch_digit : forall d, isdigit d -> is_digit (dch d) = true /\ Z.of_N (dch d) - 48 = d.
Proof.
  intros d H. unfold isdigit in H.
  assert (d = 0 \/ d = 1 \/ d = 2 \/ d = 3 \/ d = 4 \/ d = 5 \/ d = 6 \/ d = 7 \/ d = 8 \/ d = 9) by lia.
  repeat (destruct H0 as [->|H0]; [split; reflexivity|]). subst; split; reflexivity.
Qed.

Definition stops (rest : list N) : Prop := match rest with [] => True | c :: _ => is_digit c = false end.

Lemma span_digits_app : forall ds rest, Forall isdigit ds -> stops rest ->
  span_digits (map dch ds ++ rest) = (ds, rest).
Proof.
  induction ds; intros rest H Hs; cbn [map app].
  - destruct rest; [reflexivity|]. cbn [span_digits]. cbn in Hs. rewrite Hs. reflexivity.
  - inversion H; subst. cbn [span_digits]. destruct (dch_digit a H2) as [E1 E2].
    rewrite E1, (IHds rest H3 Hs), E2. reflexivity.
Qed.

Lemma dch_not_minus : forall d, isdigit d -> (dch d =? 45)%N = false.
Proof.
  intros d H. destruct (dch_digit d H) as [E _]. unfold is_digit in E.
  apply andb_true_iff in E. destruct E as [E _]. apply N.leb_le in E. apply N.eqb_neq. lia.
Qed.

Definition shown_whole (compressed : bool) (wd dec : list Z) : list Z :=
  if compressed && is_zero_digits wd && negb (is_nil dec) then [] else wd.

Lemma render_parses : forall compressed neg wd dec,
  Forall isdigit wd -> wd <> [] -> Forall isdigit dec ->
  parse_numeral (render compressed neg wd dec) = Some (mkNumeral neg (shown_whole compressed wd dec) dec).
Proof.
  intros c neg wd dec Hw Hne Hd. unfold render, shown_whole.
  set (sw := if c && is_zero_digits wd && negb (is_nil dec) then [] else wd).
  assert (Hsw : Forall isdigit sw) by (subst sw; destruct (c && _ && _); [constructor|assumption]).
  assert (Hsw2 : (if c && is_zero_digits wd && negb (is_nil dec) then [] else map dch wd) = map dch sw)
    by (subst sw; destruct (c && _ && _); reflexivity).
  rewrite Hsw2.
  assert (Hne2 : sw = [] -> dec <> []).
  { subst sw. destruct (c && is_zero_digits wd && negb (is_nil dec)) eqn:E; [|intros; contradiction].
    intros _. destruct dec; [|discriminate]. cbn in E. rewrite !andb_false_r in E. discriminate. }
  set (tail := match dec with [] => [] | _ :: _ => 46%N :: map dch dec end).
  assert (Hst : stops tail) by (subst tail; destruct dec; [exact I|reflexivity]).
  assert (Hbody : forall n0,
     (let '(wd0, t2) := span_digits (map dch sw ++ tail) in
      match t2 with
      | [] => match wd0 with [] => None | _ => Some (mkNumeral n0 wd0 []) end
      | c0 :: t3 => if (c0 =? 46)%N then
                      let '(fd, t4) := span_digits t3 in
                      match t4, fd with [], _ :: _ => Some (mkNumeral n0 wd0 fd) | _, _ => None end
                    else None
      end) = Some (mkNumeral n0 sw dec)).
  { intros n0. rewrite (span_digits_app sw tail Hsw Hst). subst tail. destruct dec as [|d0 dr].
    - destruct sw; [exfalso; apply (Hne2 eq_refl); reflexivity|reflexivity].
    - cbn [N.eqb Pos.eqb]. replace (46 =? 46)%N with true by reflexivity.
      pose proof (span_digits_app (d0 :: dr) [] Hd I) as E. rewrite app_nil_r in E. rewrite E. reflexivity. }
  unfold parse_numeral. destruct neg.
  - cbn [app]. replace (45 =? 45)%N with true by reflexivity. apply Hbody.
  - cbn [app]. destruct sw as [|s0 sr] eqn:ES.
    + cbn [map app]. subst tail. destruct dec; [exfalso; apply (Hne2 eq_refl); reflexivity|].
      replace (46 =? 45)%N with false by reflexivity. apply (Hbody false).
    + cbn [map app]. inversion Hsw; subst. rewrite (dch_not_minus s0 H1). apply (Hbody false).
Qed.

(* ------------------------------------------------------------------ *)
(* E. the binary64 instance (the model run against rsass) *)
From Flocq Require Import IEEE754.Binary IEEE754.Bits.

Definition dec_of (prec : Z) (x : f64) : list Z := snd (fmt_parts prec x).
Definition whole_out (prec : Z) (x : f64) : Z := snd (fst (fmt_parts prec x)).
Definition neg_of (prec : Z) (x : f64) : bool := fst (fst (fmt_parts prec x)).

Lemma fmt_parts_eq : forall prec x,
  fmt_parts prec x =
  let fp := b_frac_part (16 - clog10 (whole_of x)) prec (ffract x) in
  let w' := if snd fp then whole_of x + 1 else whole_of x in
  (f_sign_neg x && (negb (w' =? 0) || negb (is_nil (fst fp))), w', fst fp).
Proof. intros. unfold fmt_parts. destruct (b_frac_part _ _ _). reflexivity. Qed.

Lemma dec_of_eq : forall prec x,
  dec_of prec x = fst (b_frac_part (16 - clog10 (whole_of x)) prec (ffract x)).
Proof. intros. unfold dec_of. rewrite fmt_parts_eq. reflexivity. Qed.

Lemma whole_of_nonneg : forall x, 0 <= whole_of x.
Proof. intros. unfold whole_of. destruct (f_trunc_Z x); [apply Z.abs_nonneg|lia]. Qed.

(* fractional digit count, every double, every precision *)
Lemma dec_len_bound : forall prec x,
  Z.of_nat (length (dec_of prec x)) <= Z.max 1 (Z.min (16 - clog10 (whole_of x)) prec).
Proof.
  intros. rewrite dec_of_eq. unfold b_frac_part.
  pose proof (frac_part_len f64 b_mul10 ffract b_is0 b_digit b_enddigit
                (16 - clog10 (whole_of x)) prec (ffract x)). lia.
Qed.

Lemma fraction_len : forall prec x, 1 <= prec -> Z.of_nat (length (dec_of prec x)) <= prec.
Proof. intros prec x H. pose proof (dec_len_bound prec x). lia. Qed.

Definition fraclen_statement : Prop :=
  forall prec x, 0 <= prec -> Z.of_nat (length (dec_of prec x)) <= prec.
Lemma refuted_precision0 : exists x, f_is_finite x = true /\ dec_of 0 x = [3]
  /\ fmt_number false 0 x = [49; 46; 51]%N.
Proof. exists (of_bits 4608353354703133737). vm_compute. auto. Qed.
Lemma fraclen_statement_false : ~ fraclen_statement.
Proof.
  intros H. specialize (H 0 (of_bits 4608353354703133737) ltac:(lia)).
  vm_compute in H. apply H. reflexivity.
Qed.

(* significant digits: k integer digits (not a power of ten) leave at most 16 - k places *)
Lemma sig16 : forall prec x k, 1 <= k <= 15 -> 10 ^ (k - 1) < whole_of x < 10 ^ k ->
  Z.of_nat (length (dec_of prec x)) + k <= 16.
Proof.
  intros prec x k Hk Hw. pose proof (dec_len_bound prec x) as H.
  rewrite (clog10_spec k (whole_of x)) in H; lia.
Qed.
Lemma sig16_zero : forall prec x, whole_of x = 0 -> Z.of_nat (length (dec_of prec x)) <= 16.
Proof.
  intros prec x Hw. pose proof (dec_len_bound prec x) as H.
  rewrite (clog10_spec 0 (whole_of x)) in H; [lia|lia|left; reflexivity|rewrite Hw; cbn; lia].
Qed.

Definition sig_statement : Prop :=
  forall prec x, dec_of prec x <> [] ->
  ndigits (whole_out prec x) + Z.of_nat (length (dec_of prec x)) <= 16.
(* 1.1234567890123457 at precision 20: 17 significant digits *)
Lemma refuted_pow10 : exists prec x, f_is_finite x = true /\ is_pow10 (whole_of x) = true /\
  ndigits (whole_out prec x) + Z.of_nat (length (dec_of prec x)) = 17.
Proof. exists 20, (of_bits 4607738418749009766). vm_compute. auto. Qed.
(* 1000000000000001.5 at precision 10 *)
Lemma refuted_1e15 : exists prec x, f_is_finite x = true /\ 10 ^ 15 <= whole_of x /\
  ndigits (whole_out prec x) + Z.of_nat (length (dec_of prec x)) = 17.
Proof. exists 10, (of_bits 4831355200913801228). vm_compute. split; [reflexivity|]. split; [discriminate|reflexivity]. Qed.

(* integer part digits *)
Lemma shortest_search_nonneg : forall fuel k v l h i, 0 <= v -> 0 <= shortest_search fuel k v l h i.
Proof.
  induction fuel; intros k v l h i Hv; cbn [shortest_search]; [assumption|].
  assert (Hp : 0 <= 10 ^ k) by (apply Z.pow_nonneg; lia).
  assert (Hd : 0 <= v / 10 ^ k * 10 ^ k).
  { destruct (Z.eq_dec (10 ^ k) 0) as [E|E]; [rewrite E; lia|].
    apply Z.mul_nonneg_nonneg; [apply Z.div_pos; lia|lia]. }
  destruct (_ || _); [destruct (_ && _); lia|apply IHfuel; assumption].
Qed.

Lemma display_whole_ok : forall x w, 0 <= w ->
  Forall isdigit (display_whole x w) /\ display_whole x w <> [].
Proof.
  intros x w Hw. unfold display_whole.
  assert (G : forall z, 0 <= z -> Forall isdigit (digits_of z) /\ digits_of z <> [])
    by (intros z Hz; destruct (digits_of_ok z Hz) as [A [B _]]; auto).
  destruct (w <? 2 ^ 53); [apply G; assumption|].
  destruct x; try (apply G; assumption).
  apply G. unfold shortest_int. apply shortest_search_nonneg.
  apply Z.mul_nonneg_nonneg; [lia|apply Z.pow_nonneg; lia].
Qed.

Lemma whole_out_nonneg : forall prec x, 0 <= whole_out prec x.
Proof.
  intros. unfold whole_out. rewrite fmt_parts_eq. cbn [fst snd].
  pose proof (whole_of_nonneg x). destruct (snd _); lia.
Qed.

(* layout: for a finite double the text is sign, integer part, fraction *)
Lemma fmt_layout : forall compressed prec x, f_is_finite x = true ->
  fmt_number compressed prec x =
  render compressed (neg_of prec x) (display_whole x (whole_out prec x)) (dec_of prec x).
Proof.
  intros c prec x H. unfold fmt_number, neg_of, whole_out, dec_of.
  destruct x; try discriminate; cbn [f_is_nan f_is_inf Binary.is_nan];
  destruct (fmt_parts prec _) as [[n w] d]; reflexivity.
Qed.

Lemma no_negative_zero : forall prec x, neg_of prec x = true ->
  f_sign_neg x = true /\ (whole_out prec x <> 0 \/ dec_of prec x <> []).
Proof.
  intros prec x. unfold neg_of, whole_out, dec_of. rewrite fmt_parts_eq. cbn [fst snd].
  intros H. apply andb_true_iff in H. destruct H as [H1 H2]. split; [assumption|].
  apply orb_true_iff in H2. destruct H2 as [H2|H2].
  - left. apply negb_true_iff in H2. apply Z.eqb_neq in H2. exact H2.
  - right. destruct (fst _); [discriminate|discriminate].
Qed.

(* the digit-range contract of the binary64 primitives (validated by correspondence, see props/C10.py) *)
Definition b_unit (f : f64) : Prop := flt (fabs f) f_one = true.
Definition b_contract : Prop :=
  prims_ok f64 b_mul10 ffract b_is0 b_digit b_enddigit b_unit /\
  (forall x, f_is_finite x = true -> b_is0 (ffract x) = false -> b_unit (ffract x)).

Lemma fraction_digits : b_contract -> forall prec x, f_is_finite x = true ->
  Forall isdigit (dec_of prec x) /\ head_nonzero (rev (dec_of prec x)).
Proof.
  intros [PK HI] prec x Hx. rewrite dec_of_eq. unfold b_frac_part.
  apply (frac_part_digits f64 b_mul10 ffract b_is0 b_digit b_enddigit b_unit PK).
  apply HI. exact Hx.
Qed.

Lemma text_parses : b_contract -> forall compressed prec x, f_is_finite x = true ->
  parse_numeral (fmt_number compressed prec x) =
  Some (mkNumeral (neg_of prec x)
          (shown_whole compressed (display_whole x (whole_out prec x)) (dec_of prec x))
          (dec_of prec x)).
Proof.
  intros C c prec x Hx. rewrite (fmt_layout c prec x Hx).
  destruct (display_whole_ok x (whole_out prec x) (whole_out_nonneg prec x)) as [A B].
  destruct (fraction_digits C prec x Hx) as [D _].
  apply render_parses; assumption.
Qed.

(* the contract is satisfiable: exact decimal arithmetic on thousandths *)
Lemma exact_prims_ok :
  prims_ok Z (fun n => 10 * n) (fun n => n mod 1000) (fun n => n =? 0)
           (fun n => n / 1000) (fun n => (n + 500) / 1000) (fun n => 0 < n < 1000).
Proof.
  constructor.
  - intros f Hu Hz. apply Z.eqb_neq in Hz. pose proof (Z.mod_pos_bound (10 * f) 1000). lia.
  - intros f Hu. split; [apply Z.div_pos; lia|].
    assert (10 * f / 1000 < 10) by (apply Z.div_lt_upper_bound; lia). lia.
  - intros f Hu. split; [apply Z.div_pos; lia|].
    assert ((10 * f + 500) / 1000 < 11) by (apply Z.div_lt_upper_bound; lia). lia.
  - intros f Hu Hz. apply Z.eqb_eq in Hz. intros H0.
    pose proof (Z.div_mod (10 * f) 1000 ltac:(lia)). lia.
Qed.

(* non-finite values *)
Lemma nonfinite_text : forall compressed prec x,
  (f_is_nan x = true -> fmt_number compressed prec x = txt_nan) /\
  (f_is_inf x = true -> fmt_number compressed prec x =
     (if f_sign_neg x then [45%N] else []) ++ txt_infinity).
Proof.
  intros c prec x. unfold fmt_number. split; intros H.
  - rewrite H. reflexivity.
  - destruct x; try discriminate. reflexivity.
Qed.

Lemma calc_wrap : forall compressed prec x,
  fmt_css_unitless compressed prec x =
  if f_is_finite x then fmt_number compressed prec x
  else [99; 97; 108; 99; 40]%N ++ fmt_number compressed prec x ++ [41%N].
Proof. intros. unfold fmt_css_unitless. destruct (f_is_finite x); reflexivity. Qed.

(* partial rounding result: a double without fractional part prints exactly its integer value,
   no fractional digits, for every precision (digits exact below 2^53) *)
Lemma round_integers : forall compressed prec x, f_is_finite x = true -> b_is0 (ffract x) = true ->
  dec_of prec x = [] /\ whole_out prec x = whole_of x /\
  (whole_of x < 2 ^ 53 ->
   fmt_number compressed prec x =
   render compressed (f_sign_neg x && negb (whole_of x =? 0)) (digits_of (whole_of x)) []).
Proof.
  intros c prec x Hx Hz.
  assert (E : fmt_parts prec x = (f_sign_neg x && (negb (whole_of x =? 0) || false), whole_of x, [])).
  { rewrite fmt_parts_eq. unfold b_frac_part, frac_part. rewrite Hz. reflexivity. }
  unfold dec_of, whole_out. rewrite E. cbn [fst snd]. split; [reflexivity|]. split; [reflexivity|].
  intros Hlt. rewrite (fmt_layout c prec x Hx). unfold neg_of, whole_out, dec_of. rewrite E. cbn [fst snd].
  unfold display_whole. apply Z.ltb_lt in Hlt. rewrite Hlt. rewrite orb_false_r. reflexivity.
Qed.
