(* Proofs for C36 (comments). *)
From Coq Require Import List NArith Bool Arith Lia.
From RV Require Import Base.Text Spec.CssTok Model.Out Model.OutDest Spec.Reach Proofs.C07.
Import ListNotations.
Local Open Scope N_scope.

(* number of comment items in a CSS tree *)
Fixpoint ncom (it : item) : nat :=
  let ncoms := fix ncoms (l : list item) : nat :=
    match l with [] => 0%nat | x :: r => (ncom x + ncoms r)%nat end in
  match it with
  | IComment _ => 1%nat
  | IRule _ b | IMedia _ b | IAt _ _ (Some b) => ncoms b
  | _ => 0%nat
  end.
Fixpoint ncoms (l : list item) : nat :=
  match l with [] => 0%nat | x :: r => (ncom x + ncoms r)%nat end.

Lemma ncoms_app a b : ncoms (a ++ b) = (ncoms a + ncoms b)%nat.
Proof. induction a as [|x a IH]; [reflexivity|]. cbn [app ncoms]. rewrite IH. lia. Qed.

Definition ncom_rule (r : option rulebuf) : nat := match r with Some (_, b) => ncoms b | None => 0%nat end.
Definition ncom_frame (f : frame) : nat :=
  match f with
  | FRule (_, b) => ncoms b
  | FNs _ => 0%nat
  | FAt _ _ r b | FMedia _ r b => (ncom_rule r + ncoms b)%nat
  end.
Fixpoint ncom_frames (fs : list frame) : nat :=
  match fs with [] => 0%nat | f :: r => (ncom_frame f + ncom_frames r)%nat end.
Definition ncom_state (fs : list frame) (root : cssdata) : nat :=
  (ncom_frames fs + ncoms (d_imports root) + ncoms (d_body root))%nat.

(* push_comment never fails (it is a total function) and stores exactly one more
   comment, whatever destinations are open - a namespace rule hands it to its parent *)
Lemma push_comment_count : forall fs root t,
  let (fs', root') := push_comment fs root (IComment t) in
  ncom_state fs' root' = S (ncom_state fs root) /\ length fs' = length fs.
Proof.
  induction fs as [|f rest IH]; intros root t.
  - cbn. unfold ncom_state. cbn. rewrite ncoms_app. cbn. split; [lia | reflexivity].
  - destruct f as [[s b]|name|an a r body|a r body]; cbn [push_comment].
    + unfold ncom_state. cbn. rewrite ncoms_app. cbn. split; [lia | reflexivity].
    + specialize (IH root t). destruct (push_comment rest root (IComment t)) as [rest1 root1].
      destruct IH as [IH L]. unfold ncom_state in *. cbn. split; [lia | congruence].
    + destruct r as [[s b]|]; unfold ncom_state; cbn; rewrite ncoms_app; cbn; split; try lia; reflexivity.
    + destruct r as [[s b]|]; unfold ncom_state; cbn; rewrite ncoms_app; cbn; split; try lia; reflexivity.
Qed.

(* the comment arm of handle_item *)
Lemma comment_arm_expanded n ms cenv ctx st t :
  exists st', eval_item (S n) ms false cenv ctx st (SComment t) = Ok st'
    /\ ncom_state (d_frames st') (d_root st') = S (ncom_state (d_frames st) (d_root st))
    /\ d_lost st' = d_lost st.
Proof.
  cbn [eval_item]. pose proof (push_comment_count (d_frames st) (d_root st) t) as H.
  destruct (push_comment (d_frames st) (d_root st) (IComment t)) as [fs root].
  eexists. split; [reflexivity|]. cbn. split; [apply H | reflexivity].
Qed.

(* compressed (commit 775eadf): a comment is kept exactly when its text starts with `!` *)
Lemma comment_arm_compressed_drop n ms cenv ctx st t :
  starts_bang t = false -> eval_item (S n) ms true cenv ctx st (SComment t) = Ok st.
Proof. intros H. cbn [eval_item]. rewrite H. reflexivity. Qed.

Lemma comment_arm_compressed_bang n ms cenv ctx st t :
  starts_bang t = true ->
  exists st', eval_item (S n) ms true cenv ctx st (SComment t) = Ok st'
    /\ ncom_state (d_frames st') (d_root st') = S (ncom_state (d_frames st) (d_root st))
    /\ d_lost st' = d_lost st.
Proof.
  intros H. cbn [eval_item]. rewrite H. cbn [negb andb].
  pose proof (push_comment_count (d_frames st) (d_root st) t) as P.
  destruct (push_comment (d_frames st) (d_root st) (IComment t)) as [fs root].
  eexists. split; [reflexivity|]. cbn. split; [apply P | reflexivity].
Qed.

(* the former witness of F28 now keeps its comment *)
Definition bang_witness : program :=
  mkProg [] [SComment [33;32;107;101;101;112;32]; SRule [SPlain [97]] [SDecl [98] [99]]].   (* /*! keep */ a{b:c} *)
Lemma bang_kept :
  exists o, compile FUEL Compressed bang_witness = Ok (o, 0%nat)
    /\ comments_of o = [[33;32;107;101;101;112;32]].
Proof. eexists. split; vm_compute; reflexivity. Qed.

(* the writer emits a one-line comment verbatim between its delimiters *)
Lemma rev_add x b : rev (add x b) = rev b ++ x.
Proof. unfold add. rewrite rev_append_rev, rev_app_distr, rev_involutive. reflexivity. Qed.

Lemma writer_keeps_comment s ind t b :
  head_is 35 t = false -> nonl t = true ->
  exists pre post, rev (write_comment s ind t b) = rev b ++ pre ++ [47;42] ++ t ++ [42;47] ++ post.
Proof.
  intros Hh Ht. unfold write_comment. rewrite Hh. rewrite (comment_text_nonl s ind t Ht).
  unfold add_one, do_indent_no_nl. destruct (is_compressed s).
  - exists [], []. rewrite !rev_add. rewrite <- !app_assoc. reflexivity.
  - exists (spaces (Nat.min ind indent_cap)), [10]. rewrite !rev_add. rewrite <- !app_assoc. reflexivity.
Qed.
