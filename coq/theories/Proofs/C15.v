(* Proofs for C15. *)
From Coq Require Import List NArith ZArith Bool Lia.
From RV Require Import Base.F64 Base.FMod Base.ListX Spec.SassExpr Model.ExprParse Model.ExprEval Model.ExprTie Run.C15.
Import ListNotations.

Lemma tie_ok : operators_tie = true.
Proof. vm_compute. reflexivity. Qed.
